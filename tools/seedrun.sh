#!/bin/sh
# usage: tools/seedrun.sh <patch.diff> <property> [extra vcheck args]
# applies a seeded change to /repo, runs the property's check (max 15 min), reverts.
P=$1; shift
git -C /repo apply "$P" || { echo "patch does not apply"; exit 3; }
trap 'git -C /repo checkout -- . ; git -C /repo clean -fdq' EXIT INT TERM
timeout 900 /verif/bin/vcheck "$@"
rc=$?
echo "exit=$rc"
