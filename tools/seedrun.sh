#!/bin/sh
# usage: tools_seedrun.sh <patch.diff> <property> [extra vcheck args]
# applies a seeded change to /repo, runs the property's check, reverts.
P=$1; shift
git -C /repo apply "$P" || { echo "patch does not apply"; exit 3; }
/verif/bin/vcheck "$@"
rc=$?
git -C /repo checkout -- . && git -C /repo clean -fdq
echo "exit=$rc"
