#!/usr/bin/env python3
"""Writes seeded/MATRIX.md from the meta.json of every filed seed (seeded/<prop>-<X>/meta.json)."""
import json, glob, os
V = '/verif'
rows = []
for f in sorted(glob.glob(V + '/seeded/C*-*/meta.json')):
    m = json.load(open(f))
    r = m.get('check_run', {})
    rows.append((m['seed'], m['property'], 'yes' if m.get('detected') else ('no' if r.get('applies', True) else 'patch does not apply'),
                 r.get('exit'), r.get('wall_s'), ', '.join(r.get('labels', [])[:3]), m.get('note', '')))
with open(V + '/seeded/MATRIX.md', 'w') as o:
    o.write('# Seeded changes against the quick checks\n\n')
    o.write('Each row: the change in `seeded/<seed>/patch.diff` applied to /repo, `bin/vcheck --tier quick <property>` run, /repo reverted.\n')
    o.write('Exit 1 = the check printed a VIOLATION line whose replay reproduces against the real code.\n\n')
    o.write('| seed | property | detected | exit | wall s | assertion labels that fail (first 3) | note |\n|---|---|---|---|---|---|---|\n')
    for r in rows:
        o.write('| ' + ' | '.join('' if x is None else str(x) for x in r) + ' |\n')
    n = sum(1 for r in rows if r[2] == 'yes')
    o.write(f'\n{n} of {len(rows)} detected.\n')
print(open(V + '/seeded/MATRIX.md').read())
