#!/bin/bash
# Runs every claimed check on the current tree and validates the evidence files.
# usage: tools/run_all.sh [quick|thorough]
T=${1:-quick}
cd "$(dirname "$0")/.."
V=$(pwd)
rc=0
for p in $(python3 -c "import json;print(' '.join(c['property_id'] for c in json.load(open('MANIFEST.json'))['checks']))"); do
  rm -f evidence/$p.json
  out=$(bin/vcheck --tier $T $p 2>&1); e=$?
  echo "$p exit=$e $(echo "$out" | tail -1 | cut -c1-200)"
  [ $e -ne 0 ] && { rc=1; echo "$out" | grep -E "VIOLATION|INCONCLUSIVE" | head -5 | cut -c1-300; }
  python3-vt -c "
import json,jsonschema,sys
jsonschema.validate(json.load(open('$V/evidence/$p.json')),json.load(open('/root/.vp/EVIDENCE.schema.json')))" || { echo "$p: evidence invalid"; rc=1; }
done
exit $rc
