#!/usr/bin/env python3
"""Lists gonnx functions (non-test, non-generated) that no property's last run executed symbolically.
Reads evidence/*.json (functions_encoded) and `ssadump`-free: enumerates functions by a light parse of /repo."""
import json, glob, re, os, subprocess
V='/verif'
executed={}
for f in sorted(glob.glob(V+'/evidence/C*.json')):
    e=json.load(open(f)); pid=e['property_id']
    for fn in e['coverage'].get('functions_encoded',[]):
        m=re.match(r'(\S+) (\S+):(\d+) ',fn)
        if m and not m.group(2).startswith('/'):
            executed.setdefault((m.group(2),int(m.group(3))),set()).add(pid)
holes={}
tot=0
for root,_,files in os.walk('/repo'):
    if '/.git' in root or 'sample_models' in root: continue
    for fn in files:
        if not fn.endswith('.go') or fn.endswith('_test.go') or fn.endswith('.pb.go') or fn.startswith('zz'): continue
        p=os.path.join(root,fn); rel=os.path.relpath(p,'/repo')
        for i,l in enumerate(open(p),1):
            m=re.match(r'func (\([^)]*\) )?(\w+)',l)
            if m:
                tot+=1
                if (rel,i) not in executed: holes.setdefault(rel,[]).append(m.group(2))
n=sum(len(v) for v in holes.values())
print(f'{tot-n} of {tot} functions executed symbolically by at least one property; not executed:')
for k in sorted(holes): print(' ',k,':',', '.join(holes[k]))
