#!/usr/bin/env python3
"""Regenerates /verif/MANIFEST.json from the table below (kept in one place so
that claimed / not-applicable lists never drift)."""
import json, os
V = os.path.dirname(os.path.dirname(os.path.abspath(__file__)))
props = [json.loads(l) for l in open(os.path.join(V, 'properties.jsonl'))]
TECH = "bounded symbolic execution of gonnx's go/ssa (re-derived from /repo each run) + SMT (z3; bit-vectors / IEEE floats / reals), gorgonia run natively on shadow tensors, counterexamples replayed against the real build"
NOTE_COMMON = " Trusted base: the engine's SSA interpreter and term builders for gorgonia element arithmetic (validated by native replay of every counterexample), z3 4.8.12, gorgonia's structural operations executed for real on term-id tensors."
CLAIMED = {
 "C13": dict(
   text="For every structural case within the bound (1..3 declared inputs, rank <= 3/4, each dimension fixed/param/unspecified, supplied rank around the declared one, missing / extra / initializer-shadowed inputs, both map iteration orders) the solver decides, for ALL int64 values of the fixed dim_values and all supplied extents in 1..6, that Run errs exactly when the signature is violated, returns no outputs on error, passes accepted tensors through, and that InputNames/InputShapes/InputDimSize report what is enforced (also after the caller scribbles over the returned shapes). Bounded model checking is the right level: the gate is pure integer/branching code whose interesting inputs (one mismatching dimension, one value out of 2^64) are exactly what a solver enumerates and tests cannot.",
   note="Assumes: tensors are shape-only (data never touched: any access beyond Shape()/Dtype() makes the run inconclusive); declared rank >= 1 with full type info; dim_value >= 1." + NOTE_COMMON,
   design="DESIGN.md section 4, C13"),
 "C12": dict(
   text="For each of the 11 element types, both encodings, declared shapes with up to 4 elements - including shapes with a zero extent, (0), (2,0), (0,3), whose empty payload is a valid weight - and every payload length around the expected one, every payload byte / typed element is a solver variable: the check decides that TensorFromProto (with the real bytes.Reader/binary.LittleEndian loops executed symbolically) yields the declared shape, dtype and the little-endian / narrowed value of every element for ALL bit patterns, or an error and never a panic; unknown data_type codes are one symbolic int32. GraphProto.Params is checked with several initializers sharing one payload. Bounded model checking fits: the code is byte/offset arithmetic where the failing inputs are single lengths or codes.",
   note="Assumes element count <= 4 is representative for the (uniform) reader loops; SMT-LIB has a single NaN so NaN payload bits are outside; typed BOOL entries restricted to 0/1. One known finding (typed-field fallback for unsupported data_type codes) is listed in known_findings.json." + NOTE_COMMON,
   design="DESIGN.md section 4, C12"),
 "C15": dict(
   text="For all 55 registered operators (names/arity read from /repo at run time), every input count 0..max+2, nil at every subset of optional positions, and lists passed with spare capacity, the element type at each position is ONE symbolic variable over the 14-type universe, so a single symbolic run per case decides all 14^k type combinations: accepted iff arity and per-position constraints (and PRelu's equality) allow, never a panic, padded with absent inputs, tensors passed through by identity. Registry independence is decided by fingerprinting operator state before/after Init of another instance; unknown names use an opaque string unequal to every literal.",
   note="Oracle is relative to each operator's own declared min/max/type constraints, as the property states. Tensors are shape-only with symbolic dtype." + NOTE_COMMON,
   design="DESIGN.md section 4, C15"),
 "C14": dict(
   text="Both broadcast helpers are executed symbolically on ALL ordered pairs of shapes of rank 0..3 over extents {1,2} (thorough: rank 0..4, extents {1,2,3}) plus listed larger pairs, with every element a solver variable of rotating element type: compatibility verdict, result shapes, element placement (stretched axes pinned to 0), unidirectional 'first operand as is', and that the sources are neither modified (snapshot of shape/strides/dtype/elements) nor written to (frame monitor) are decided per pair for all values.",
   note="The 'random larger shapes' clause is replaced by the bounded-exhaustive set; tensor.Repeat/Reshape/Clone are executed by the real gorgonia on term-id tensors." + NOTE_COMMON,
   design="DESIGN.md section 4, C14"),
 "C03": dict(
   text="The 12 operators are driven through GetOperator/Init/ValidateInputs/Apply on every ordered shape pair of rank 0..2 over {1,2} (thorough rank 0..3 over {1,2,3}) plus rank-3/4 and incompatible-by-a-multiple pairs; every element is a solver variable under the IEEE-754 FloatingPoint theory (NaN, infinities, signed zeros) or a bit-vector (wrap-around, truncating division), so operand order, broadcasting direction, result dtype and each element are decided for all values; one tensor wired to both inputs is included. gorgonia's kernels are term builders whose shape/dtype/error behaviour comes from running the real operation on twin tensors (the float division kernel is selected by probing the real call).",
   note="Integer division by zero assumed away; string/complex types outside. One known finding (float Div by zero is not IEEE in gorgonia's contiguous kernel) is listed in known_findings.json." + NOTE_COMMON,
   design="DESIGN.md section 4, C03"),
 "C07": dict(
   text="Reshape/Flatten/Squeeze/Unsqueeze/Shape through the public operator path: requested shape entries / axes are solver variables. Phase B: entries range over a finite domain around the valid range and the solver enumerates every feasible value at the gorgonia boundary; each resulting request is compared with the ONNX rule (shape, same elements in row-major order with symbolic element values, error for every invalid request, never a panic, inputs unmodified). Phase A: entries range over all of int64 up to the first gorgonia call, which finds crashes in gonnx's own index arithmetic for any single value.",
   note="Requests with more than 3 entries, rank-0 shape/axes tensors and extents > 3 are outside." + NOTE_COMMON,
   design="DESIGN.md section 4, C07"),
 "C08": dict(
   text="Transpose/Concat/Slice/Gather/Expand through the public operator path with perm entries, axes, starts/ends/steps (incl. INT64 extremes) and every gather index as solver variables over stated finite domains and all data elements symbolic; results are compared with the ONNX index formulas written as plain loops: result-or-error for implementable requests, error for invalid ones, never a panic, inputs unmodified.",
   note="Two known findings (Slice drops extent-1 axes; steps other than 1) are listed in known_findings.json; repeated Slice axes (undefined in ONNX) and empty results are outside." + NOTE_COMMON,
   design="DESIGN.md section 4, C08"),
 "C10": dict(
   text="The 17 unary operators through the public operator path on float32/float64 (every accepted integer type for Abs/PRelu, bool for Not), every element a solver variable under IEEE-754: the result must be, per element, the term of the function the operator is named after (math wrappers: E(math.F(float64(x))) with one uninterpreted function per routine, so a wrapper that calls another routine is refuted; Abs/Relu/PRelu/Not: exact semantics incl. NaN, -Inf, signed zero; Tanh/Sigmoid: the math32/math routines gorgonia's kernels call, plus special-value assertions), shape and dtype preserved, PRelu slope unidirectionally broadcast (13 shape pairs), inputs unmodified.",
   note="Accuracy of the transcendental routines against the correctly rounded function is not decided (no SMT theory): Go's math/math32 are trusted and only facts about exp/tanh listed in the evidence are assumed." + NOTE_COMMON,
   design="DESIGN.md section 4, C10"),
 "C11": dict(
   text="Cast: all 10x10 numeric pairs with symbolic elements (conversion, target dtype per ONNX code, source signedness, shape), non-numeric and one symbolic target code refused; Constant: every attribute form with symbolic payloads; ConstantOfShape: symbolic requested shape entries and value element, value of 0D/2 elements/absent, and the same instance applied to two requests in a row.",
   note="Float-to-integer conversion outside the target range is implementation-defined: both sides use Go's conversion." + NOTE_COMMON,
   design="DESIGN.md section 4, C11"),
 "C09": dict(
   text="ArgMax/ReduceMax/ReduceMin: symbolic axes (incl. out-of-range and repeated), keepdims 0/1/absent, no axes, all elements symbolic (IEEE floats with ties and infinities, integers): output shape, dtype and first-occurrence / max / min per slice, error for invalid axes. Softmax/LogSoftmax in exact real arithmetic (exp/log uninterpreted, exp>0): outputs equal exp(x-m)/sum resp. (x-m)-log(sum) along the requested axis only, slices sum to 1, and the same operator instance re-applied to an input of another rank; thorough tier adds IEEE float32 proofs that finite inputs of any magnitude give non-NaN results in range. gorgonia's Argmax/Max/Min/softmax kernels are line-by-line ports incl. their quirks.",
   note="Two known findings (ArgMax +Inf tie, softmax slice-maximum seed) listed in known_findings.json; NaN ordering in reductions outside; the IEEE overflow clause is thorough-tier only (about one minute of solver time per assertion)." + NOTE_COMMON,
   design="DESIGN.md section 4, C09"),
 "C04": dict(
   text="MatMul (numpy.matmul for 24+ rank/shape combinations incl. vector promotion and broadcast batch dims), Gemm (every transA/transB, symbolic alpha/beta, 9 shapes of C), LinearRegressor and Scaler in EXACT REAL arithmetic with every element and scalar a solver variable: the result must equal the algebraic definition as an identity over the reals (nonlinear real arithmetic), or be an error; float32 operands must be computed; the same operator instance is applied twice to the same tensors, which must stay unmodified.",
   note="The identity is over the reals: the size of floating-point rounding is the standard dot-product bound and is cited, not checked. One known finding (batched path with 1x1 matrices refused)." + NOTE_COMMON,
   design="DESIGN.md section 4, C04"),
 "C05": dict(
   text="Conv (1-D and 2-D, group 1) against direct convolution over the zero-padded input in exact real arithmetic with all inputs, weights and biases symbolic, for non-square geometries x strides x dilations x asymmetric pads x auto_pad modes x kernel_shape given/inferred x bias x batch/channel/kernel counts; refused configurations must be errors; each operator instance is applied a second time to other values.",
   note="Two known findings (auto_pad=VALID pinned by the repo's own tests; kernels with a unit spatial extent refused). The fully symbolic geometry lemmas of DESIGN 4/C05 layer 1 are not part of the check." + NOTE_COMMON,
   design="DESIGN.md section 4, C05"),
 "C06": dict(
   text="RNN, GRU and LSTM against the ONNX recurrences written as scalar loops (ONNX gate order, Wb/Rb halves, peepholes) in exact real arithmetic with X, W, R, B, P and the initial states symbolic and exp/tanh uninterpreted: outputs Y [seq,1,batch,hidden], Y_h, Y_c for every subset of optional inputs, supported and unsupported activations, linear_before_reset, input_forget honoured-or-refused; split consistency with the returned state tensors fed to the second call on the same instance; all inputs unmodified.",
   note="Two known findings (hidden_size 1; batch 1 with input 1). Rounding and the accuracy of exp/tanh are outside." + NOTE_COMMON,
   design="DESIGN.md section 4, C06"),
 "C01": dict(
   text="Model.Run on 250+ small graphs (1-3 nodes over an operator alphabet chosen to exercise every binding rule, multi-output RNN/GRU/LSTM nodes with arbitrary/permuted/omitted/empty output names, skipped optional inputs, initializers that are also graph inputs, dangling/late/unproduced names, unknown operators, Constants) with every tensor element symbolic, compared with an independent evaluator in the harness that binds results by position in its own environment: same error-ness, exactly the declared outputs, each term-equal to the composition.",
   note="Graphs with more than 3 nodes and operators outside the alphabet are outside; protobuf decoding is not involved (the harness builds the decoded struct)." + NOTE_COMMON,
   design="DESIGN.md section 4, C01"),
 "C02": dict(
   text="One inductive step plus a concrete history, decided symbolically for every input value: for single-node models of all 55 operators (every weight-capable input once as caller tensor, once as initializer) and three multi-node graphs: Run(A), a failing Run, Run(B) (other values / another batch size) compared with a freshly loaded model, Run(A) again with the very same tensor objects, and a Run fed with an output of the first; after every Run caller tensors and weights are compared with snapshots (shape, strides, dtype, all elements) and the interpreter's write monitor must have seen no write to them. A Run that writes nothing reachable from the Model or the caller's tensors starts from the state a fresh Model starts from, so the step covers histories of any length.",
   note="Histories longer than five Runs are covered by the induction argument, not explored; sample .onnx files are covered operator by operator." + NOTE_COMMON,
   design="DESIGN.md section 4, C02"),
 "C16": dict(
   text="Relational check in exact real arithmetic with every sample symbolic: Run(stack(s1..sN))[i] == Run(s_i) for N in {1,2,3}, forward and reversed batch order, on the repository's mlp/scaler/gru sample files (decoded natively, weights as exact rationals, gru with batch size == sequence length included) and 45 generated per-sample models with symbolic weights (Gemm/MatMul either side, Conv, elementwise vs weights, activations, Softmax over inner axes, batch-preserving reshapes, Gather, Transpose, RNN/GRU/LSTM, the Transpose-GRU-Squeeze-Transpose shape).",
   note="Identity over the reals ('up to rounding'); last-axis Softmax with N>1 excluded (needs exp(a+b)=exp(a)exp(b); its numerical consequence is the C09 known finding); N>3 and ndm.onnx outside." + NOTE_COMMON,
   design="DESIGN.md section 4, C16"),
 "C17": dict(
   category="other",
   text="The schedule quantifier is discharged by reduction, not exploration: if a Run - for every input - writes nothing reachable from the Model nor any package-level variable, concurrent Runs with private inputs only read shared memory, hence (Go memory model) are race free and each computes what it computes alone. That sequential frame condition IS decided symbolically: on the C02 model set plus the mlp/scaler/gru sample files, the whole object graph reachable from the *Model (fields, decoded ModelProto, parameter map, weight metadata and data) and all package-level variables are put under the interpreter's write monitor; loading another model, three Runs and a failing Run must perform no store, map update or in-place tensor operation on them. A counterexample is confirmed natively either as a lasting state change or by go test -race on 8 goroutines.",
   note="Not checked: the step from the frame condition to all interleavings (Go memory model), gorgonia's read-only API not writing its receiver, gorgonia's pools being goroutine safe. gonnx's SSA contains no go/select/channel instruction (they would abort the run)." + NOTE_COMMON,
   technique="symbolic execution of NewModel/Run with a write monitor over the shared object graph (frame condition), SMT only for path feasibility; native confirmation by state fingerprint or go test -race",
   design="DESIGN.md section 4, C17"),
 "C18": dict(
   text="Constructors with the environment (os.ReadFile, zip member, io.ReadAll, proto.Unmarshal) as nondeterministic stubs: every failure comes out as (nil, error), never a panic. NewModel on an arbitrary decoded message within bounds (opset versions as solver variables over all of int64, graph absent, initializers with symbolic data_type/dim/payload, value infos with holes, nodes whose attributes are not what their operator expects - a Constant whose value holds no tensor or an undecodable one, unnamed and mistyped attributes, an empty node - under the no-panic assertion): refused iff undecodable or highest opset != 13, with the unsupported-opset error. Run on graphs containing an operator type outside the opset (opaque string unequal to every literal) at every position, output used or not: fails with the unsupported-operator error.",
   note="'Any byte string' through proto.Unmarshal is NOT decided: the protobuf runtime is not encodable; its result is modelled as an arbitrary well-typed message within the bounds, and native cross-validation runs feed garbage, truncated and the sample files through the real decoder. One known finding (typed-field fallback, shared with C12)." + NOTE_COMMON,
   design="DESIGN.md section 4, C18"),
}
NA_REASON = "check not built yet (engine under construction in this session); will be claimed once its bounds run clean"
checks = []
for p in props:
    pid = p['id']
    if pid in CLAIMED:
        c = CLAIMED[pid]
        checks.append({
            "property_id": pid,
            "quick_cmd": "bin/vcheck --tier quick %s" % pid,
            "thorough_cmd": "bin/vcheck --tier thorough %s" % pid,
            "evidence_file": "/verif/evidence/%s.json" % pid,
            "replay_cmd_template": "bin/vcheck --replay {path}",
            "engine": "symgo",
            "level_claimed": {"category": c.get("category", "model_checking"), "text": c["text"], "design_ref": c["design"]},
            "level_note": c["note"],
            "technique": c.get("technique", TECH),
        })
m = {
 "version": 1,
 "setup_cmd": "cd /verif/engine && GOFLAGS=-mod=mod GOPROXY=off GOSUMDB=off GOTOOLCHAIN=local go build -o /verif/bin/vcheck.bin ./cmd/vcheck",
 "hooks": {"guard": "verif",
           "enable": "no hooks live in /repo: harness files carry //go:build verif and are injected by go/packages Overlay (symbolic run) and `go test -tags verif -overlay` (native replay)",
           "baseline_off_cmd": "cd /repo && GOFLAGS=-mod=mod GOPROXY=off GOSUMDB=off go test -json -vet=off -count=1 -timeout 25m ./...",
           "source_commits": [], "add_only": True},
 "engines": [{"name": "symgo", "path": "engine/", "serves_properties": sorted(CLAIMED),
              "kind_free_text": "symbolic interpreter for the go/ssa form of gonnx + SMT-LIB2 (z3, cross-checks with z3-new/cvc5); gorgonia executed natively on shadow tensors; native replay of counterexamples via go test -overlay"}],
 "checks": checks,
 "not_applicable": [{"property_id": p['id'], "reason": NA_REASON} for p in props if p['id'] not in CLAIMED],
 "notes": "See DESIGN.md. Exit codes: 0 held within the stated bounds, 1 reproduced violation (VIOLATION line), 2 inconclusive (solver unknown, engine limitation, unconfirmed counterexample).",
}
json.dump(m, open(os.path.join(V, 'MANIFEST.json'), 'w'), indent=1)
print("claimed:", sorted(CLAIMED))
