#!/usr/bin/env python3
"""Applies each behaviour-preserving refactor (refactors/<prop>-R<k>/patch.diff) to /repo and runs quick checks
(the refactor's own property by default; `all` as first argument: every property). Expected: exit 0 everywhere.
Writes refactors/<id>/result.json. Never run other checks on /repo meanwhile."""
import json, os, subprocess, sys, re, time, glob
V = '/verif'
import os as _os
VD = _os.environ.get('VDIR', V)   # verif tree whose engine/harness is run (a snapshot worktree lets work in /verif go on)
RD = _os.environ.get('RDIR', '/repo')  # repository tree the patch is applied to (a scratch worktree leaves /repo alone)
args = sys.argv[1:]
allprops = bool(args and args[0] == 'all')
if allprops: args = args[1:]
props = [json.loads(l)['id'] for l in open(V + '/properties.jsonl')]
for d in sorted(glob.glob(V + '/refactors/C*-R*')):
    rid = os.path.basename(d)
    if args and rid not in args and rid.split('-')[0] not in args: continue
    subprocess.run(['git', '-C', RD, 'checkout', '--', '.']); subprocess.run(['git', '-C', RD, 'clean', '-fdq'])
    ap = subprocess.run(['git', '-C', RD, 'apply', d + '/patch.diff'], capture_output=True, text=True)
    res = {'applies': ap.returncode == 0, 'runs': {}}
    if ap.returncode == 0:
        extra = [x for x in _os.environ.get('PROPS', '').split(',') if x]   # PROPS=C01,C02: the own property plus these
        own = rid.split('-')[0]
        for pid in (props if allprops else [own] + [x for x in extra if x != own]):
            t0 = time.time()
            r = subprocess.run(['timeout', '1500', VD + '/bin/vcheck', '-repo', RD, '--tier', 'quick', pid], capture_output=True, text=True, cwd=VD)
            out = r.stdout
            res['runs'][pid] = {'exit': r.returncode, 'wall_s': round(time.time() - t0, 1),
                                'labels': sorted(set(re.findall(r'label=(\S+)', out)))[:6],
                                'inconclusive': sorted(set(re.findall(r'\}: ([^@\[]*) @', out)))[:6],
                                'summary': out.strip().split('\n')[-1][:260]}
            print(rid, pid, r.returncode, res['runs'][pid]['wall_s'], res['runs'][pid]['labels'][:2], res['runs'][pid]['inconclusive'][:2], flush=True)
    else:
        print(rid, 'does not apply', ap.stderr[:200], flush=True)
    subprocess.run(['git', '-C', RD, 'checkout', '--', '.']); subprocess.run(['git', '-C', RD, 'clean', '-fdq'])
    old = json.load(open(d + '/result.json')) if os.path.exists(d + '/result.json') else {'runs': {}}
    old['applies'] = res['applies']; old['runs'].update(res['runs'])
    json.dump(old, open(d + '/result.json', 'w'), indent=1)
