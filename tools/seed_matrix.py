#!/usr/bin/env python3
"""Runs every filed seeded change (seeded/<prop>-<X>/patch.diff) against the quick check of its property:
apply to /repo, run, revert. Updates check_run/detected in each meta.json; tools/seed_table.py then
writes seeded/MATRIX.md. Arguments: seed ids or property ids to restrict the run.
Never run another check on /repo while this is running (a patch is applied)."""
import json, os, subprocess, sys, re, time, glob
V = '/verif'
import os as _os
VD = _os.environ.get('VDIR', V)   # verif tree whose engine/harness is run (a snapshot worktree lets work in /verif go on)
RD = _os.environ.get('RDIR', '/repo')  # repository tree the patch is applied to (a scratch worktree leaves /repo alone)
only = sys.argv[1:]
for d in sorted(glob.glob(V + '/seeded/C*-*')):
    sid = os.path.basename(d)
    pid = sid.split('-')[0]
    if only and sid not in only and pid not in only:
        continue
    meta = json.load(open(d + '/meta.json')) if os.path.exists(d + '/meta.json') else {'seed': sid, 'property': pid}
    subprocess.run(['git', '-C', RD, 'checkout', '--', '.'])
    ap = subprocess.run(['git', '-C', RD, 'apply', d + '/patch.diff'], capture_output=True, text=True)
    res = {'applies': ap.returncode == 0}
    if ap.returncode == 0:
        t0 = time.time()
        r = subprocess.run(['timeout', '1500', VD + '/bin/vcheck', '-repo', RD, '--tier', 'quick', pid], capture_output=True, text=True, cwd=VD)
        out = r.stdout
        res['exit'] = r.returncode
        res['wall_s'] = round(time.time() - t0, 1)
        res['violation_lines'] = len([l for l in out.split('\n') if l.startswith('VIOLATION')])
        res['labels'] = sorted(set(re.findall(r'label=(\S+)', out)))[:8]
        res['summary'] = out.strip().split('\n')[-1][:300] if r.returncode in (0, 2) else ''
    subprocess.run(['git', '-C', RD, 'checkout', '--', '.'])
    subprocess.run(['git', '-C', RD, 'clean', '-fdq'])
    meta['check_run'] = {'cmd': f'git -C /repo apply seeded/{sid}/patch.diff; bin/vcheck --tier quick {pid}; git -C /repo checkout -- .', **res}
    if meta.get('breaks_property_on_current_tree', True):
        meta['detected'] = res.get('exit') == 1
    json.dump(meta, open(d + '/meta.json', 'w'), indent=1)
    print(sid, res.get('exit'), res.get('wall_s'), res.get('labels', [])[:3], flush=True)
