#!/bin/bash
# Verifies every seeded change in a scratch worktree of /repo's HEAD:
#  demo passes without the patch, patch applies, suite unchanged with it, demo fails with it.
export GOFLAGS=-mod=mod GOPROXY=off GOSUMDB=off GOTOOLCHAIN=local
SRC=${1:-/verif/seeded}
WT=/tmp/seedwt
git -C /repo worktree remove --force $WT 2>/dev/null
git -C /repo worktree add -f --detach $WT HEAD >/dev/null 2>&1 || exit 1
for d in $SRC/C*-*; do
  id=$(basename $d)
  [ -f $d/patch.diff ] || continue
  git -C $WT checkout -q -- . ; git -C $WT clean -fdq
  dir=$(awk '{print $1; exit}' $d/demo.txt); dir=${dir%:}
  cmd=$(grep -o "go test.*" $d/demo.txt | head -1 | sed 's/   *(.*$//')
  sub=$(grep -o "cd [^ ]* &&" $d/demo.txt | head -1 | awk '{print $2}')
  [ -z "$sub" ] && sub=.
  case "$cmd" in *" .") sub=$dir;; esac   # "go test ... ." is meant to run inside the demo's directory
  [ -n "$ONLY" ] && { case "$id" in $ONLY) ;; *) continue;; esac; }
  cp $d/demo_test.go $WT/$dir/zz_demo_test.go
  base=$(cd $WT/$sub && eval "timeout 300 $cmd" 2>&1 | tail -3 | tr '\n' ' ')
  case "$base" in *ok*) b=pass;; *) b="FAIL($base)";; esac
  rm -f $WT/$dir/zz_demo_test.go
  if ! git -C $WT apply $d/patch.diff 2>/dev/null; then echo "$id: baseline=$b patch=CONFLICT"; continue; fi
  suite=$(cd $WT && go test -vet=off -count=1 ./... 2>&1 | grep -E "^--- FAIL" | tr '\n' ' ')
  cp $d/demo_test.go $WT/$dir/zz_demo_test.go
  withp=$(cd $WT/$sub && eval "timeout 300 $cmd" 2>&1 | tail -3 | tr '\n' ' ')
  case "$withp" in *FAIL*) w=fails;; *) w="PASSES";; esac
  echo "$id: baseline=$b patch=applies suite_failures=[${suite}] demo_with_patch=$w"
done
git -C /repo worktree remove --force $WT
