#!/usr/bin/env python3
"""Writes refactors/MATRIX.md from refactors/*/result.json."""
import json, glob, os
V = '/verif'
props = [json.loads(l)['id'] for l in open(V + '/properties.jsonl')]
rows = []
bad = 0
for f in sorted(glob.glob(V + '/refactors/C*-R*/result.json')):
    rid = os.path.basename(os.path.dirname(f))
    r = json.load(open(f))
    cells = []
    for p in props:
        x = r['runs'].get(p)
        cells.append('' if x is None else str(x['exit']))
        if x is not None and x['exit'] != 0: bad += 1
    rows.append((rid, cells))
with open(V + '/refactors/MATRIX.md', 'w') as o:
    o.write('# Behaviour-preserving refactors against the quick checks (exit codes; blank = not run)\n\n')
    o.write('Expected: 0 everywhere (1 would be a false alarm, 2 an inconclusive run).\n\n')
    o.write('| refactor | ' + ' | '.join(props) + ' |\n|---|' + '---|' * len(props) + '\n')
    for rid, cells in rows:
        o.write('| ' + rid + ' | ' + ' | '.join(cells) + ' |\n')
    o.write(f'\nnon-zero exits: {bad}\n')
print(open(V + '/refactors/MATRIX.md').read()[-1500:])
