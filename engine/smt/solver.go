package smt

import (
	"bufio"
	"fmt"
	"io"
	"math/big"
	"os"
	"os/exec"
	"strings"
	"sync"
	"time"
)

type Result int

const (
	Unsat Result = iota
	Sat
	Unknown
)

func (r Result) String() string { return [...]string{"unsat", "sat", "unknown"}[r] }

// Proc is one persistent solver process.
type Proc struct {
	Name string
	cmd  *exec.Cmd
	in   io.WriteCloser
	out  *bufio.Reader
	log  io.Writer
	mu   sync.Mutex
	dead bool
}

type Backend struct {
	Name string
	Argv []string
	// per-query timeout option (ms) rendered into the script
	TimeoutOpt func(ms int) string
}

var Backends = map[string]Backend{
	"z3": {Name: "z3", Argv: []string{"z3", "-in"}, TimeoutOpt: func(ms int) string {
		return fmt.Sprintf("(set-option :timeout %d)\n", ms)
	}},
	"z3-new": {Name: "z3-new", Argv: []string{"z3-new", "-in"}, TimeoutOpt: func(ms int) string {
		return fmt.Sprintf("(set-option :timeout %d)\n", ms)
	}},
	"cvc5": {Name: "cvc5", Argv: []string{"cvc5", "--incremental", "--lang=smt2", "--fp-exp", "--nl-ext-tplanes"}, TimeoutOpt: func(ms int) string {
		return fmt.Sprintf("(set-option :tlimit-per %d)\n", ms)
	}},
}

func Start(b Backend, log io.Writer) (*Proc, error) {
	cmd := exec.Command(b.Argv[0], b.Argv[1:]...)
	in, err := cmd.StdinPipe()
	if err != nil {
		return nil, err
	}
	out, err := cmd.StdoutPipe()
	if err != nil {
		return nil, err
	}
	cmd.Stderr = os.Stderr
	if err := cmd.Start(); err != nil {
		return nil, err
	}
	p := &Proc{Name: b.Name, cmd: cmd, in: in, out: bufio.NewReaderSize(out, 1<<20), log: log}
	return p, nil
}

func (p *Proc) Close() {
	if p == nil || p.dead {
		return
	}
	p.dead = true
	p.in.Close()
	done := make(chan struct{})
	go func() { p.cmd.Wait(); close(done) }()
	select {
	case <-done:
	case <-time.After(2 * time.Second):
		p.cmd.Process.Kill()
	}
}

func (p *Proc) send(s string) error {
	if p.log != nil {
		io.WriteString(p.log, s)
	}
	_, err := io.WriteString(p.in, s)
	return err
}

// readSexp reads one complete s-expression (or atom line) from the solver.
func (p *Proc) readSexp() (string, error) {
	var sb strings.Builder
	depth := 0
	started := false
	inBar := false
	inStr := false
	for {
		c, err := p.out.ReadByte()
		if err != nil {
			return sb.String(), err
		}
		if !started {
			if c == ' ' || c == '\n' || c == '\r' || c == '\t' {
				continue
			}
			started = true
		}
		sb.WriteByte(c)
		switch {
		case inBar:
			if c == '|' {
				inBar = false
			}
		case inStr:
			if c == '"' {
				inStr = false
			}
		case c == '|':
			inBar = true
		case c == '"':
			inStr = true
		case c == '(':
			depth++
		case c == ')':
			depth--
			if depth == 0 {
				return sb.String(), nil
			}
		case c == '\n':
			if depth == 0 {
				return strings.TrimSpace(sb.String()), nil
			}
		}
	}
}

// Session is an incremental conversation: assertions are pushed along a path.
type Session struct {
	P         *Proc
	Em        *Emitter
	St        *Store
	Backend   Backend
	Queries   int
	SatN      int
	UnsatN    int
	UnkN      int
	Time      time.Duration
	Errors    []string
	depth     int
	TimeoutMs int
}

func NewSession(b Backend, st *Store, timeoutMs int, log io.Writer) (*Session, error) {
	p, err := Start(b, log)
	if err != nil {
		return nil, err
	}
	s := &Session{P: p, St: st, Backend: b, TimeoutMs: timeoutMs}
	s.Em = NewEmitter(st)
	hdr := "(set-option :print-success false)\n(set-option :produce-models true)\n(set-option :global-declarations true)\n" + b.TimeoutOpt(timeoutMs)
	if err := p.send(hdr); err != nil {
		return nil, err
	}
	return s, nil
}

// Reset starts over with a new term store (same process).
func (s *Session) Reset(st *Store, timeoutMs int) error {
	s.St = st
	s.Em = NewEmitter(st)
	s.depth = 0
	s.TimeoutMs = timeoutMs
	return s.P.send("(reset)\n(set-option :print-success false)\n(set-option :produce-models true)\n(set-option :global-declarations true)\n" + s.Backend.TimeoutOpt(timeoutMs))
}

func (s *Session) Close() { s.P.Close() }

func (s *Session) Push() error { s.depth++; return s.P.send("(push 1)\n") }
func (s *Session) Pop() error  { s.depth--; return s.P.send("(pop 1)\n") }
func (s *Session) PopAll() error {
	for s.depth > 0 {
		if err := s.Pop(); err != nil {
			return err
		}
	}
	return nil
}

func (s *Session) Assert(t *Term) error {
	pre, ex := s.Em.Emit(t)
	return s.P.send(pre + "(assert " + ex + ")\n")
}

// Check runs check-sat on the current assertion stack. A solver that does not
// answer within twice its own timeout is killed (the verdict is Unknown).
func (s *Session) Check() (Result, error) {
	if s.P.dead {
		s.UnkN++
		return Unknown, fmt.Errorf("solver %s is gone", s.P.Name)
	}
	type answer struct {
		r   Result
		err error
	}
	ch := make(chan answer, 1)
	go func() {
		r, err := s.check()
		ch <- answer{r, err}
	}()
	limit := time.Duration(2*s.TimeoutMs+2000) * time.Millisecond
	select {
	case a := <-ch:
		return a.r, a.err
	case <-time.After(limit):
		s.P.dead = true
		s.P.cmd.Process.Kill()
		<-ch
		s.UnkN++
		s.Errors = append(s.Errors, "solver did not honour its timeout and was killed")
		return Unknown, fmt.Errorf("solver %s killed after %v", s.P.Name, limit)
	}
}

func (s *Session) check() (Result, error) {
	t0 := time.Now()
	if err := s.P.send("(check-sat)\n"); err != nil {
		return Unknown, err
	}
	s.Queries++
	for {
		ans, err := s.P.readSexp()
		if err != nil {
			s.UnkN++
			return Unknown, fmt.Errorf("solver %s died: %v (%s)", s.P.Name, err, ans)
		}
		s.Time += time.Since(t0)
		switch {
		case ans == "sat":
			s.SatN++
			return Sat, nil
		case ans == "unsat":
			s.UnsatN++
			return Unsat, nil
		case ans == "unknown" || ans == "timeout":
			s.UnkN++
			return Unknown, nil
		case strings.HasPrefix(ans, "(error"):
			s.Errors = append(s.Errors, ans)
			// keep reading: the check-sat answer still follows, but it is not believed
			for {
				a2, err := s.P.readSexp()
				if err != nil {
					break
				}
				if a2 == "sat" || a2 == "unsat" || a2 == "unknown" {
					break
				}
			}
			s.UnkN++
			return Unknown, fmt.Errorf("solver error: %s", ans)
		default:
			s.Errors = append(s.Errors, "unexpected: "+ans)
		}
	}
}

// CheckWith checks the stack plus extra assertions, without keeping them.
func (s *Session) CheckWith(extra ...*Term) (Result, error) {
	if err := s.Push(); err != nil {
		return Unknown, err
	}
	for _, t := range extra {
		if err := s.Assert(t); err != nil {
			return Unknown, err
		}
	}
	r, err := s.Check()
	if perr := s.Pop(); perr != nil && err == nil {
		err = perr
	}
	return r, err
}

// Model maps symbol name -> constant term.
type Model map[string]*Term

// GetModel must be called right after a Sat answer, before any pop.
func (s *Session) GetModel(syms []*Term) (Model, error) {
	m := Model{}
	if len(syms) == 0 {
		return m, nil
	}
	const chunk = 200
	for i := 0; i < len(syms); i += chunk {
		j := i + chunk
		if j > len(syms) {
			j = len(syms)
		}
		var sb strings.Builder
		sb.WriteString("(get-value (")
		for _, t := range syms[i:j] {
			pre, ex := s.Em.Emit(t)
			if pre != "" {
				// a symbol that never occurred in an assertion: declare it now
				if err := s.P.send(pre); err != nil {
					return nil, err
				}
			}
			sb.WriteString(ex + " ")
		}
		sb.WriteString("))\n")
		if err := s.P.send(sb.String()); err != nil {
			return nil, err
		}
		ans, err := s.P.readSexp()
		if err != nil {
			return nil, err
		}
		if strings.HasPrefix(ans, "(error") {
			return nil, fmt.Errorf("get-value: %s", ans)
		}
		sx, _, err := parseSexp(ans, 0)
		if err != nil {
			return nil, err
		}
		for k, pair := range sx.list {
			if len(pair.list) != 2 {
				return nil, fmt.Errorf("get-value: bad pair %v", pair)
			}
			t := syms[i+k]
			c, err := s.St.parseValue(pair.list[1], t.Sort)
			if err != nil {
				return nil, fmt.Errorf("get-value %s: %v in %s", t.Name, err, ans)
			}
			m[t.Name] = c
		}
	}
	return m, nil
}

// ---- tiny s-expression parser for model values

type sexp struct {
	atom string
	list []*sexp
	isL  bool
}

func (x *sexp) String() string {
	if !x.isL {
		return x.atom
	}
	var parts []string
	for _, c := range x.list {
		parts = append(parts, c.String())
	}
	return "(" + strings.Join(parts, " ") + ")"
}

func parseSexp(s string, i int) (*sexp, int, error) {
	for i < len(s) && (s[i] == ' ' || s[i] == '\n' || s[i] == '\t' || s[i] == '\r') {
		i++
	}
	if i >= len(s) {
		return nil, i, fmt.Errorf("eof")
	}
	if s[i] == '(' {
		x := &sexp{isL: true}
		i++
		for {
			for i < len(s) && (s[i] == ' ' || s[i] == '\n' || s[i] == '\t' || s[i] == '\r') {
				i++
			}
			if i >= len(s) {
				return nil, i, fmt.Errorf("unterminated list")
			}
			if s[i] == ')' {
				return x, i + 1, nil
			}
			c, j, err := parseSexp(s, i)
			if err != nil {
				return nil, j, err
			}
			x.list = append(x.list, c)
			i = j
		}
	}
	j := i
	if s[i] == '|' {
		j = i + 1
		for j < len(s) && s[j] != '|' {
			j++
		}
		j++
		return &sexp{atom: s[i:j]}, j, nil
	}
	for j < len(s) && s[j] != ' ' && s[j] != '\n' && s[j] != ')' && s[j] != '(' && s[j] != '\t' && s[j] != '\r' {
		j++
	}
	return &sexp{atom: s[i:j]}, j, nil
}

func parseBV(a string) (uint64, int, bool) {
	if strings.HasPrefix(a, "#x") {
		v := new(big.Int)
		if _, ok := v.SetString(a[2:], 16); !ok {
			return 0, 0, false
		}
		return v.Uint64(), 4 * (len(a) - 2), true
	}
	if strings.HasPrefix(a, "#b") {
		v := new(big.Int)
		if _, ok := v.SetString(a[2:], 2); !ok {
			return 0, 0, false
		}
		return v.Uint64(), len(a) - 2, true
	}
	return 0, 0, false
}

func (st *Store) parseRat(x *sexp) (*big.Rat, error) {
	if !x.isL {
		r := new(big.Rat)
		if _, ok := r.SetString(x.atom); !ok {
			return nil, fmt.Errorf("bad number %q", x.atom)
		}
		return r, nil
	}
	if len(x.list) == 2 && x.list[0].atom == "-" {
		r, err := st.parseRat(x.list[1])
		if err != nil {
			return nil, err
		}
		return r.Neg(r), nil
	}
	if len(x.list) == 3 && x.list[0].atom == "/" {
		a, err := st.parseRat(x.list[1])
		if err != nil {
			return nil, err
		}
		b, err := st.parseRat(x.list[2])
		if err != nil {
			return nil, err
		}
		if b.Sign() == 0 {
			return nil, fmt.Errorf("division by zero in model value")
		}
		return a.Quo(a, b), nil
	}
	return nil, fmt.Errorf("unsupported numeric value %s (algebraic number?)", x)
}

func (st *Store) parseValue(x *sexp, so Sort) (*Term, error) {
	switch so.K {
	case KBool:
		switch x.atom {
		case "true":
			return st.True(), nil
		case "false":
			return st.False(), nil
		}
	case KBV:
		if !x.isL {
			if u, _, ok := parseBV(x.atom); ok {
				return st.BVC(so.W, u), nil
			}
		} else if len(x.list) == 3 && x.list[0].atom == "_" && strings.HasPrefix(x.list[1].atom, "bv") {
			v := new(big.Int)
			v.SetString(x.list[1].atom[2:], 10)
			return st.BVC(so.W, v.Uint64()), nil
		}
	case KFP32, KFP64:
		eb, sb := 8, 23
		if so.K == KFP64 {
			eb, sb = 11, 52
		}
		mkbits := func(sign, exp, man uint64) *Term {
			b := sign<<uint(eb+sb) | exp<<uint(sb) | man
			if so.K == KFP32 {
				return st.F32Bits(uint32(b))
			}
			return st.F64Bits(b)
		}
		if x.isL && len(x.list) == 4 && x.list[0].atom == "fp" {
			sg, _, ok1 := parseBV(x.list[1].atom)
			ex, _, ok2 := parseBV(x.list[2].atom)
			mn, _, ok3 := parseBV(x.list[3].atom)
			if ok1 && ok2 && ok3 {
				return mkbits(sg, ex, mn), nil
			}
		}
		if x.isL && len(x.list) == 4 && x.list[0].atom == "_" {
			allOnes := uint64(1)<<uint(eb) - 1
			switch x.list[1].atom {
			case "+zero":
				return mkbits(0, 0, 0), nil
			case "-zero":
				return mkbits(1, 0, 0), nil
			case "+oo":
				return mkbits(0, allOnes, 0), nil
			case "-oo":
				return mkbits(1, allOnes, 0), nil
			case "NaN":
				return mkbits(0, allOnes, uint64(1)<<uint(sb-1)), nil
			}
		}
	case KReal, KInt:
		r, err := st.parseRat(x)
		if err != nil {
			return nil, err
		}
		return st.mk(&Term{Op: OConst, Sort: so, R: r}), nil
	}
	return nil, fmt.Errorf("cannot parse value %s of sort %s", x, so)
}
