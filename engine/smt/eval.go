package smt

import "fmt"

// Rebuild re-applies the smart constructor for t's operator on new arguments.
func (s *Store) Rebuild(t *Term, a []*Term) *Term {
	switch t.Op {
	case OConst, OSym:
		return t
	case ONot:
		return s.Not(a[0])
	case OAnd:
		return s.And(a...)
	case OOr:
		return s.Or(a...)
	case OIte:
		return s.Ite(a[0], a[1], a[2])
	case OEq:
		return s.Eq(a[0], a[1])
	case OBVAdd, OBVSub, OBVMul, OBVSDiv, OBVUDiv, OBVSRem, OBVURem, OBVAnd, OBVOr, OBVXor, OBVShl, OBVLShr, OBVAShr:
		return s.bvBin(t.Op, a[0], a[1])
	case OBVNot:
		return s.BVNot(a[0])
	case OBVNeg:
		return s.BVNeg(a[0])
	case OBVSLt, OBVSLe, OBVULt, OBVULe:
		return s.bvCmp(t.Op, a[0], a[1])
	case OExtract:
		return s.Extract(a[0], t.A, t.B)
	case OZeroExt:
		return s.ZeroExt(a[0], t.A)
	case OSignExt:
		return s.SignExt(a[0], t.A)
	case OConcat:
		return s.Concat(a[0], a[1])
	case OFPAdd, OFPSub, OFPMul, OFPDiv:
		return s.fpBin(t.Op, a[0], a[1])
	case OFPNeg:
		return s.FPNeg(a[0])
	case OFPAbs:
		return s.FPAbs(a[0])
	case OFPLt, OFPLe, OFPEq:
		return s.fpCmp(t.Op, a[0], a[1])
	case OFPIsNaN:
		return s.FPIsNaN(a[0])
	case OFPIsInf:
		return s.FPIsInf(a[0])
	case OFPToFP:
		return s.FPConv(a[0], t.Sort)
	case OSBVToFP:
		return s.IntToFP(a[0], true, t.Sort)
	case OUBVToFP:
		return s.IntToFP(a[0], false, t.Sort)
	case OFPToSBV:
		return s.FPToInt(a[0], true, t.Sort.W)
	case OFPToUBV:
		return s.FPToInt(a[0], false, t.Sort.W)
	case OBitsToFP:
		return s.BitsToFP(a[0], t.Sort)
	case ORAdd, ORSub, ORMul, ORDiv:
		return s.rBin(t.Op, a[0], a[1])
	case ORNeg:
		return s.RNeg(a[0])
	case ORLt, ORLe:
		return s.rCmp(t.Op, a[0], a[1])
	case OIntDiv:
		return s.IntDiv(a[0], a[1])
	case OIntMod:
		return s.IntMod(a[0], a[1])
	case OApp:
		return s.App(t.Name, t.Sort, a...)
	}
	panic(fmt.Sprintf("rebuild: op %d", t.Op))
}

// Subst replaces symbols by the model's constants and folds. Symbols missing
// from the model become the zero of their sort when dflt is true.
func (s *Store) Subst(t *Term, m Model, dflt bool) *Term {
	memo := map[int64]*Term{}
	var rec func(*Term) *Term
	rec = func(x *Term) *Term {
		if r, ok := memo[x.ID]; ok {
			return r
		}
		var r *Term
		switch x.Op {
		case OConst:
			r = x
		case OSym:
			if c, ok := m[x.Name]; ok {
				r = c
			} else if dflt {
				r = s.Zero(x.Sort)
			} else {
				r = x
			}
		default:
			args := make([]*Term, len(x.Args))
			ch := false
			for i, a := range x.Args {
				args[i] = rec(a)
				if args[i] != a {
					ch = true
				}
			}
			if ch {
				r = s.Rebuild(x, args)
			} else {
				r = x
			}
		}
		memo[x.ID] = r
		return r
	}
	return rec(t)
}

// Symbols returns the symbols occurring in the given terms.
func (s *Store) Symbols(ts ...*Term) []*Term {
	seen := map[int64]bool{}
	var out []*Term
	var rec func(*Term)
	rec = func(x *Term) {
		if seen[x.ID] {
			return
		}
		seen[x.ID] = true
		if x.Op == OSym {
			out = append(out, x)
		}
		for _, a := range x.Args {
			rec(a)
		}
	}
	for _, t := range ts {
		rec(t)
	}
	return out
}

// ReplaceAtoms substitutes Boolean subterms that are known to be true/false.
func (s *Store) ReplaceAtoms(t *Term, known map[int64]bool) *Term {
	if len(known) == 0 {
		return t
	}
	memo := map[int64]*Term{}
	var rec func(*Term) *Term
	rec = func(x *Term) *Term {
		if r, ok := memo[x.ID]; ok {
			return r
		}
		var r *Term
		if v, ok := known[x.ID]; ok && x.Sort == Bool {
			r = s.BoolC(v)
		} else if len(x.Args) == 0 {
			r = x
		} else {
			args := make([]*Term, len(x.Args))
			ch := false
			for i, a := range x.Args {
				args[i] = rec(a)
				if args[i] != a {
					ch = true
				}
			}
			if ch {
				r = s.Rebuild(x, args)
			} else {
				r = x
			}
		}
		memo[x.ID] = r
		return r
	}
	return rec(t)
}

// Units collects top-level literals of a conjunction of assertions.
func (s *Store) Units(ts []*Term, known map[int64]bool) {
	var rec func(t *Term, pos bool)
	rec = func(t *Term, pos bool) {
		switch {
		case t.Op == ONot:
			rec(t.Args[0], !pos)
		case t.Op == OAnd && pos:
			for _, a := range t.Args {
				rec(a, true)
			}
		case t.Op == OOr && !pos:
			for _, a := range t.Args {
				rec(a, false)
			}
		case t.Op == OConst:
		default:
			known[t.ID] = pos
		}
	}
	for _, t := range ts {
		rec(t, true)
	}
}

// HasOp reports whether any subterm uses one of the operators.
func (s *Store) HasOp(t *Term, ops ...Op) bool {
	seen := map[int64]bool{}
	var rec func(*Term) bool
	rec = func(x *Term) bool {
		if seen[x.ID] {
			return false
		}
		seen[x.ID] = true
		for _, o := range ops {
			if x.Op == o {
				return true
			}
		}
		for _, a := range x.Args {
			if rec(a) {
				return true
			}
		}
		return false
	}
	return rec(t)
}
