package smt

import (
	"fmt"
	"math/big"
	"strings"
)

func symName(n string) string {
	return "|" + strings.ReplaceAll(n, "|", "!") + "|"
}

func bvLit(w int, u uint64) string {
	if w%4 == 0 {
		return fmt.Sprintf("#x%0*x", w/4, u)
	}
	return fmt.Sprintf("#b%0*b", w, u)
}

func ratLit(r *big.Rat, isInt bool) string {
	neg := r.Sign() < 0
	a := new(big.Rat).Abs(r)
	var s string
	if isInt {
		s = a.Num().String()
	} else if a.IsInt() {
		s = a.Num().String() + ".0"
	} else {
		s = "(/ " + a.Num().String() + ".0 " + a.Denom().String() + ".0)"
	}
	if neg {
		return "(- " + s + ")"
	}
	return s
}

// Printer renders terms as SMT-LIB2 with let-free DAG sharing through
// define-fun of intermediate nodes (keeps big shared terms linear in size).
type Printer struct {
	st      *Store
	defined map[int64]bool
	count   map[int64]int
}

func opName(t *Term) string {
	switch t.Op {
	case ONot:
		return "not"
	case OAnd:
		return "and"
	case OOr:
		return "or"
	case OIte:
		return "ite"
	case OEq:
		return "="
	case OBVAdd:
		return "bvadd"
	case OBVSub:
		return "bvsub"
	case OBVMul:
		return "bvmul"
	case OBVSDiv:
		return "bvsdiv"
	case OBVUDiv:
		return "bvudiv"
	case OBVSRem:
		return "bvsrem"
	case OBVURem:
		return "bvurem"
	case OBVAnd:
		return "bvand"
	case OBVOr:
		return "bvor"
	case OBVXor:
		return "bvxor"
	case OBVNot:
		return "bvnot"
	case OBVNeg:
		return "bvneg"
	case OBVShl:
		return "bvshl"
	case OBVLShr:
		return "bvlshr"
	case OBVAShr:
		return "bvashr"
	case OBVSLt:
		return "bvslt"
	case OBVSLe:
		return "bvsle"
	case OBVULt:
		return "bvult"
	case OBVULe:
		return "bvule"
	case OConcat:
		return "concat"
	case OFPAdd:
		return "fp.add RNE"
	case OFPSub:
		return "fp.sub RNE"
	case OFPMul:
		return "fp.mul RNE"
	case OFPDiv:
		return "fp.div RNE"
	case OFPNeg:
		return "fp.neg"
	case OFPAbs:
		return "fp.abs"
	case OFPLt:
		return "fp.lt"
	case OFPLe:
		return "fp.leq"
	case OFPEq:
		return "fp.eq"
	case OFPIsNaN:
		return "fp.isNaN"
	case OFPIsInf:
		return "fp.isInfinite"
	case ORAdd:
		return "+"
	case ORSub:
		return "-"
	case ORMul:
		return "*"
	case ORDiv:
		return "/"
	case ORNeg:
		return "-"
	case ORLt:
		return "<"
	case ORLe:
		return "<="
	case OIntDiv:
		return "div"
	case OIntMod:
		return "mod"
	case OToReal:
		return "to_real"
	}
	return ""
}

func fpSortArgs(so Sort) string {
	if so.K == KFP32 {
		return "8 24"
	}
	return "11 53"
}

// node renders one node given a function to render children.
func node(t *Term, ch func(*Term) string) string {
	switch t.Op {
	case OConst:
		switch t.Sort.K {
		case KBool:
			if t.U != 0 {
				return "true"
			}
			return "false"
		case KBV:
			return bvLit(t.Sort.W, t.U)
		case KFP32:
			b := uint32(t.U)
			return fmt.Sprintf("(fp #b%01b #b%08b #b%023b)", b>>31, (b>>23)&0xff, b&0x7fffff)
		case KFP64:
			b := t.U
			return fmt.Sprintf("(fp #b%01b #b%011b #b%052b)", b>>63, (b>>52)&0x7ff, b&((1<<52)-1))
		case KReal:
			return ratLit(t.R, false)
		case KInt:
			return ratLit(t.R, true)
		}
	case OSym:
		return symName(t.Name)
	case OExtract:
		return fmt.Sprintf("((_ extract %d %d) %s)", t.A, t.B, ch(t.Args[0]))
	case OZeroExt:
		return fmt.Sprintf("((_ zero_extend %d) %s)", t.A, ch(t.Args[0]))
	case OSignExt:
		return fmt.Sprintf("((_ sign_extend %d) %s)", t.A, ch(t.Args[0]))
	case OFPToFP:
		return fmt.Sprintf("((_ to_fp %s) RNE %s)", fpSortArgs(t.Sort), ch(t.Args[0]))
	case OSBVToFP:
		return fmt.Sprintf("((_ to_fp %s) RNE %s)", fpSortArgs(t.Sort), ch(t.Args[0]))
	case OUBVToFP:
		return fmt.Sprintf("((_ to_fp_unsigned %s) RNE %s)", fpSortArgs(t.Sort), ch(t.Args[0]))
	case OFPToSBV:
		return fmt.Sprintf("((_ fp.to_sbv %d) RTZ %s)", t.Sort.W, ch(t.Args[0]))
	case OFPToUBV:
		return fmt.Sprintf("((_ fp.to_ubv %d) RTZ %s)", t.Sort.W, ch(t.Args[0]))
	case OBitsToFP:
		return fmt.Sprintf("((_ to_fp %s) %s)", fpSortArgs(t.Sort), ch(t.Args[0]))
	case OApp:
		if len(t.Args) == 0 {
			return symName(t.Name)
		}
		var sb strings.Builder
		sb.WriteString("(" + symName(t.Name))
		for _, a := range t.Args {
			sb.WriteString(" " + ch(a))
		}
		sb.WriteString(")")
		return sb.String()
	}
	n := opName(t)
	if n == "" {
		panic(fmt.Sprintf("print: unknown op %d", t.Op))
	}
	var sb strings.Builder
	sb.WriteString("(" + n)
	for _, a := range t.Args {
		sb.WriteString(" " + ch(a))
	}
	sb.WriteString(")")
	return sb.String()
}

// Show renders a term as a plain nested expression (for messages; may be large).
func (s *Store) Show(t *Term) string {
	var rec func(*Term, int) string
	rec = func(x *Term, d int) string {
		if d > 6 {
			return "…"
		}
		return node(x, func(c *Term) string { return rec(c, d+1) })
	}
	return rec(t, 0)
}

// Emitter keeps track of what a solver session has already been told
// (symbol declarations, UF declarations, shared-node definitions).
type Emitter struct {
	st       *Store
	declared map[int64]bool
	ufs      map[string]bool
	defs     map[int64]string
}

func NewEmitter(st *Store) *Emitter {
	return &Emitter{st: st, declared: map[int64]bool{}, ufs: map[string]bool{}, defs: map[int64]string{}}
}

// Emit returns (preamble, expr): preamble holds the declarations/definitions the
// session has not seen yet, expr is the expression naming t.
func (e *Emitter) Emit(t *Term) (string, string) {
	var pre strings.Builder
	// count parents to decide which nodes deserve a definition
	parents := map[int64]int{}
	var order []*Term
	seen := map[int64]bool{}
	var walk func(*Term)
	walk = func(x *Term) {
		parents[x.ID]++
		if seen[x.ID] {
			return
		}
		seen[x.ID] = true
		if _, ok := e.defs[x.ID]; ok {
			return
		}
		for _, a := range x.Args {
			walk(a)
		}
		order = append(order, x)
	}
	walk(t)
	var render func(*Term) string
	render = func(x *Term) string {
		if n, ok := e.defs[x.ID]; ok {
			return n
		}
		return node(x, render)
	}
	for _, x := range order {
		switch x.Op {
		case OSym:
			if !e.declared[x.ID] {
				e.declared[x.ID] = true
				fmt.Fprintf(&pre, "(declare-const %s %s)\n", symName(x.Name), x.Sort)
			}
		case OApp:
			if !e.ufs[x.Name] {
				e.ufs[x.Name] = true
				fmt.Fprintf(&pre, "(declare-fun %s %s)\n", symName(x.Name), e.st.UFs[x.Name])
			}
		}
		if x.Op != OSym && x.Op != OConst && len(x.Args) > 0 && parents[x.ID] > 1 && x != t {
			name := fmt.Sprintf("!n%d", x.ID)
			fmt.Fprintf(&pre, "(define-fun %s () %s %s)\n", name, x.Sort, node(x, render))
			e.defs[x.ID] = name
		}
	}
	return pre.String(), render(t)
}
