// Package smt: hash-consed terms with constant folding, SMT-LIB2 printing,
// a persistent solver pipe and a model evaluator.
package smt

import (
	"fmt"
	"math"
	"math/big"
	"strings"
)

type Kind uint8

const (
	KBool Kind = iota
	KBV
	KFP32
	KFP64
	KReal
	KInt
)

type Sort struct {
	K Kind
	W int // bit width for KBV
}

var (
	Bool = Sort{K: KBool}
	FP32 = Sort{K: KFP32}
	FP64 = Sort{K: KFP64}
	Real = Sort{K: KReal}
	Int  = Sort{K: KInt}
)

func BV(w int) Sort { return Sort{K: KBV, W: w} }

func (s Sort) String() string {
	switch s.K {
	case KBool:
		return "Bool"
	case KBV:
		return fmt.Sprintf("(_ BitVec %d)", s.W)
	case KFP32:
		return "(_ FloatingPoint 8 24)"
	case KFP64:
		return "(_ FloatingPoint 11 53)"
	case KReal:
		return "Real"
	case KInt:
		return "Int"
	}
	return "?"
}

func (s Sort) IsFP() bool { return s.K == KFP32 || s.K == KFP64 }

type Op uint16

const (
	OConst Op = iota
	OSym
	ONot
	OAnd
	OOr
	OIte
	OEq
	// bit-vectors
	OBVAdd
	OBVSub
	OBVMul
	OBVSDiv
	OBVUDiv
	OBVSRem
	OBVURem
	OBVAnd
	OBVOr
	OBVXor
	OBVNot
	OBVNeg
	OBVShl
	OBVLShr
	OBVAShr
	OBVSLt
	OBVSLe
	OBVULt
	OBVULe
	OExtract // A=hi B=lo
	OZeroExt // A=extra bits
	OSignExt // A=extra bits
	OConcat
	// floating point
	OFPAdd
	OFPSub
	OFPMul
	OFPDiv
	OFPNeg
	OFPAbs
	OFPLt
	OFPLe
	OFPEq
	OFPIsNaN
	OFPIsInf
	OFPToFP   // FP -> FP (sort = target), RNE
	OSBVToFP  // signed BV -> FP, RNE
	OUBVToFP  // unsigned BV -> FP, RNE
	OFPToSBV  // FP -> signed BV of width Sort.W, RTZ
	OFPToUBV  // FP -> unsigned BV, RTZ
	OBitsToFP // reinterpret BV as FP
	// reals / ints
	ORAdd
	ORSub
	ORMul
	ORDiv
	ORNeg
	ORLt
	ORLe
	OIntDiv
	OIntMod
	OToReal
	// uninterpreted function application; Name = function name
	OApp
)

type Term struct {
	ID   int64
	Op   Op
	Sort Sort
	Args []*Term
	U    uint64   // BV const (masked to width), FP const bits, Bool const (0/1)
	R    *big.Rat // Real / Int const
	Name string   // symbol or UF name
	A, B int
}

// Store is a term table (hash-consing). Not safe for concurrent use.
type Store struct {
	byKey map[string]*Term
	Terms []*Term // index = ID
	Syms  []*Term // declared symbols in creation order
	UFs   map[string]string
	UFOrd []string
	symBy map[string]*Term
	fd    map[int64][]FDCase // case tables of finite-domain float terms (fd.go)
}

func NewStore() *Store {
	s := &Store{byKey: map[string]*Term{}, UFs: map[string]string{}, symBy: map[string]*Term{}}
	s.Terms = append(s.Terms, nil) // id 0 reserved
	return s
}

func (s *Store) ByID(id int64) *Term {
	if id <= 0 || int(id) >= len(s.Terms) {
		return nil
	}
	return s.Terms[id]
}

func (s *Store) mk(t *Term) *Term {
	var sb strings.Builder
	fmt.Fprintf(&sb, "%d|%d.%d|%d|%d.%d|%s|", t.Op, t.Sort.K, t.Sort.W, t.U, t.A, t.B, t.Name)
	if t.R != nil {
		sb.WriteString(t.R.String())
	}
	for _, a := range t.Args {
		fmt.Fprintf(&sb, ",%d", a.ID)
	}
	k := sb.String()
	if e, ok := s.byKey[k]; ok {
		return e
	}
	t.ID = int64(len(s.Terms))
	s.Terms = append(s.Terms, t)
	s.byKey[k] = t
	return t
}

func (t *Term) IsConst() bool { return t.Op == OConst }

func mask(w int) uint64 {
	if w >= 64 {
		return ^uint64(0)
	}
	return (uint64(1) << uint(w)) - 1
}

func sext(u uint64, w int) int64 {
	if w >= 64 {
		return int64(u)
	}
	sh := uint(64 - w)
	return int64(u<<sh) >> sh
}

// ---- constants and symbols

func (s *Store) BoolC(b bool) *Term {
	u := uint64(0)
	if b {
		u = 1
	}
	return s.mk(&Term{Op: OConst, Sort: Bool, U: u})
}
func (s *Store) True() *Term  { return s.BoolC(true) }
func (s *Store) False() *Term { return s.BoolC(false) }

func (s *Store) BVC(w int, u uint64) *Term {
	return s.mk(&Term{Op: OConst, Sort: BV(w), U: u & mask(w)})
}
func (s *Store) F32C(f float32) *Term {
	return s.mk(&Term{Op: OConst, Sort: FP32, U: uint64(math.Float32bits(f))})
}
func (s *Store) F32Bits(b uint32) *Term { return s.mk(&Term{Op: OConst, Sort: FP32, U: uint64(b)}) }
func (s *Store) F64C(f float64) *Term {
	return s.mk(&Term{Op: OConst, Sort: FP64, U: math.Float64bits(f)})
}
func (s *Store) F64Bits(b uint64) *Term { return s.mk(&Term{Op: OConst, Sort: FP64, U: b}) }
func (s *Store) RealC(r *big.Rat) *Term {
	return s.mk(&Term{Op: OConst, Sort: Real, R: new(big.Rat).Set(r)})
}
func (s *Store) RealI(i int64) *Term { return s.RealC(new(big.Rat).SetInt64(i)) }
func (s *Store) RealF(f float64) *Term {
	r := new(big.Rat)
	if r.SetFloat64(f) == nil {
		panic("RealF: non-finite float in ring mode")
	}
	return s.RealC(r)
}
func (s *Store) IntC(i int64) *Term {
	return s.mk(&Term{Op: OConst, Sort: Int, R: new(big.Rat).SetInt64(i)})
}

func (s *Store) Sym(name string, so Sort) *Term {
	if e, ok := s.symBy[name]; ok {
		if e.Sort != so {
			panic("symbol " + name + " redeclared with another sort")
		}
		return e
	}
	t := s.mk(&Term{Op: OSym, Sort: so, Name: name})
	s.symBy[name] = t
	s.Syms = append(s.Syms, t)
	return t
}

func (s *Store) LookupSym(name string) *Term { return s.symBy[name] }

func (t *Term) BoolVal() bool { return t.U != 0 }
func (t *Term) F32Val() float32 {
	return math.Float32frombits(uint32(t.U))
}
func (t *Term) F64Val() float64 { return math.Float64frombits(t.U) }
func (t *Term) SVal() int64     { return sext(t.U, t.Sort.W) }

// Zero returns the zero constant of a sort.
func (s *Store) Zero(so Sort) *Term {
	switch so.K {
	case KBool:
		return s.False()
	case KBV:
		return s.BVC(so.W, 0)
	case KFP32:
		return s.F32C(0)
	case KFP64:
		return s.F64C(0)
	case KReal:
		return s.RealI(0)
	case KInt:
		return s.IntC(0)
	}
	panic("zero")
}

// ---- boolean

func (s *Store) Not(a *Term) *Term {
	if a.IsConst() {
		return s.BoolC(!a.BoolVal())
	}
	if a.Op == ONot {
		return a.Args[0]
	}
	return s.mk(&Term{Op: ONot, Sort: Bool, Args: []*Term{a}})
}

func (s *Store) And(xs ...*Term) *Term {
	var out []*Term
	seen := map[int64]bool{}
	for _, x := range xs {
		if x.IsConst() {
			if !x.BoolVal() {
				return s.False()
			}
			continue
		}
		if x.Op == OAnd {
			for _, y := range x.Args {
				if !seen[y.ID] {
					seen[y.ID] = true
					out = append(out, y)
				}
			}
			continue
		}
		if !seen[x.ID] {
			seen[x.ID] = true
			out = append(out, x)
		}
	}
	if len(out) == 0 {
		return s.True()
	}
	if len(out) == 1 {
		return out[0]
	}
	return s.mk(&Term{Op: OAnd, Sort: Bool, Args: out})
}

func (s *Store) Or(xs ...*Term) *Term {
	var out []*Term
	seen := map[int64]bool{}
	for _, x := range xs {
		if x.IsConst() {
			if x.BoolVal() {
				return s.True()
			}
			continue
		}
		if x.Op == OOr {
			for _, y := range x.Args {
				if !seen[y.ID] {
					seen[y.ID] = true
					out = append(out, y)
				}
			}
			continue
		}
		if !seen[x.ID] {
			seen[x.ID] = true
			out = append(out, x)
		}
	}
	if len(out) == 0 {
		return s.False()
	}
	if len(out) == 1 {
		return out[0]
	}
	return s.mk(&Term{Op: OOr, Sort: Bool, Args: out})
}

func (s *Store) Implies(a, b *Term) *Term { return s.Or(s.Not(a), b) }

func (s *Store) Ite(c, a, b *Term) *Term {
	if c.IsConst() {
		if c.BoolVal() {
			return a
		}
		return b
	}
	if a == b {
		return a
	}
	if a.Sort != b.Sort {
		panic(fmt.Sprintf("ite sort mismatch %v %v", a.Sort, b.Sort))
	}
	if a.Sort == Bool {
		if a.IsConst() && b.IsConst() {
			if a.BoolVal() {
				return c
			}
			return s.Not(c)
		}
		if a.IsConst() {
			if a.BoolVal() {
				return s.Or(c, b)
			}
			return s.And(s.Not(c), b)
		}
		if b.IsConst() {
			if b.BoolVal() {
				return s.Or(s.Not(c), a)
			}
			return s.And(c, a)
		}
	}
	r := s.mk(&Term{Op: OIte, Sort: a.Sort, Args: []*Term{c, a, b}})
	s.fdNoteIte(r, c, a, b)
	return r
}

// Eq is SMT "=" (identity: for FP, NaN = NaN and +0 != -0).
func (s *Store) Eq(a, b *Term) *Term {
	if a.Sort != b.Sort {
		panic(fmt.Sprintf("eq sort mismatch %v %v (%s vs %s)", a.Sort, b.Sort, s.Show(a), s.Show(b)))
	}
	if a == b {
		return s.True()
	}
	if a.IsConst() && b.IsConst() {
		if a.Sort.K == KReal || a.Sort.K == KInt {
			return s.BoolC(a.R.Cmp(b.R) == 0)
		}
		if a.Sort.IsFP() {
			// identity on FP values: all NaNs are one value in SMT-LIB
			if fpIsNaN(a) && fpIsNaN(b) {
				return s.True()
			}
		}
		return s.BoolC(a.U == b.U)
	}
	if r := s.fdPred2(a, b, s.Eq); r != nil {
		return r
	}
	if a.Sort == Bool {
		if a.IsConst() {
			if a.BoolVal() {
				return b
			}
			return s.Not(b)
		}
		if b.IsConst() {
			if b.BoolVal() {
				return a
			}
			return s.Not(a)
		}
	}
	// ite(c,t,e) = e  <=>  not c or t = e ;  ite(c,t,e) = t  <=>  c or e = t
	for k := 0; k < 2; k++ {
		if a.Op == OIte {
			if a.Args[2] == b {
				return s.Or(s.Not(a.Args[0]), s.Eq(a.Args[1], b))
			}
			if a.Args[1] == b {
				return s.Or(a.Args[0], s.Eq(a.Args[2], b))
			}
		}
		a, b = b, a
	}
	if a.ID > b.ID {
		a, b = b, a
	}
	return s.mk(&Term{Op: OEq, Sort: Bool, Args: []*Term{a, b}})
}

func fpIsNaN(t *Term) bool {
	if t.Sort.K == KFP32 {
		f := t.F32Val()
		return f != f
	}
	f := t.F64Val()
	return f != f
}

// ---- bit-vectors

func (s *Store) bvBin(op Op, a, b *Term) *Term {
	if a.Sort != b.Sort || a.Sort.K != KBV {
		panic(fmt.Sprintf("bv op %d sort mismatch %v %v", op, a.Sort, b.Sort))
	}
	w := a.Sort.W
	if a.IsConst() && b.IsConst() {
		x, y := a.U, b.U
		sx, sy := sext(x, w), sext(y, w)
		switch op {
		case OBVAdd:
			return s.BVC(w, x+y)
		case OBVSub:
			return s.BVC(w, x-y)
		case OBVMul:
			return s.BVC(w, x*y)
		case OBVSDiv:
			if y != 0 {
				if sy == -1 {
					return s.BVC(w, uint64(-sx))
				}
				return s.BVC(w, uint64(sx/sy))
			}
		case OBVUDiv:
			if y != 0 {
				return s.BVC(w, x/y)
			}
		case OBVSRem:
			if y != 0 {
				if sy == -1 {
					return s.BVC(w, 0)
				}
				return s.BVC(w, uint64(sx%sy))
			}
		case OBVURem:
			if y != 0 {
				return s.BVC(w, x%y)
			}
		case OBVAnd:
			return s.BVC(w, x&y)
		case OBVOr:
			return s.BVC(w, x|y)
		case OBVXor:
			return s.BVC(w, x^y)
		case OBVShl:
			if y >= uint64(w) {
				return s.BVC(w, 0)
			}
			return s.BVC(w, x<<y)
		case OBVLShr:
			if y >= uint64(w) {
				return s.BVC(w, 0)
			}
			return s.BVC(w, x>>y)
		case OBVAShr:
			if y >= uint64(w) {
				y = uint64(w - 1)
			}
			return s.BVC(w, uint64(sx>>y))
		}
	}
	// light simplifications
	switch op {
	case OBVAdd:
		if a.IsConst() && a.U == 0 {
			return b
		}
		if b.IsConst() && b.U == 0 {
			return a
		}
	case OBVSub:
		if b.IsConst() && b.U == 0 {
			return a
		}
	case OBVMul:
		if a.IsConst() && a.U == 1 {
			return b
		}
		if b.IsConst() && b.U == 1 {
			return a
		}
	}
	if (op == OBVAdd || op == OBVMul || op == OBVAnd || op == OBVOr || op == OBVXor) && a.ID > b.ID {
		a, b = b, a
	}
	return s.mk(&Term{Op: op, Sort: a.Sort, Args: []*Term{a, b}})
}

func (s *Store) BVAdd(a, b *Term) *Term  { return s.bvBin(OBVAdd, a, b) }
func (s *Store) BVSub(a, b *Term) *Term  { return s.bvBin(OBVSub, a, b) }
func (s *Store) BVMul(a, b *Term) *Term  { return s.bvBin(OBVMul, a, b) }
func (s *Store) BVSDiv(a, b *Term) *Term { return s.bvBin(OBVSDiv, a, b) }
func (s *Store) BVUDiv(a, b *Term) *Term { return s.bvBin(OBVUDiv, a, b) }
func (s *Store) BVSRem(a, b *Term) *Term { return s.bvBin(OBVSRem, a, b) }
func (s *Store) BVURem(a, b *Term) *Term { return s.bvBin(OBVURem, a, b) }
func (s *Store) BVAnd(a, b *Term) *Term  { return s.bvBin(OBVAnd, a, b) }
func (s *Store) BVOr(a, b *Term) *Term   { return s.bvBin(OBVOr, a, b) }
func (s *Store) BVXor(a, b *Term) *Term  { return s.bvBin(OBVXor, a, b) }
func (s *Store) BVShl(a, b *Term) *Term  { return s.bvBin(OBVShl, a, b) }
func (s *Store) BVLShr(a, b *Term) *Term { return s.bvBin(OBVLShr, a, b) }
func (s *Store) BVAShr(a, b *Term) *Term { return s.bvBin(OBVAShr, a, b) }

func (s *Store) BVNot(a *Term) *Term {
	if a.IsConst() {
		return s.BVC(a.Sort.W, ^a.U)
	}
	return s.mk(&Term{Op: OBVNot, Sort: a.Sort, Args: []*Term{a}})
}
func (s *Store) BVNeg(a *Term) *Term {
	if a.IsConst() {
		return s.BVC(a.Sort.W, -a.U)
	}
	return s.mk(&Term{Op: OBVNeg, Sort: a.Sort, Args: []*Term{a}})
}

func (s *Store) bvCmp(op Op, a, b *Term) *Term {
	if a.Sort != b.Sort || a.Sort.K != KBV {
		panic(fmt.Sprintf("bv cmp sort mismatch %v %v", a.Sort, b.Sort))
	}
	w := a.Sort.W
	if a.IsConst() && b.IsConst() {
		switch op {
		case OBVSLt:
			return s.BoolC(sext(a.U, w) < sext(b.U, w))
		case OBVSLe:
			return s.BoolC(sext(a.U, w) <= sext(b.U, w))
		case OBVULt:
			return s.BoolC(a.U < b.U)
		case OBVULe:
			return s.BoolC(a.U <= b.U)
		}
	}
	if a == b {
		return s.BoolC(op == OBVSLe || op == OBVULe)
	}
	return s.mk(&Term{Op: op, Sort: Bool, Args: []*Term{a, b}})
}
func (s *Store) BVSLt(a, b *Term) *Term { return s.bvCmp(OBVSLt, a, b) }
func (s *Store) BVSLe(a, b *Term) *Term { return s.bvCmp(OBVSLe, a, b) }
func (s *Store) BVULt(a, b *Term) *Term { return s.bvCmp(OBVULt, a, b) }
func (s *Store) BVULe(a, b *Term) *Term { return s.bvCmp(OBVULe, a, b) }

func (s *Store) Extract(a *Term, hi, lo int) *Term {
	w := hi - lo + 1
	if lo == 0 && w == a.Sort.W {
		return a
	}
	if a.IsConst() {
		return s.BVC(w, a.U>>uint(lo))
	}
	// extract of zero/sign extension down to the original width or less
	if (a.Op == OZeroExt || a.Op == OSignExt) && lo == 0 && w <= a.Args[0].Sort.W {
		return s.Extract(a.Args[0], hi, 0)
	}
	return s.mk(&Term{Op: OExtract, Sort: BV(w), Args: []*Term{a}, A: hi, B: lo})
}
func (s *Store) ZeroExt(a *Term, extra int) *Term {
	if extra == 0 {
		return a
	}
	if a.IsConst() {
		return s.BVC(a.Sort.W+extra, a.U)
	}
	return s.mk(&Term{Op: OZeroExt, Sort: BV(a.Sort.W + extra), Args: []*Term{a}, A: extra})
}
func (s *Store) SignExt(a *Term, extra int) *Term {
	if extra == 0 {
		return a
	}
	if a.IsConst() {
		return s.BVC(a.Sort.W+extra, uint64(sext(a.U, a.Sort.W)))
	}
	return s.mk(&Term{Op: OSignExt, Sort: BV(a.Sort.W + extra), Args: []*Term{a}, A: extra})
}
func (s *Store) Concat(hi, lo *Term) *Term {
	w := hi.Sort.W + lo.Sort.W
	if hi.IsConst() && lo.IsConst() && w <= 64 {
		return s.BVC(w, hi.U<<uint(lo.Sort.W)|lo.U)
	}
	return s.mk(&Term{Op: OConcat, Sort: BV(w), Args: []*Term{hi, lo}})
}

// Resize converts a BV to width w with sign or zero extension / truncation.
func (s *Store) Resize(a *Term, w int, signed bool) *Term {
	switch {
	case a.Sort.W == w:
		return a
	case a.Sort.W > w:
		return s.Extract(a, w-1, 0)
	case signed:
		return s.SignExt(a, w-a.Sort.W)
	default:
		return s.ZeroExt(a, w-a.Sort.W)
	}
}

// ---- floating point

func (s *Store) fpBin(op Op, a, b *Term) *Term {
	if a.Sort != b.Sort || !a.Sort.IsFP() {
		panic(fmt.Sprintf("fp op sort mismatch %v %v", a.Sort, b.Sort))
	}
	if a.IsConst() && b.IsConst() {
		if a.Sort.K == KFP32 {
			x, y := a.F32Val(), b.F32Val()
			switch op {
			case OFPAdd:
				return s.F32C(x + y)
			case OFPSub:
				return s.F32C(x - y)
			case OFPMul:
				return s.F32C(x * y)
			case OFPDiv:
				return s.F32C(x / y)
			}
		} else {
			x, y := a.F64Val(), b.F64Val()
			switch op {
			case OFPAdd:
				return s.F64C(x + y)
			case OFPSub:
				return s.F64C(x - y)
			case OFPMul:
				return s.F64C(x * y)
			case OFPDiv:
				return s.F64C(x / y)
			}
		}
	}
	if r := s.fdMap2(a, b, func(x, y *Term) *Term { return s.fpBin(op, x, y) }); r != nil {
		return r
	}
	// IEEE addition and multiplication are commutative (SMT-LIB has a single NaN): one operand order
	if (op == OFPAdd || op == OFPMul) && a.ID > b.ID {
		a, b = b, a
	}
	return s.mk(&Term{Op: op, Sort: a.Sort, Args: []*Term{a, b}})
}
func (s *Store) FPAdd(a, b *Term) *Term { return s.fpBin(OFPAdd, a, b) }
func (s *Store) FPSub(a, b *Term) *Term { return s.fpBin(OFPSub, a, b) }
func (s *Store) FPMul(a, b *Term) *Term { return s.fpBin(OFPMul, a, b) }
func (s *Store) FPDiv(a, b *Term) *Term { return s.fpBin(OFPDiv, a, b) }

func (s *Store) FPNeg(a *Term) *Term {
	if a.IsConst() {
		if a.Sort.K == KFP32 {
			return s.F32Bits(uint32(a.U) ^ 0x80000000)
		}
		return s.F64Bits(a.U ^ (1 << 63))
	}
	if r := s.FDMap(a, s.FPNeg); r != nil {
		return r
	}
	return s.mk(&Term{Op: OFPNeg, Sort: a.Sort, Args: []*Term{a}})
}
func (s *Store) FPAbs(a *Term) *Term {
	if a.IsConst() {
		if a.Sort.K == KFP32 {
			return s.F32Bits(uint32(a.U) &^ 0x80000000)
		}
		return s.F64Bits(a.U &^ (1 << 63))
	}
	if r := s.FDMap(a, s.FPAbs); r != nil {
		return r
	}
	return s.mk(&Term{Op: OFPAbs, Sort: a.Sort, Args: []*Term{a}})
}

func fval(t *Term) float64 {
	if t.Sort.K == KFP32 {
		return float64(t.F32Val())
	}
	return t.F64Val()
}

func (s *Store) fpCmp(op Op, a, b *Term) *Term {
	if a.Sort != b.Sort || !a.Sort.IsFP() {
		panic(fmt.Sprintf("fp cmp sort mismatch %v %v", a.Sort, b.Sort))
	}
	if a.IsConst() && b.IsConst() {
		x, y := fval(a), fval(b)
		switch op {
		case OFPLt:
			return s.BoolC(x < y)
		case OFPLe:
			return s.BoolC(x <= y)
		case OFPEq:
			return s.BoolC(x == y)
		}
	}
	if r := s.fdPred2(a, b, func(x, y *Term) *Term { return s.fpCmp(op, x, y) }); r != nil {
		return r
	}
	return s.mk(&Term{Op: op, Sort: Bool, Args: []*Term{a, b}})
}
func (s *Store) FPLt(a, b *Term) *Term { return s.fpCmp(OFPLt, a, b) }
func (s *Store) FPLe(a, b *Term) *Term { return s.fpCmp(OFPLe, a, b) }
func (s *Store) FPEq(a, b *Term) *Term { return s.fpCmp(OFPEq, a, b) }

func (s *Store) FPIsNaN(a *Term) *Term {
	if a.IsConst() {
		return s.BoolC(fpIsNaN(a))
	}
	if r := s.fdPred1(a, s.FPIsNaN); r != nil {
		return r
	}
	return s.mk(&Term{Op: OFPIsNaN, Sort: Bool, Args: []*Term{a}})
}
func (s *Store) FPIsInf(a *Term) *Term {
	if a.IsConst() {
		return s.BoolC(math.IsInf(fval(a), 0))
	}
	if r := s.fdPred1(a, s.FPIsInf); r != nil {
		return r
	}
	return s.mk(&Term{Op: OFPIsInf, Sort: Bool, Args: []*Term{a}})
}

// FPConv converts between FP sorts (RNE).
func (s *Store) FPConv(a *Term, to Sort) *Term {
	if a.Sort == to {
		return a
	}
	if a.IsConst() {
		if to.K == KFP32 {
			return s.F32C(float32(a.F64Val()))
		}
		return s.F64C(float64(a.F32Val()))
	}
	if r := s.FDMap(a, func(x *Term) *Term { return s.FPConv(x, to) }); r != nil {
		return r
	}
	return s.mk(&Term{Op: OFPToFP, Sort: to, Args: []*Term{a}})
}

// IntToFP converts a BV (signed or unsigned) to FP, RNE.
func (s *Store) IntToFP(a *Term, signed bool, to Sort) *Term {
	if a.IsConst() {
		if signed {
			v := a.SVal()
			if to.K == KFP32 {
				return s.F32C(float32(v))
			}
			return s.F64C(float64(v))
		}
		if to.K == KFP32 {
			return s.F32C(float32(a.U))
		}
		return s.F64C(float64(a.U))
	}
	op := OUBVToFP
	if signed {
		op = OSBVToFP
	}
	return s.mk(&Term{Op: op, Sort: to, Args: []*Term{a}})
}

// FPToInt converts FP to BV of width w (RTZ). Out-of-range is unspecified in
// SMT-LIB and implementation-defined in Go; constants fold the way amd64 does.
func (s *Store) FPToInt(a *Term, signed bool, w int) *Term {
	if a.IsConst() {
		f := fval(a)
		if signed {
			var v int64
			switch w {
			case 8:
				v = int64(int8(f))
			case 16:
				v = int64(int16(f))
			case 32:
				v = int64(int32(f))
			default:
				v = int64(f)
			}
			return s.BVC(w, uint64(v))
		}
		var v uint64
		switch w {
		case 8:
			v = uint64(uint8(f))
		case 16:
			v = uint64(uint16(f))
		case 32:
			v = uint64(uint32(f))
		default:
			v = uint64(f)
		}
		return s.BVC(w, v)
	}
	op := OFPToUBV
	if signed {
		op = OFPToSBV
	}
	return s.mk(&Term{Op: op, Sort: BV(w), Args: []*Term{a}})
}

func (s *Store) BitsToFP(a *Term, to Sort) *Term {
	if a.IsConst() {
		if to.K == KFP32 {
			return s.F32Bits(uint32(a.U))
		}
		return s.F64Bits(a.U)
	}
	return s.mk(&Term{Op: OBitsToFP, Sort: to, Args: []*Term{a}})
}

// ---- reals / ints

func (s *Store) rBin(op Op, a, b *Term) *Term {
	if a.Sort != b.Sort || (a.Sort.K != KReal && a.Sort.K != KInt) {
		panic(fmt.Sprintf("real op sort mismatch %v %v", a.Sort, b.Sort))
	}
	mkc := func(r *big.Rat) *Term {
		return s.mk(&Term{Op: OConst, Sort: a.Sort, R: r})
	}
	if a.IsConst() && b.IsConst() {
		r := new(big.Rat)
		switch op {
		case ORAdd:
			return mkc(r.Add(a.R, b.R))
		case ORSub:
			return mkc(r.Sub(a.R, b.R))
		case ORMul:
			return mkc(r.Mul(a.R, b.R))
		case ORDiv:
			if b.R.Sign() != 0 && a.Sort.K == KReal {
				return mkc(r.Quo(a.R, b.R))
			}
		}
	}
	switch op {
	case ORAdd:
		if a.IsConst() && a.R.Sign() == 0 {
			return b
		}
		if b.IsConst() && b.R.Sign() == 0 {
			return a
		}
	case ORSub:
		if b.IsConst() && b.R.Sign() == 0 {
			return a
		}
	case ORMul:
		one := big.NewRat(1, 1)
		if a.IsConst() {
			if a.R.Sign() == 0 {
				return a
			}
			if a.R.Cmp(one) == 0 {
				return b
			}
		}
		if b.IsConst() {
			if b.R.Sign() == 0 {
				return b
			}
			if b.R.Cmp(one) == 0 {
				return a
			}
		}
	case ORDiv:
		if b.IsConst() && b.R.Cmp(big.NewRat(1, 1)) == 0 {
			return a
		}
	}
	if (op == ORAdd || op == ORMul) && a.ID > b.ID {
		a, b = b, a
	}
	return s.mk(&Term{Op: op, Sort: a.Sort, Args: []*Term{a, b}})
}
func (s *Store) RAdd(a, b *Term) *Term { return s.rBin(ORAdd, a, b) }
func (s *Store) RSub(a, b *Term) *Term { return s.rBin(ORSub, a, b) }
func (s *Store) RMul(a, b *Term) *Term { return s.rBin(ORMul, a, b) }
func (s *Store) RDiv(a, b *Term) *Term { return s.rBin(ORDiv, a, b) }
func (s *Store) RNeg(a *Term) *Term {
	if a.IsConst() {
		return s.mk(&Term{Op: OConst, Sort: a.Sort, R: new(big.Rat).Neg(a.R)})
	}
	return s.mk(&Term{Op: ORNeg, Sort: a.Sort, Args: []*Term{a}})
}
func (s *Store) rCmp(op Op, a, b *Term) *Term {
	if a.Sort != b.Sort {
		panic("real cmp sort mismatch")
	}
	if a.IsConst() && b.IsConst() {
		c := a.R.Cmp(b.R)
		if op == ORLt {
			return s.BoolC(c < 0)
		}
		return s.BoolC(c <= 0)
	}
	return s.mk(&Term{Op: op, Sort: Bool, Args: []*Term{a, b}})
}
func (s *Store) RLt(a, b *Term) *Term { return s.rCmp(ORLt, a, b) }
func (s *Store) RLe(a, b *Term) *Term { return s.rCmp(ORLe, a, b) }

func floorDiv(a, b *big.Int) (*big.Int, *big.Int) {
	// SMT-LIB div/mod: a = b*q + r, 0 <= r < |b|
	q, r := new(big.Int).DivMod(a, b, new(big.Int))
	return q, r
}

func (s *Store) IntDiv(a, b *Term) *Term {
	if a.IsConst() && b.IsConst() && b.R.Sign() != 0 {
		q, _ := floorDiv(a.R.Num(), b.R.Num())
		return s.mk(&Term{Op: OConst, Sort: Int, R: new(big.Rat).SetInt(q)})
	}
	return s.mk(&Term{Op: OIntDiv, Sort: Int, Args: []*Term{a, b}})
}
func (s *Store) IntMod(a, b *Term) *Term {
	if a.IsConst() && b.IsConst() && b.R.Sign() != 0 {
		_, r := floorDiv(a.R.Num(), b.R.Num())
		return s.mk(&Term{Op: OConst, Sort: Int, R: new(big.Rat).SetInt(r)})
	}
	return s.mk(&Term{Op: OIntMod, Sort: Int, Args: []*Term{a, b}})
}

// App applies an uninterpreted function.
func (s *Store) App(name string, res Sort, args ...*Term) *Term {
	sig := "("
	for i, a := range args {
		if i > 0 {
			sig += " "
		}
		sig += a.Sort.String()
	}
	sig += ") " + res.String()
	if old, ok := s.UFs[name]; ok {
		if old != sig {
			panic("UF " + name + " used with two signatures: " + old + " / " + sig)
		}
	} else {
		s.UFs[name] = sig
		s.UFOrd = append(s.UFOrd, name)
	}
	return s.mk(&Term{Op: OApp, Sort: res, Args: args, Name: name})
}
