package smt

// Finite-domain lifting of floating-point terms.
//
// A float term that is an if-then-else tree over CONSTANTS (a value picked from a finite set by conditions over
// other symbols, e.g. zzverif.Choose) is kept together with its case table {condition -> constant}. Arithmetic,
// comparisons and conversions on such terms are computed case by case with ordinary constant folding, and the
// result is again a table (cases with the same constant are merged, their conditions or-ed). What reaches the
// solver is then a Boolean/bit-vector formula over the selecting symbols - no floating-point reasoning is left -
// which puts long IEEE computations over a small value grid within reach. The tables describe the SAME function of
// the symbols as the plain term would; conditions that cannot hold together simply stay in the table as
// unsatisfiable cases.

// FDCase is one row of a case table: under Cond the term has the constant value Val.
type FDCase struct{ Cond, Val *Term }

// FDLimit bounds the number of distinct constants of a table; beyond it a term is treated as an ordinary term.
const FDLimit = 64

// FDCases returns the case table of t (a single row for a constant), or nil when t is not finite-domain.
func (s *Store) FDCases(t *Term) []FDCase {
	if !t.Sort.IsFP() {
		return nil
	}
	if t.IsConst() {
		return []FDCase{{s.True(), t}}
	}
	return s.fd[t.ID]
}

// fdActive: lifting applies when every operand has a table and at least one is not a plain constant.
func (s *Store) fdActive(ts ...*Term) bool {
	some := false
	for _, t := range ts {
		if t.IsConst() {
			continue
		}
		if s.fd[t.ID] == nil {
			return false
		}
		some = true
	}
	return some
}

func (s *Store) fdMerge(rows []FDCase) []FDCase {
	var out []FDCase
	idx := map[int64]int{}
	for _, r := range rows {
		if r.Cond.IsConst() && !r.Cond.BoolVal() {
			continue
		}
		if !r.Val.IsConst() {
			return nil
		}
		if i, ok := idx[r.Val.ID]; ok {
			out[i].Cond = s.Or(out[i].Cond, r.Cond)
			continue
		}
		idx[r.Val.ID] = len(out)
		out = append(out, r)
	}
	if len(out) == 0 || len(out) > FDLimit {
		return nil
	}
	return out
}

// fdBuild turns a table into a term (an if-then-else chain) and remembers the table for it.
func (s *Store) fdBuild(rows []FDCase) *Term {
	t := rows[len(rows)-1].Val
	for i := len(rows) - 2; i >= 0; i-- {
		t = s.mk(&Term{Op: OIte, Sort: t.Sort, Args: []*Term{rows[i].Cond, rows[i].Val, t}})
	}
	if !t.IsConst() {
		if s.fd == nil {
			s.fd = map[int64][]FDCase{}
		}
		s.fd[t.ID] = rows
	}
	return t
}

// FDMap applies f (which must fold constants to constants) to every case of t. nil when t has no table or f
// leaves a non-constant.
func (s *Store) FDMap(t *Term, f func(*Term) *Term) *Term {
	if !s.fdActive(t) {
		return nil
	}
	var rows []FDCase
	for _, c := range s.fd[t.ID] {
		rows = append(rows, FDCase{c.Cond, f(c.Val)})
	}
	rows = s.fdMerge(rows)
	if rows == nil {
		return nil
	}
	return s.fdBuild(rows)
}

func (s *Store) fdMap2(a, b *Term, f func(x, y *Term) *Term) *Term {
	if !s.fdActive(a, b) {
		return nil
	}
	var rows []FDCase
	for _, ca := range s.FDCases(a) {
		for _, cb := range s.FDCases(b) {
			c := s.And(ca.Cond, cb.Cond)
			if c.IsConst() && !c.BoolVal() {
				continue
			}
			rows = append(rows, FDCase{c, f(ca.Val, cb.Val)})
		}
	}
	rows = s.fdMerge(rows)
	if rows == nil {
		return nil
	}
	return s.fdBuild(rows)
}

// fdPred1 / fdPred2: a predicate over finite-domain terms is the disjunction of the cases where it folds to true.
func (s *Store) fdPred1(a *Term, f func(x *Term) *Term) *Term {
	if !s.fdActive(a) {
		return nil
	}
	var ds []*Term
	for _, ca := range s.fd[a.ID] {
		r := f(ca.Val)
		if !r.IsConst() {
			return nil
		}
		if r.BoolVal() {
			ds = append(ds, ca.Cond)
		}
	}
	return s.Or(ds...)
}

func (s *Store) fdPred2(a, b *Term, f func(x, y *Term) *Term) *Term {
	if !s.fdActive(a, b) {
		return nil
	}
	var ds []*Term
	for _, ca := range s.FDCases(a) {
		for _, cb := range s.FDCases(b) {
			r := f(ca.Val, cb.Val)
			if !r.IsConst() {
				return nil
			}
			if r.BoolVal() {
				ds = append(ds, s.And(ca.Cond, cb.Cond))
			}
		}
	}
	return s.Or(ds...)
}

// fdNoteIte records the table of a freshly built ite(c, a, b) when both branches have one.
func (s *Store) fdNoteIte(r, c, a, b *Term) {
	if !r.Sort.IsFP() || r.Op != OIte {
		return
	}
	if _, done := s.fd[r.ID]; done {
		return
	}
	fa, fb := s.FDCases(a), s.FDCases(b)
	if fa == nil || fb == nil {
		return
	}
	nc := s.Not(c)
	var rows []FDCase
	for _, x := range fa {
		rows = append(rows, FDCase{s.And(c, x.Cond), x.Val})
	}
	for _, x := range fb {
		rows = append(rows, FDCase{s.And(nc, x.Cond), x.Val})
	}
	rows = s.fdMerge(rows)
	if rows == nil {
		return
	}
	if s.fd == nil {
		s.fd = map[int64][]FDCase{}
	}
	s.fd[r.ID] = rows
}
