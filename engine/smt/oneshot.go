package smt

import (
	"bytes"
	"context"
	"fmt"
	"os"
	"os/exec"
	"strings"
	"time"
)

// OneShot runs a complete script in a fresh, non-incremental solver process
// (z3's tactic-based solvers are only used without push/pop).
func OneShot(b Backend, st *Store, asserts []*Term, syms []*Term, timeoutMs int) (Result, Model, time.Duration, error) {
	em := NewEmitter(st)
	var sb strings.Builder
	sb.WriteString("(set-option :produce-models true)\n")
	for _, a := range asserts {
		pre, ex := em.Emit(a)
		sb.WriteString(pre)
		sb.WriteString("(assert " + ex + ")\n")
	}
	sb.WriteString("(check-sat)\n")
	if len(syms) > 0 {
		var names []string
		for _, s := range syms {
			pre, ex := em.Emit(s)
			sb.WriteString(pre)
			names = append(names, ex)
		}
		sb.WriteString("(get-value (" + strings.Join(names, " ") + "))\n")
	}
	if d := os.Getenv("ZZ_DUMP"); d != "" {
		dumpN++
		os.WriteFile(fmt.Sprintf("%s/q%d-%s.smt2", d, dumpN, b.Name), []byte(sb.String()), 0o644)
	}
	ctx, cancel := context.WithTimeout(context.Background(), time.Duration(timeoutMs)*time.Millisecond+2*time.Second)
	defer cancel()
	argv := append([]string{}, b.Argv...)
	switch b.Name {
	case "z3", "z3-new":
		argv = append(argv, fmt.Sprintf("-t:%d", timeoutMs))
	case "cvc5":
		// drop --incremental for the one-shot run
		var a2 []string
		for _, a := range argv {
			if a != "--incremental" {
				a2 = append(a2, a)
			}
		}
		argv = append(a2, "--produce-models", fmt.Sprintf("--tlimit=%d", timeoutMs))
	}
	cmd := exec.CommandContext(ctx, argv[0], argv[1:]...)
	cmd.Stdin = strings.NewReader(sb.String())
	var out bytes.Buffer
	cmd.Stdout = &out
	t0 := time.Now()
	cmd.Run()
	dt := time.Since(t0)
	txt := strings.TrimSpace(out.String())
	if strings.Contains(txt, "(error") && !strings.HasPrefix(txt, "unsat") && !strings.HasPrefix(txt, "sat") {
		return Unknown, nil, dt, fmt.Errorf("solver error: %.300s", txt)
	}
	switch {
	case strings.HasPrefix(txt, "unsat"):
		if strings.Contains(txt[:min(len(txt), 400)], "(error") && !strings.Contains(txt, "model is not available") {
			// an error before the verdict would make it unreliable; errors after "unsat" come from get-value
		}
		return Unsat, nil, dt, nil
	case strings.HasPrefix(txt, "sat"):
		m := Model{}
		rest := strings.TrimSpace(txt[3:])
		if len(syms) > 0 {
			sx, _, err := parseSexp(rest, 0)
			if err != nil {
				return Sat, nil, dt, fmt.Errorf("model parse: %v", err)
			}
			for k, pair := range sx.list {
				if len(pair.list) != 2 || k >= len(syms) {
					continue
				}
				c, err := st.parseValue(pair.list[1], syms[k].Sort)
				if err != nil {
					return Sat, nil, dt, err
				}
				m[syms[k].Name] = c
			}
		}
		return Sat, m, dt, nil
	}
	return Unknown, nil, dt, nil
}

var dumpN int

func min(a, b int) int {
	if a < b {
		return a
	}
	return b
}
