package symex

import (
	"fmt"
	"go/constant"
	"go/token"
	"go/types"
	"math/big"
	"strings"

	"verif/engine/smt"

	"golang.org/x/tools/go/ssa"
)

// Abort ends a path as inconclusive (engine limitation), never as pass/fail.
type Abort struct{ Msg string }

func (a *Abort) Error() string { return a.Msg }

// PanicV is a Go-level panic raised by interpreted code (or by gorgonia).
type PanicV struct {
	Msg  string
	Site string
}

// pathEnd ends a path quietly (infeasible after an assumption).
type pathEnd struct{}

type frame struct {
	fn     *ssa.Function
	env    map[ssa.Value]Value
	block  *ssa.BasicBlock
	prev   *ssa.BasicBlock
	defers []func()
}

func (c *Ctx) abort(format string, a ...interface{}) *Abort {
	return &Abort{Msg: fmt.Sprintf(format, a...) + " @ " + c.where()}
}

func (c *Ctx) where() string {
	if len(c.stack) == 0 {
		return "?"
	}
	var parts []string
	for i := len(c.stack) - 1; i >= 0 && len(parts) < 4; i-- {
		parts = append(parts, c.stack[i])
	}
	return strings.Join(parts, " <- ")
}

func (c *Ctx) goPanic(format string, a ...interface{}) *PanicV {
	return &PanicV{Msg: fmt.Sprintf(format, a...), Site: c.where()}
}

func (c *Ctx) pos(p token.Pos) string {
	if !p.IsValid() {
		return ""
	}
	ps := c.Prog.Fset.Position(p)
	f := ps.Filename
	if i := strings.LastIndex(f, "/"); i >= 0 {
		f = f[i+1:]
	}
	return fmt.Sprintf("%s:%d", f, ps.Line)
}

// ---- function calls

func (c *Ctx) CallFunction(fn *ssa.Function, args []Value) Value {
	return c.call(fn, args, nil)
}

func (c *Ctx) call(fn *ssa.Function, args []Value, env []Value) Value {
	name := fn.String()
	if (fn.Name() == "init" || strings.HasPrefix(fn.Name(), "init#")) && !strings.HasPrefix(pkgPathOf(fn), gonnxPath) {
		return nil
	}
	if h, ok := c.intrinsic(fn, name); ok {
		c.stack = append(c.stack, name)
		r := h(c, fn, args)
		c.stack = c.stack[:len(c.stack)-1]
		return r
	}
	if initSkip[name] {
		return c.zeroResults(fn.Signature)
	}
	if fn.Blocks == nil {
		if c.inInit > 0 {
			return c.zeroResults(fn.Signature)
		}
		panic(c.abort("call of external function without body: %s", name))
	}
	if !c.mayInterpret(fn) {
		if c.inInit > 0 {
			// dependency initialisers and descriptor registration are skipped
			return c.zeroResults(fn.Signature)
		}
		panic(c.abort("unmodelled call: %s", name))
	}
	c.Funcs[name]++
	if len(c.stack) > 400 {
		panic(c.abort("call depth"))
	}
	c.stack = append(c.stack, name)
	fr := &frame{fn: fn, env: make(map[ssa.Value]Value, 32)}
	for i, p := range fn.Params {
		fr.env[p] = args[i]
	}
	for i, fv := range fn.FreeVars {
		fr.env[fv] = env[i]
	}
	r := c.run(fr)
	c.stack = c.stack[:len(c.stack)-1]
	return r
}

func (c *Ctx) zeroResults(sig *types.Signature) Value {
	switch sig.Results().Len() {
	case 0:
		return nil
	case 1:
		return c.zero(sig.Results().At(0).Type())
	}
	return c.zero(sig.Results())
}

func pkgPathOf(fn *ssa.Function) string {
	if fn.Pkg != nil {
		return fn.Pkg.Pkg.Path()
	}
	if o := fn.Origin(); o != nil && o.Pkg != nil {
		return o.Pkg.Pkg.Path()
	}
	if fn.Parent() != nil {
		return pkgPathOf(fn.Parent())
	}
	// wrappers / bound methods: use the receiver's or object's package
	if fn.Object() != nil && fn.Object().Pkg() != nil {
		return fn.Object().Pkg().Path()
	}
	if fn.Signature.Recv() != nil {
		T := fn.Signature.Recv().Type()
		if p, ok := T.(*types.Pointer); ok {
			T = p.Elem()
		}
		if n, ok := T.(*types.Named); ok && n.Obj().Pkg() != nil {
			return n.Obj().Pkg().Path()
		}
	}
	return ""
}

const gonnxPath = "github.com/advancedclimatesystems/gonnx"

func (c *Ctx) mayInterpret(fn *ssa.Function) bool {
	p := pkgPathOf(fn)
	if strings.HasPrefix(p, gonnxPath) {
		return true
	}
	switch p {
	case "bytes", "encoding/binary", "", "slices", "maps", "cmp", "sort", "strings", "unicode/utf8", "math/bits",
		"google.golang.org/protobuf/encoding/protowire": // pure functions over plain values and byte slices
		return true
	}
	// small pure value methods of the tensor library (flag tests on DataOrder, Shape arithmetic on plain int slices)
	if p == "gorgonia.org/tensor" {
		n := fn.String()
		if strings.HasPrefix(n, "(gorgonia.org/tensor.DataOrder).") || strings.HasPrefix(n, "(gorgonia.org/tensor.Shape).") {
			return true
		}
	}
	// synthetic wrappers (bound methods, thunks) around interpretable or intrinsic code
	if fn.Synthetic != "" && fn.Pkg == nil {
		return true
	}
	return false
}

func (c *Ctx) retVal(fr *frame, in *ssa.Return) Value {
	switch len(in.Results) {
	case 0:
		return nil
	case 1:
		return c.get(fr, in.Results[0])
	}
	tv := make(TupleV, len(in.Results))
	for i, r := range in.Results {
		tv[i] = c.get(fr, r)
	}
	return tv
}

func (c *Ctx) run(fr *frame) Value {
	fr.block = fr.fn.Blocks[0]
	skipPhis := false
	for {
		var next *ssa.BasicBlock
		merged := false
	instrs:
		for _, in := range fr.block.Instrs {
			if skipPhis {
				if _, ok := in.(*ssa.Phi); ok {
					continue
				}
			}
			c.Steps++
			if c.Steps > c.MaxSteps {
				panic(c.abort("step limit (unwinding cap) reached"))
			}
			switch in := in.(type) {
			case *ssa.Return:
				return c.retVal(fr, in)
			case *ssa.Jump:
				next = fr.block.Succs[0]
			case *ssa.If:
				cond := c.get(fr, in.Cond).(*smt.Term)
				if cond.IsConst() {
					if cond.BoolVal() {
						next = fr.block.Succs[0]
					} else {
						next = fr.block.Succs[1]
					}
				} else if r, ok := c.tryMerge(fr, cond); ok {
					if r.returned {
						return r.ret
					}
					// phis of the join block have been evaluated by the merge
					fr.prev = nil
					fr.block = r.join
					merged = true
					break instrs
				} else {
					c.stack = append(c.stack, c.pos(in.Pos()))
					if c.branch(cond) {
						next = fr.block.Succs[0]
					} else {
						next = fr.block.Succs[1]
					}
					c.stack = c.stack[:len(c.stack)-1]
				}
			case *ssa.Panic:
				v := c.get(fr, in.X)
				panic(c.goPanic("explicit panic(%s) at %s", describe(v), c.pos(in.Pos())))
			default:
				c.exec(fr, in)
			}
		}
		if merged {
			skipPhis = true
			continue
		}
		skipPhis = false
		if next == nil {
			panic(c.abort("block without terminator in %s", fr.fn))
		}
		fr.prev = fr.block
		fr.block = next
	}
}

func (c *Ctx) get(fr *frame, v ssa.Value) Value {
	switch v := v.(type) {
	case *ssa.Const:
		return c.constValue(v)
	case *ssa.Global:
		return c.globalAddr(v)
	case *ssa.Function:
		return &Closure{Fn: v}
	case *ssa.Builtin:
		return &Closure{Name: "builtin:" + v.Name()}
	}
	if r, ok := fr.env[v]; ok {
		return r
	}
	panic(c.abort("unbound SSA value %s (%T) in %s", v.Name(), v, fr.fn))
}

func (c *Ctx) constValue(k *ssa.Const) Value {
	T := k.Type()
	if k.Value == nil {
		// nil or zero value
		if b, ok := T.Underlying().(*types.Basic); ok && b.Kind() == types.UntypedNil {
			return IfaceV{}
		}
		return c.zero(T)
	}
	b, ok := T.Underlying().(*types.Basic)
	if !ok {
		panic(c.abort("const of non-basic type %v", T))
	}
	switch {
	case b.Info()&types.IsBoolean != 0:
		return c.St.BoolC(constant.BoolVal(k.Value))
	case b.Info()&types.IsString != 0:
		return constant.StringVal(k.Value)
	case b.Info()&types.IsInteger != 0:
		w := intWidth(b)
		if i, ok := constant.Int64Val(constant.ToInt(k.Value)); ok {
			return c.St.BVC(w, uint64(i))
		}
		u, _ := constant.Uint64Val(constant.ToInt(k.Value))
		return c.St.BVC(w, u)
	case b.Info()&types.IsFloat != 0:
		if c.Ring {
			r := new(big.Rat)
			fv := constant.ToFloat(k.Value)
			if _, ok := r.SetString(fv.ExactString()); !ok {
				f, _ := constant.Float64Val(fv)
				return c.St.RealF(f)
			}
			return c.St.RealC(r)
		}
		f, _ := constant.Float64Val(constant.ToFloat(k.Value))
		if b.Kind() == types.Float32 {
			f32, _ := constant.Float32Val(constant.ToFloat(k.Value))
			return c.St.F32C(f32)
		}
		return c.St.F64C(f)
	}
	panic(c.abort("const of type %v", T))
}

// ---- globals

func (c *Ctx) globalAddr(g *ssa.Global) Value {
	if p, ok := c.globals[g]; ok {
		return p
	}
	// a global of a package that is not interpreted: mirrored values
	elemT := g.Type().(*types.Pointer).Elem()
	slot := new(Value)
	if v, ok := c.mirrorGlobal(g); ok {
		*slot = v
	} else {
		*slot = c.zero(elemT)
	}
	c.globals[g] = slot
	return slot
}

// ---- instruction execution (non-terminators)

func (c *Ctx) exec(fr *frame, in ssa.Instruction) {
	switch in := in.(type) {
	case *ssa.Alloc:
		slot := new(Value)
		*slot = c.zero(in.Type().(*types.Pointer).Elem())
		fr.env[in] = slot
	case *ssa.UnOp:
		fr.env[in] = c.unop(fr, in)
	case *ssa.BinOp:
		fr.env[in] = c.binop(in.Op, in.X.Type(), c.get(fr, in.X), c.get(fr, in.Y), in.Pos())
	case *ssa.Store:
		c.storeAt(c.get(fr, in.Addr), c.get(fr, in.Val), in.Pos())
	case *ssa.Call:
		fr.env[in] = c.callInstr(fr, in.Common(), in.Pos())
	case *ssa.Phi:
		for i, p := range fr.block.Preds {
			if p == fr.prev {
				fr.env[in] = c.get(fr, in.Edges[i])
				return
			}
		}
		panic(c.abort("phi: predecessor not found in %s", fr.fn))
	case *ssa.FieldAddr:
		p := c.get(fr, in.X)
		if sh, isSh := p.(*Shadow); isSh {
			// promoted method through an embedded field of *tensor.Dense (AP, array)
			if sh == nil {
				panic(c.goPanic("nil *Dense dereference at %s", c.pos(in.Pos())))
			}
			fr.env[in] = sh
			return
		}
		sp, ok := p.(*Value)
		if !ok || sp == nil {
			panic(c.goPanic("nil pointer dereference (field %d) at %s", in.Field, c.pos(in.Pos())))
		}
		sv, ok := (*sp).(StructV)
		if !ok {
			panic(c.abort("FieldAddr on %s at %s", describe(*sp), c.pos(in.Pos())))
		}
		fr.env[in] = &sv[in.Field]
	case *ssa.Field:
		xv := c.get(fr, in.X)
		if d, ok := xv.(DtypeV); ok {
			// tensor.Dtype{reflect.Type}: the embedded type descriptor
			n, k, sz := "<symbolic dtype>", -1, -1
			if d.Idx >= 0 {
				n, k, sz = dtypeUniverse[d.Idx].Name(), int(dtypeUniverse[d.Idx].Kind()), int(dtypeUniverse[d.Idx].Size())
			}
			fr.env[in] = IfaceV{T: c.rtypeT(), V: RTypeV{Name: n, Kind: k, Size: sz, Sym: d.Sym}}
			return
		}
		sv := xv.(StructV)
		fr.env[in] = copyVal(sv[in.Field])
	case *ssa.IndexAddr:
		fr.env[in] = c.indexAddr(fr, in)
	case *ssa.Index:
		x := c.get(fr, in.X)
		idx := c.get(fr, in.Index).(*smt.Term)
		switch xv := x.(type) {
		case ArrayV:
			i := c.checkIndex(idx, len(xv), in.Pos())
			fr.env[in] = copyVal(xv[i])
		case ScalarArr:
			i := c.checkIndex(idx, len(xv.A.ids), in.Pos())
			fr.env[in] = xv.A.Load(c, i)
		case string:
			i := c.checkIndex(idx, len(xv), in.Pos())
			fr.env[in] = c.St.BVC(8, uint64(xv[i]))
		default:
			panic(c.abort("Index on %T", x))
		}
	case *ssa.Slice:
		fr.env[in] = c.sliceOp(fr, in)
	case *ssa.MakeSlice:
		n := c.concInt(c.get(fr, in.Len).(*smt.Term), "make: len")
		cp := c.concInt(c.get(fr, in.Cap).(*smt.Term), "make: cap")
		if n < 0 || cp < n {
			panic(c.goPanic("makeslice: len out of range (%d) at %s", n, c.pos(in.Pos())))
		}
		elem := in.Type().Underlying().(*types.Slice).Elem()
		if cp > 1<<24 {
			// the Go runtime panics when the request exceeds its address space limit (2^48 bytes on 64-bit
			// platforms); below that it would try to allocate, which the engine does not follow
			esz := int64(8)
			if b, ok := elem.Underlying().(*types.Basic); ok {
				switch b.Kind() {
				case types.Bool, types.Int8, types.Uint8:
					esz = 1
				case types.Int16, types.Uint16:
					esz = 2
				case types.Int32, types.Uint32, types.Float32:
					esz = 4
				}
			}
			if cp > (1<<47)/esz {
				panic(c.goPanic("makeslice: cap out of range (%d elements) at %s", cp, c.pos(in.Pos())))
			}
			panic(c.abort("makeslice: %d elements is beyond the engine's bound", cp))
		}
		fr.env[in] = SliceV{B: c.newBacking(elem, int(cp)), Len: int(n), Cap: int(cp)}
	case *ssa.MakeMap:
		mt := in.Type().Underlying().(*types.Map)
		fr.env[in] = &MapV{KeyT: mt.Key(), ValT: mt.Elem(), M: map[string]*mapEntry{}}
	case *ssa.MapUpdate:
		m := c.get(fr, in.Map).(*MapV)
		if m == nil {
			panic(c.goPanic("assignment to entry in nil map at %s", c.pos(in.Pos())))
		}
		c.mapSet(m, c.get(fr, in.Key), c.get(fr, in.Value))
	case *ssa.Lookup:
		fr.env[in] = c.lookup(fr, in)
	case *ssa.MakeInterface:
		fr.env[in] = IfaceV{T: in.X.Type(), V: c.get(fr, in.X)}
	case *ssa.MakeClosure:
		cl := &Closure{Fn: in.Fn.(*ssa.Function)}
		for _, b := range in.Bindings {
			cl.Env = append(cl.Env, c.get(fr, b))
		}
		fr.env[in] = cl
	case *ssa.ChangeType:
		fr.env[in] = c.get(fr, in.X)
	case *ssa.ChangeInterface:
		fr.env[in] = c.get(fr, in.X)
	case *ssa.Convert:
		fr.env[in] = c.convert(in.X.Type(), in.Type(), c.get(fr, in.X), in.Pos())
	case *ssa.Extract:
		fr.env[in] = c.get(fr, in.Tuple).(TupleV)[in.Index]
	case *ssa.TypeAssert:
		fr.env[in] = c.typeAssert(fr, in)
	case *ssa.Range:
		fr.env[in] = c.rangeInit(c.get(fr, in.X), in.Pos())
	case *ssa.Next:
		fr.env[in] = c.rangeNext(c.get(fr, in.Iter), in)
	case *ssa.SliceToArrayPointer:
		panic(c.abort("SliceToArrayPointer"))
	case *ssa.DebugRef:
	case *ssa.RunDefers:
		for k := len(fr.defers) - 1; k >= 0; k-- {
			fr.defers[k]()
		}
		fr.defers = nil
	case *ssa.Defer:
		// deferred calls run at RunDefers (normal return); a panic skips them (no recover in the model)
		cc := in.Common()
		if cc.IsInvoke() {
			// receiver and arguments are evaluated now, the method runs at RunDefers
			recv := c.get(fr, cc.Value)
			iv, ok := recv.(IfaceV)
			if !ok {
				panic(c.abort("deferred invoke on %T", recv))
			}
			if iv.T == nil {
				panic(c.goPanic("deferred nil interface method call %s at %s", cc.Method.Name(), c.pos(in.Pos())))
			}
			var args []Value
			for _, a := range cc.Args {
				args = append(args, c.get(fr, a))
			}
			m := cc.Method
			fr.defers = append(fr.defers, func() { c.invoke(iv, m, args) })
			break
		}
		fv := c.get(fr, cc.Value)
		var args []Value
		for _, a := range cc.Args {
			args = append(args, c.get(fr, a))
		}
		cl, ok := fv.(*Closure)
		if !ok || cl == nil {
			panic(c.abort("defer of %T", fv))
		}
		fr.defers = append(fr.defers, func() { c.callClosure(cl, args, cc) })
	case *ssa.Go, *ssa.Select, *ssa.Send:
		panic(c.abort("unsupported instruction %T in %s", in, fr.fn))
	default:
		panic(c.abort("unknown instruction %T", in))
	}
}

func (c *Ctx) loadFrom(p Value, pos token.Pos) Value {
	switch p := p.(type) {
	case *Value:
		if p == nil {
			panic(c.goPanic("nil pointer dereference at %s", c.pos(pos)))
		}
		return copyVal(*p)
	case ElemRef:
		return p.B.Load(c, p.I)
	}
	panic(c.abort("load through %T at %s", p, c.pos(pos)))
}

func (c *Ctx) storeAt(p Value, v Value, pos token.Pos) {
	switch p := p.(type) {
	case *Value:
		if p == nil {
			panic(c.goPanic("nil pointer dereference (store) at %s", c.pos(pos)))
		}
		c.noteSlotWrite(p)
		storeInto(p, v)
		return
	case ElemRef:
		p.B.Store(c, p.I, v)
		return
	}
	panic(c.abort("store through %T at %s", p, c.pos(pos)))
}

func (c *Ctx) unop(fr *frame, in *ssa.UnOp) Value {
	x := c.get(fr, in.X)
	switch in.Op {
	case token.MUL: // load
		return c.loadFrom(x, in.Pos())
	case token.NOT:
		return c.St.Not(x.(*smt.Term))
	case token.SUB:
		t := x.(*smt.Term)
		switch t.Sort.K {
		case smt.KBV:
			return c.St.BVNeg(t)
		case smt.KReal, smt.KInt:
			return c.St.RNeg(t)
		default:
			return c.St.FPNeg(t)
		}
	case token.XOR:
		return c.St.BVNot(x.(*smt.Term))
	}
	panic(c.abort("unop %v", in.Op))
}

func (c *Ctx) checkIndex(idx *smt.Term, n int, pos token.Pos) int {
	if !idx.IsConst() {
		st := c.St
		inr := st.And(st.BVSLe(st.BVC(64, 0), idx), st.BVSLt(idx, st.BVC(64, uint64(n))))
		if !c.branchOn(inr, "index-in-range "+c.pos(pos)) {
			panic(c.goPanic("index out of range [sym] with length %d at %s", n, c.pos(pos)))
		}
	}
	i := c.concInt(idx, "index")
	if i < 0 || i >= int64(n) {
		panic(c.goPanic("index out of range [%d] with length %d at %s", i, n, c.pos(pos)))
	}
	return int(i)
}

func (c *Ctx) indexAddr(fr *frame, in *ssa.IndexAddr) Value {
	x := c.get(fr, in.X)
	idx := c.get(fr, in.Index).(*smt.Term)
	if idx.Sort.W != 64 {
		idx = c.St.Resize(idx, 64, isSigned(in.Index.Type()))
	}
	switch xv := x.(type) {
	case SliceV:
		i := c.checkIndex(idx, xv.Len, in.Pos())
		return xv.B.Addr(xv.Off + i)
	case *Value: // pointer to array
		if xv == nil {
			panic(c.goPanic("nil pointer dereference (array) at %s", c.pos(in.Pos())))
		}
		if sa, ok := (*xv).(ScalarArr); ok {
			i := c.checkIndex(idx, len(sa.A.ids), in.Pos())
			return ElemRef{B: sa.A, I: i}
		}
		arr := (*xv).(ArrayV)
		i := c.checkIndex(idx, len(arr), in.Pos())
		return &arr[i]
	}
	panic(c.abort("IndexAddr on %T", x))
}

func (c *Ctx) sliceOp(fr *frame, in *ssa.Slice) Value {
	x := c.get(fr, in.X)
	evalIdx := func(v ssa.Value, dflt int, limit int, what string) int {
		if v == nil {
			return dflt
		}
		t := c.get(fr, v).(*smt.Term)
		if t.Sort.W != 64 {
			t = c.St.Resize(t, 64, isSigned(v.Type()))
		}
		if !t.IsConst() {
			st := c.St
			inr := st.And(st.BVSLe(st.BVC(64, 0), t), st.BVSLe(t, st.BVC(64, uint64(limit))))
			if !c.branchOn(inr, "slice-bound "+c.pos(in.Pos())) {
				panic(c.goPanic("slice bounds out of range [sym %s] with capacity %d at %s", what, limit, c.pos(in.Pos())))
			}
		}
		return int(c.concInt(t, "slice bound"))
	}
	switch xv := x.(type) {
	case SliceV:
		lo := evalIdx(in.Low, 0, xv.Cap, "low")
		hi := evalIdx(in.High, xv.Len, xv.Cap, "high")
		mx := evalIdx(in.Max, xv.Cap, xv.Cap, "max")
		if lo < 0 || hi < lo || mx < hi || mx > xv.Cap {
			panic(c.goPanic("slice bounds out of range [%d:%d:%d] with capacity %d at %s", lo, hi, mx, xv.Cap, c.pos(in.Pos())))
		}
		if xv.B == nil {
			return SliceV{}
		}
		return SliceV{B: xv.B, Off: xv.Off + lo, Len: hi - lo, Cap: mx - lo}
	case string:
		lo := evalIdx(in.Low, 0, len(xv), "low")
		hi := evalIdx(in.High, len(xv), len(xv), "high")
		if lo < 0 || hi < lo || hi > len(xv) {
			panic(c.goPanic("string slice bounds out of range [%d:%d] with length %d at %s", lo, hi, len(xv), c.pos(in.Pos())))
		}
		return xv[lo:hi]
	case *Value: // *array
		if xv == nil {
			panic(c.goPanic("nil pointer dereference (slice of array) at %s", c.pos(in.Pos())))
		}
		if sa, ok := (*xv).(ScalarArr); ok {
			n := len(sa.A.ids)
			lo := evalIdx(in.Low, 0, n, "low")
			hi := evalIdx(in.High, n, n, "high")
			if lo < 0 || hi < lo || hi > n {
				panic(c.goPanic("slice bounds out of range [%d:%d] with length %d at %s", lo, hi, n, c.pos(in.Pos())))
			}
			return SliceV{B: sa.A, Off: lo, Len: hi - lo, Cap: n - lo}
		}
		arr := (*xv).(ArrayV)
		lo := evalIdx(in.Low, 0, len(arr), "low")
		hi := evalIdx(in.High, len(arr), len(arr), "high")
		if lo < 0 || hi < lo || hi > len(arr) {
			panic(c.goPanic("slice bounds out of range [%d:%d] with length %d at %s", lo, hi, len(arr), c.pos(in.Pos())))
		}
		// arrays of scalars inside interpreted code are boxed; expose them boxed
		return SliceV{B: &boxArr{a: arr}, Off: lo, Len: hi - lo, Cap: len(arr) - lo}
	}
	panic(c.abort("Slice on %T", x))
}

// ---- calls

func (c *Ctx) callInstr(fr *frame, cc *ssa.CallCommon, pos token.Pos) Value {
	c.stack = append(c.stack, c.pos(pos))
	defer func() { c.stack = c.stack[:len(c.stack)-1] }()
	args := make([]Value, 0, len(cc.Args)+1)
	if cc.IsInvoke() {
		recv := c.get(fr, cc.Value)
		iv, ok := recv.(IfaceV)
		if !ok {
			panic(c.abort("invoke on %T", recv))
		}
		if iv.T == nil {
			panic(c.goPanic("nil interface method call %s at %s", cc.Method.Name(), c.pos(pos)))
		}
		for _, a := range cc.Args {
			args = append(args, c.get(fr, a))
		}
		return c.invoke(iv, cc.Method, args)
	}
	fv := c.get(fr, cc.Value)
	for _, a := range cc.Args {
		args = append(args, c.get(fr, a))
	}
	cl, ok := fv.(*Closure)
	if !ok || cl == nil {
		panic(c.goPanic("call of nil function at %s", c.pos(pos)))
	}
	return c.callClosure(cl, args, cc)
}

func (c *Ctx) callClosure(cl *Closure, args []Value, cc *ssa.CallCommon) Value {
	if cl.Native != nil {
		return cl.Native(c, args)
	}
	if cl.Fn == nil {
		if strings.HasPrefix(cl.Name, "builtin:") {
			return c.builtin(cl.Name[8:], args, cc)
		}
		panic(c.abort("call of empty closure %q", cl.Name))
	}
	return c.call(cl.Fn, args, cl.Env)
}

// invoke dispatches an interface method call on the dynamic type.
func (c *Ctx) invoke(iv IfaceV, m *types.Func, args []Value) Value {
	if h, ok := c.nativeMethod(iv, m.Name()); ok {
		return h(c, iv, args)
	}
	fn := c.Prog.LookupMethod(iv.T, m.Pkg(), m.Name())
	if fn == nil {
		panic(c.abort("method %s not found on %s", m.Name(), typeString(iv.T)))
	}
	return c.call(fn, append([]Value{iv.V}, args...), nil)
}

func (c *Ctx) builtin(name string, args []Value, cc *ssa.CallCommon) Value {
	switch name {
	case "len":
		switch x := args[0].(type) {
		case SliceV:
			return c.St.BVC(64, uint64(x.Len))
		case string:
			return c.St.BVC(64, uint64(len(x)))
		case *MapV:
			if x == nil {
				return c.St.BVC(64, 0)
			}
			return c.St.BVC(64, uint64(len(x.Order)))
		case ArrayV:
			return c.St.BVC(64, uint64(len(x)))
		case ScalarArr:
			return c.St.BVC(64, uint64(len(x.A.ids)))
		case *Value:
			if x == nil {
				return c.St.BVC(64, 0)
			}
			if sa, ok := (*x).(ScalarArr); ok {
				return c.St.BVC(64, uint64(len(sa.A.ids)))
			}
			return c.St.BVC(64, uint64(len((*x).(ArrayV))))
		case FreshStr:
			panic(c.abort("len of a fresh (symbolic) string"))
		}
	case "cap":
		if x, ok := args[0].(SliceV); ok {
			return c.St.BVC(64, uint64(x.Cap))
		}
	case "append":
		return c.appendOp(args[0].(SliceV), args[1], cc)
	case "copy":
		dst := args[0].(SliceV)
		n := dst.Len
		switch src := args[1].(type) {
		case SliceV:
			if src.Len < n {
				n = src.Len
			}
			tmp := make([]Value, n)
			for i := 0; i < n; i++ {
				tmp[i] = src.B.Load(c, src.Off+i)
			}
			for i := 0; i < n; i++ {
				dst.B.Store(c, dst.Off+i, tmp[i])
			}
		case string:
			if len(src) < n {
				n = len(src)
			}
			for i := 0; i < n; i++ {
				dst.B.Store(c, dst.Off+i, c.St.BVC(8, uint64(src[i])))
			}
		}
		return c.St.BVC(64, uint64(n))
	case "delete":
		m := args[0].(*MapV)
		if name, ok := c.watchMaps[m]; ok {
			c.writes = append(c.writes, fmt.Sprintf("%s: map delete @ %s", name, c.where()))
		}
		if m != nil {
			k := c.keyOf(args[1])
			if _, ok := m.M[k]; ok {
				delete(m.M, k)
				for i, o := range m.Order {
					if o == k {
						m.Order = append(m.Order[:i:i], m.Order[i+1:]...)
						break
					}
				}
			}
		}
		return nil
	case "clear":
		switch x := args[0].(type) {
		case *MapV:
			if x == nil {
				return nil
			}
			if name, ok := c.watchMaps[x]; ok && len(x.Order) > 0 {
				c.writes = append(c.writes, fmt.Sprintf("%s: map clear @ %s", name, c.where()))
			}
			x.M = map[string]*mapEntry{}
			x.Order = nil
			return nil
		case SliceV:
			if st, ok := cc.Args[0].Type().Underlying().(*types.Slice); ok {
				for i := 0; i < x.Len; i++ {
					x.B.Store(c, x.Off+i, c.zero(st.Elem()))
				}
				return nil
			}
		}
	case "min", "max":
		T := cc.Args[0].Type()
		if b, ok := T.Underlying().(*types.Basic); !ok || b.Info()&(types.IsInteger|types.IsString) == 0 {
			panic(c.abort("builtin %s on %s (NaN / signed-zero rules unmodelled)", name, T))
		}
		tok := token.LSS
		if name == "max" {
			tok = token.GTR
		}
		r := args[0]
		for _, a := range args[1:] {
			cond := c.binop(tok, T, a, r, cc.Pos()).(*smt.Term)
			if cond.IsConst() {
				if cond.BoolVal() {
					r = a
				}
				continue
			}
			r = c.St.Ite(cond, a.(*smt.Term), r.(*smt.Term))
		}
		return r
	case "print", "println":
		return nil
	}
	panic(c.abort("builtin %s on %T", name, args[0]))
}

func growCap(oldCap, need int) int {
	if need > 2*oldCap {
		return need
	}
	if oldCap < 256 {
		if oldCap == 0 {
			return need
		}
		return 2 * oldCap
	}
	n := oldCap
	for n < need {
		n += (n + 3*256) / 4
	}
	return n
}

func (c *Ctx) appendOp(s SliceV, more Value, cc *ssa.CallCommon) Value {
	var add []Value
	switch m := more.(type) {
	case SliceV:
		for i := 0; i < m.Len; i++ {
			add = append(add, m.B.Load(c, m.Off+i))
		}
	case string:
		for i := 0; i < len(m); i++ {
			add = append(add, c.St.BVC(8, uint64(m[i])))
		}
	default:
		panic(c.abort("append of %T", more))
	}
	if len(add) == 0 {
		return s
	}
	need := s.Len + len(add)
	if s.B != nil && need <= s.Cap {
		for i, v := range add {
			s.B.Store(c, s.Off+s.Len+i, v)
		}
		s.Len = need
		return s
	}
	elem := cc.Value.(*ssa.Builtin).Type().(*types.Signature).Results().At(0).Type().Underlying().(*types.Slice).Elem()
	nc := growCap(s.Cap, need)
	nb := c.newBacking(elem, nc)
	for i := 0; i < s.Len; i++ {
		nb.Store(c, i, s.B.Load(c, s.Off+i))
	}
	for i, v := range add {
		nb.Store(c, s.Len+i, v)
	}
	return SliceV{B: nb, Off: 0, Len: need, Cap: nc}
}

// ---- maps

func (c *Ctx) keyOf(k Value) string {
	switch x := k.(type) {
	case *smt.Term:
		if !x.IsConst() {
			v := c.concretize(x, "map key")
			return c.keyOf(v)
		}
		return fmt.Sprintf("t%d.%d:%d", x.Sort.K, x.Sort.W, x.U)
	case string:
		return "s" + x
	case FreshStr:
		return "fresh:" + x.Name
	case DtypeV:
		if x.Idx < 0 {
			panic(c.abort("symbolic dtype used as stored map key"))
		}
		return fmt.Sprintf("d%d", x.Idx)
	case IfaceV:
		if x.T == nil {
			return "nil"
		}
		return "i" + typeString(x.T) + "/" + c.keyOf(x.V)
	case StructV:
		var sb strings.Builder
		sb.WriteString("{")
		for _, f := range x {
			sb.WriteString(c.keyOf(f) + ";")
		}
		return sb.String() + "}"
	case *Value:
		return fmt.Sprintf("p%p", x)
	case RTypeV:
		return "rt" + x.Name
	}
	panic(c.abort("map key of %T", k))
}

func (c *Ctx) mapSet(m *MapV, k, v Value) {
	if name, ok := c.watchMaps[m]; ok {
		c.writes = append(c.writes, fmt.Sprintf("%s: map update @ %s", name, c.where()))
	}
	ks := c.keyOf(k)
	if e, ok := m.M[ks]; ok {
		e.V = copyVal(v)
		return
	}
	m.M[ks] = &mapEntry{K: k, V: copyVal(v)}
	m.Order = append(m.Order, ks)
}

func (c *Ctx) lookup(fr *frame, in *ssa.Lookup) Value {
	x := c.get(fr, in.X)
	k := c.get(fr, in.Index)
	if s, ok := x.(string); ok {
		idx := k.(*smt.Term)
		i := c.checkIndex(c.St.Resize(idx, 64, isSigned(in.Index.Type())), len(s), in.Pos())
		return c.St.BVC(8, uint64(s[i]))
	}
	m := x.(*MapV)
	var valT types.Type
	if mt, ok := in.X.Type().Underlying().(*types.Map); ok {
		valT = mt.Elem()
	}
	// symbolic dtype key: build ite-chain over the entries
	if d, ok := k.(DtypeV); ok && d.Idx == -1 {
		return c.lookupSymDtype(m, d, valT, in.CommaOk)
	}
	// a symbolic scalar key: decide entry by entry (one path per entry, one for "absent")
	if kt, ok := k.(*smt.Term); ok && !kt.IsConst() && m != nil {
		for _, ks := range m.Order {
			e := m.M[ks]
			ek, ok := e.K.(*smt.Term)
			if !ok || ek.Sort != kt.Sort {
				continue
			}
			if c.branchOn(c.St.Eq(kt, ek), "map-key "+c.pos(in.Pos())) {
				if in.CommaOk {
					return TupleV{copyVal(e.V), c.St.True()}
				}
				return copyVal(e.V)
			}
		}
		if in.CommaOk {
			return TupleV{c.zero(valT), c.St.False()}
		}
		return c.zero(valT)
	}
	var val Value
	found := false
	if m != nil {
		if _, isFresh := k.(FreshStr); !isFresh {
			if e, ok := m.M[c.keyOf(k)]; ok {
				val, found = copyVal(e.V), true
			}
		}
	}
	if !found {
		val = c.zero(valT)
	}
	if in.CommaOk {
		return TupleV{val, c.St.BoolC(found)}
	}
	return val
}

type rangeIter struct {
	m    *MapV
	keys []string
	i    int
	s    string
}

func (c *Ctx) rangeInit(x Value, pos token.Pos) Value {
	switch xv := x.(type) {
	case *MapV:
		it := &rangeIter{m: xv}
		if xv != nil {
			it.keys = append(it.keys, xv.Order...)
			if c.MapOrders && len(it.keys) >= 2 {
				if c.decide("maporder "+c.pos(pos), 2) == 1 {
					for i, j := 0, len(it.keys)-1; i < j; i, j = i+1, j-1 {
						it.keys[i], it.keys[j] = it.keys[j], it.keys[i]
					}
				}
			}
		}
		return it
	case string:
		return &rangeIter{s: xv}
	}
	panic(c.abort("range over %T", x))
}

func (c *Ctx) rangeNext(itv Value, in *ssa.Next) Value {
	it := itv.(*rangeIter)
	if in.IsString {
		panic(c.abort("range over string"))
	}
	tt := in.Type().(*types.Tuple)
	for it.i < len(it.keys) {
		k := it.keys[it.i]
		it.i++
		if e, ok := it.m.M[k]; ok {
			return TupleV{c.St.True(), e.K, copyVal(e.V)}
		}
	}
	zk, zv := Value(nil), Value(nil)
	if b, ok := tt.At(1).Type().(*types.Basic); !ok || b.Kind() != types.Invalid {
		zk = c.zero(tt.At(1).Type())
	}
	if b, ok := tt.At(2).Type().(*types.Basic); !ok || b.Kind() != types.Invalid {
		zv = c.zero(tt.At(2).Type())
	}
	return TupleV{c.St.False(), zk, zv}
}

// ---- type assertions

func (c *Ctx) typeAssert(fr *frame, in *ssa.TypeAssert) Value {
	x := c.get(fr, in.X)
	iv, ok := x.(IfaceV)
	if !ok {
		panic(c.abort("TypeAssert on %T", x))
	}
	okv := false
	var res Value
	if iv.T != nil {
		if it, isI := in.AssertedType.Underlying().(*types.Interface); isI {
			if types.Implements(iv.T, it) || c.implementsNative(iv, it) {
				okv = true
				res = iv
			}
		} else if types.Identical(iv.T, in.AssertedType) {
			okv = true
			res = iv.V
		}
	}
	if in.CommaOk {
		if !okv {
			res = c.zero(in.AssertedType)
		}
		return TupleV{res, c.St.BoolC(okv)}
	}
	if !okv {
		got := "nil"
		if iv.T != nil {
			got = typeString(iv.T)
		}
		panic(c.goPanic("interface conversion: interface is %s, not %s at %s", got, typeString(in.AssertedType), c.pos(in.Pos())))
	}
	return res
}
