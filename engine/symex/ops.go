package symex

import (
	"go/token"
	"go/types"

	"verif/engine/smt"
)

func (c *Ctx) binop(op token.Token, T types.Type, x, y Value, pos token.Pos) Value {
	switch op {
	case token.EQL:
		return c.equal(x, y)
	case token.NEQ:
		return c.St.Not(c.equal(x, y))
	}
	// strings
	if xs, ok := x.(string); ok {
		ys, ok2 := y.(string)
		if !ok2 {
			panic(c.abort("string op with %T", y))
		}
		switch op {
		case token.ADD:
			return xs + ys
		case token.LSS:
			return c.St.BoolC(xs < ys)
		case token.LEQ:
			return c.St.BoolC(xs <= ys)
		case token.GTR:
			return c.St.BoolC(xs > ys)
		case token.GEQ:
			return c.St.BoolC(xs >= ys)
		}
		panic(c.abort("string op %v", op))
	}
	a, ok := x.(*smt.Term)
	b, ok2 := y.(*smt.Term)
	if !ok || !ok2 {
		panic(c.abort("binop %v on %T,%T", op, x, y))
	}
	st := c.St
	switch a.Sort.K {
	case smt.KBool:
		switch op {
		case token.AND, token.LAND:
			return st.And(a, b)
		case token.OR, token.LOR:
			return st.Or(a, b)
		}
	case smt.KBV:
		signed := isSigned(T)
		// shifts: the count may have another width
		if op == token.SHL || op == token.SHR {
			cnt := b
			if cnt.Sort.W != a.Sort.W {
				// negative signed counts panic in Go; counts here are unsigned constants in practice
				if cnt.Sort.W > a.Sort.W {
					// saturate: if any high bit set the count is >= width
					hi := st.Extract(cnt, cnt.Sort.W-1, a.Sort.W)
					lo := st.Extract(cnt, a.Sort.W-1, 0)
					big := st.Not(st.Eq(hi, st.BVC(hi.Sort.W, 0)))
					cnt = st.Ite(big, st.BVC(a.Sort.W, uint64(a.Sort.W)), lo)
				} else {
					cnt = st.ZeroExt(cnt, a.Sort.W-cnt.Sort.W)
				}
			}
			if op == token.SHL {
				return st.BVShl(a, cnt)
			}
			if signed {
				return st.BVAShr(a, cnt)
			}
			return st.BVLShr(a, cnt)
		}
		if a.Sort != b.Sort {
			panic(c.abort("int binop %v width mismatch %v %v at %s", op, a.Sort, b.Sort, c.pos(pos)))
		}
		switch op {
		case token.ADD:
			return st.BVAdd(a, b)
		case token.SUB:
			return st.BVSub(a, b)
		case token.MUL:
			return st.BVMul(a, b)
		case token.QUO, token.REM:
			c.checkDivZero(b, pos)
			if op == token.QUO {
				if signed {
					return st.BVSDiv(a, b)
				}
				return st.BVUDiv(a, b)
			}
			if signed {
				return st.BVSRem(a, b)
			}
			return st.BVURem(a, b)
		case token.AND:
			return st.BVAnd(a, b)
		case token.OR:
			return st.BVOr(a, b)
		case token.XOR:
			return st.BVXor(a, b)
		case token.AND_NOT:
			return st.BVAnd(a, st.BVNot(b))
		case token.LSS:
			if signed {
				return st.BVSLt(a, b)
			}
			return st.BVULt(a, b)
		case token.LEQ:
			if signed {
				return st.BVSLe(a, b)
			}
			return st.BVULe(a, b)
		case token.GTR:
			if signed {
				return st.BVSLt(b, a)
			}
			return st.BVULt(b, a)
		case token.GEQ:
			if signed {
				return st.BVSLe(b, a)
			}
			return st.BVULe(b, a)
		}
	case smt.KFP32, smt.KFP64:
		switch op {
		case token.ADD:
			return st.FPAdd(a, b)
		case token.SUB:
			return st.FPSub(a, b)
		case token.MUL:
			return st.FPMul(a, b)
		case token.QUO:
			return st.FPDiv(a, b)
		case token.LSS:
			return st.FPLt(a, b)
		case token.LEQ:
			return st.FPLe(a, b)
		case token.GTR:
			return st.FPLt(b, a)
		case token.GEQ:
			return st.FPLe(b, a)
		}
	case smt.KReal, smt.KInt:
		switch op {
		case token.ADD:
			return st.RAdd(a, b)
		case token.SUB:
			return st.RSub(a, b)
		case token.MUL:
			return st.RMul(a, b)
		case token.QUO:
			if a.Sort.K == smt.KReal {
				return st.RDiv(a, b)
			}
		case token.LSS:
			return st.RLt(a, b)
		case token.LEQ:
			return st.RLe(a, b)
		case token.GTR:
			return st.RLt(b, a)
		case token.GEQ:
			return st.RLe(b, a)
		}
	}
	panic(c.abort("binop %v on sort %v at %s", op, a.Sort, c.pos(pos)))
}

func (c *Ctx) checkDivZero(b *smt.Term, pos token.Pos) {
	z := c.St.Eq(b, c.St.BVC(b.Sort.W, 0))
	if z.IsConst() {
		if z.BoolVal() {
			panic(c.goPanic("integer divide by zero at %s", c.pos(pos)))
		}
		return
	}
	if c.branchOn(z, "divisor-zero "+c.pos(pos)) {
		panic(c.goPanic("integer divide by zero at %s", c.pos(pos)))
	}
}

// equal implements Go's == on interpreter values, as a Bool term.
func (c *Ctx) equal(x, y Value) *smt.Term {
	st := c.St
	switch a := x.(type) {
	case *smt.Term:
		b, ok := y.(*smt.Term)
		if !ok {
			panic(c.abort("== term vs %T", y))
		}
		if a.Sort.IsFP() {
			return st.FPEq(a, b)
		}
		return st.Eq(a, b)
	case string:
		switch b := y.(type) {
		case string:
			return st.BoolC(a == b)
		case FreshStr:
			return st.False()
		}
	case FreshStr:
		if b, ok := y.(FreshStr); ok {
			return st.BoolC(a.Name == b.Name)
		}
		if _, ok := y.(string); ok {
			return st.False()
		}
	case IfaceV:
		b, ok := y.(IfaceV)
		if !ok {
			panic(c.abort("== iface vs %T", y))
		}
		if a.T == nil || b.T == nil {
			return st.BoolC(a.T == nil && b.T == nil)
		}
		if !types.Identical(a.T, b.T) {
			return st.False()
		}
		return c.equal(a.V, b.V)
	case *Value:
		b, ok := y.(*Value)
		if !ok {
			if _, isE := y.(ElemRef); isE {
				return st.False()
			}
			panic(c.abort("== ptr vs %T", y))
		}
		return st.BoolC(a == b)
	case ElemRef:
		b, ok := y.(ElemRef)
		return st.BoolC(ok && a == b)
	case StructV:
		b := y.(StructV)
		r := st.True()
		for i := range a {
			r = st.And(r, c.equal(a[i], b[i]))
		}
		return r
	case ArrayV:
		b := y.(ArrayV)
		r := st.True()
		for i := range a {
			r = st.And(r, c.equal(a[i], b[i]))
		}
		return r
	case ScalarArr:
		b := y.(ScalarArr)
		r := st.True()
		for i := range a.A.ids {
			r = st.And(r, c.equal(a.A.Load(c, i), b.A.Load(c, i)))
		}
		return r
	case DtypeV:
		b, ok := y.(DtypeV)
		if !ok {
			panic(c.abort("== dtype vs %T", y))
		}
		return c.dtypeEq(a, b)
	case *MapV:
		b, _ := y.(*MapV)
		if a == nil || b == nil {
			return st.BoolC(a == b)
		}
	case SliceV:
		b, _ := y.(SliceV)
		if a.B == nil || b.B == nil {
			return st.BoolC(a.B == nil && b.B == nil)
		}
	case *Closure:
		b, _ := y.(*Closure)
		if a == nil || b == nil {
			return st.BoolC(a == b)
		}
	case *Shadow:
		b, _ := y.(*Shadow)
		return st.BoolC(a == b)
	case *ErrV:
		b, _ := y.(*ErrV)
		return st.BoolC(a == b)
	case RTypeV:
		b, _ := y.(RTypeV)
		return st.BoolC(a == b)
	case *IterV:
		b, _ := y.(*IterV)
		return st.BoolC(a == b)
	case nil:
		return st.BoolC(y == nil)
	}
	panic(c.abort("== on %T / %T", x, y))
}

func (c *Ctx) convert(from, to types.Type, v Value, pos token.Pos) Value {
	st := c.St
	fu, tu := from.Underlying(), to.Underlying()
	// string <-> []byte
	if tb, ok := tu.(*types.Basic); ok && tb.Info()&types.IsString != 0 {
		switch x := v.(type) {
		case string, FreshStr:
			return x
		case SliceV:
			bs := make([]byte, x.Len)
			for i := 0; i < x.Len; i++ {
				t := x.B.Load(c, x.Off+i).(*smt.Term)
				bs[i] = byte(c.concInt(t, "[]byte -> string"))
			}
			return string(bs)
		case *smt.Term:
			return string(rune(c.concInt(x, "rune -> string")))
		}
		panic(c.abort("convert %T to string", v))
	}
	if ts, ok := tu.(*types.Slice); ok {
		if s, ok := v.(string); ok {
			b := c.newBacking(ts.Elem(), len(s))
			for i := 0; i < len(s); i++ {
				b.Store(c, i, st.BVC(8, uint64(s[i])))
			}
			return SliceV{B: b, Len: len(s), Cap: len(s)}
		}
		return v
	}
	t, ok := v.(*smt.Term)
	if !ok {
		// pointer / unsafe conversions etc.
		return v
	}
	fb, ok1 := fu.(*types.Basic)
	tb, ok2 := tu.(*types.Basic)
	if !ok1 || !ok2 {
		panic(c.abort("convert %v -> %v", from, to))
	}
	fInt := fb.Info()&types.IsInteger != 0
	tInt := tb.Info()&types.IsInteger != 0
	fFlt := fb.Info()&types.IsFloat != 0
	tFlt := tb.Info()&types.IsFloat != 0
	switch {
	case fInt && tInt:
		return st.Resize(t, intWidth(tb), isSigned(from))
	case fFlt && tFlt:
		if c.Ring {
			return t
		}
		so, _ := c.sortOf(to)
		return st.FPConv(t, so)
	case fInt && tFlt:
		if c.Ring {
			if t.IsConst() {
				if isSigned(from) {
					return st.RealI(t.SVal())
				}
				return st.RealF(float64(t.U))
			}
			panic(c.abort("int -> float conversion of a symbolic value in ring mode at %s", c.pos(pos)))
		}
		so, _ := c.sortOf(to)
		return st.IntToFP(t, isSigned(from), so)
	case fFlt && tInt:
		if c.Ring {
			if t.IsConst() && t.R.IsInt() {
				return st.BVC(intWidth(tb), uint64(t.R.Num().Int64()))
			}
			panic(c.abort("float -> int conversion in ring mode at %s", c.pos(pos)))
		}
		return st.FPToInt(t, isSigned(to), intWidth(tb))
	}
	if fb.Info()&types.IsBoolean != 0 && tb.Info()&types.IsBoolean != 0 {
		return t
	}
	panic(c.abort("convert %v -> %v", from, to))
}
