package symex

import (
	"regexp"
	"crypto/sha256"
	"encoding/hex"
	"fmt"
	"go/types"
	"math/big"
	"os"
	"path/filepath"
	"sort"
	"strings"
	"sync"

	"golang.org/x/tools/go/packages"
	"golang.org/x/tools/go/ssa"
	"golang.org/x/tools/go/ssa/ssautil"
)

// World is /repo loaded as SSA together with the harness overlay.
type World struct {
	Prog    *ssa.Program
	Pkgs    map[string]*ssa.Package // by import path
	Overlay map[string]string       // virtual path -> real path
	Hashes  map[string]string       // source file -> sha256
	RepoDir string
}

// overlayDirs maps harness sub-directories to package directories of the repo.
var overlayDirs = map[string]string{
	"gonnx":   "",
	"ops":     "ops",
	"opset13": "ops/opset13",
	"onnx":    "onnx",
	"zzverif": "internal/zzverif",
}

func requirementsMet(file, repoDir string) bool {
	b, err := os.ReadFile(file)
	if err != nil {
		return false
	}
	for _, line := range strings.Split(string(b), "\n") {
		if !strings.HasPrefix(line, "// requires: ") {
			continue
		}
		parts := strings.SplitN(strings.TrimPrefix(line, "// requires: "), ": ", 2)
		if len(parts) != 2 {
			return false
		}
		re, err := regexp.Compile(parts[1])
		if err != nil {
			return false
		}
		matches, _ := filepath.Glob(filepath.Join(repoDir, parts[0]))
		found := false
		for _, m := range matches {
			if src, err := os.ReadFile(m); err == nil && re.Match(src) {
				found = true
			}
		}
		if !found {
			return false
		}
	}
	return true
}

// BuildOverlay lists the harness files and where they appear inside the repo.
func BuildOverlay(harnessDir, repoDir string) (map[string]string, error) {
	ov := map[string]string{}
	for sub, rel := range overlayDirs {
		files, _ := filepath.Glob(filepath.Join(harnessDir, sub, "*.go"))
		for _, f := range files {
			base := filepath.Base(f)
			if !strings.HasPrefix(base, "zz") {
				base = "zz_verif_" + base
			}
			// an optional harness file names the declarations of the repository it relies on
			// ("// requires: <path>: <regexp>" lines); when one of them is gone or has another
			// signature, the stub next to it (<file>.stub, same declarations, no use of them) is taken
			// instead, so that the other harnesses of the package still compile
			if strings.HasSuffix(f, "_opt.go") && !requirementsMet(f, repoDir) {
				f += ".stub"
			}
			ov[filepath.Join(repoDir, rel, base)] = f
		}
	}
	if len(ov) == 0 {
		return nil, fmt.Errorf("no harness files under %s", harnessDir)
	}
	return ov, nil
}

func Load(repoDir, harnessDir string) (*World, error) {
	ov, err := BuildOverlay(harnessDir, repoDir)
	if err != nil {
		return nil, err
	}
	overlay := map[string][]byte{}
	for v, r := range ov {
		if strings.HasSuffix(v, "_test.go") {
			continue
		}
		b, err := os.ReadFile(r)
		if err != nil {
			return nil, err
		}
		overlay[v] = b
	}
	cfg := &packages.Config{
		Mode:       packages.LoadAllSyntax,
		Dir:        repoDir,
		Overlay:    overlay,
		BuildFlags: []string{"-tags=verif"},
		Env:        append(os.Environ(), "GOFLAGS=-mod=mod", "GOPROXY=off", "GOSUMDB=off", "GOTOOLCHAIN=local"),
	}
	pkgs, err := packages.Load(cfg, "./...")
	if err != nil {
		return nil, err
	}
	var errs []string
	packages.Visit(pkgs, nil, func(p *packages.Package) {
		for _, e := range p.Errors {
			errs = append(errs, e.Error())
		}
	})
	if len(errs) > 0 {
		if len(errs) > 12 {
			errs = errs[:12]
		}
		return nil, fmt.Errorf("loading /repo with the harness overlay failed:\n  %s", strings.Join(errs, "\n  "))
	}
	prog, _ := ssautil.AllPackages(pkgs, ssa.InstantiateGenerics)
	prog.Build()
	w := &World{Prog: prog, Pkgs: map[string]*ssa.Package{}, Overlay: ov, Hashes: map[string]string{}, RepoDir: repoDir}
	for _, p := range prog.AllPackages() {
		w.Pkgs[p.Pkg.Path()] = p
	}
	return w, nil
}

// Harness finds the harness function "pkgsuffix.Name", e.g. "opset13.H_C05_conv".
func (w *World) Harness(name string) (*ssa.Function, error) {
	i := strings.IndexByte(name, '.')
	if i < 0 {
		return nil, fmt.Errorf("harness name %q lacks a package", name)
	}
	rel, ok := overlayDirs[name[:i]]
	if !ok {
		return nil, fmt.Errorf("unknown harness package %q", name[:i])
	}
	path := gonnxPath
	if rel != "" {
		path += "/" + rel
	}
	p := w.Pkgs[path]
	if p == nil {
		return nil, fmt.Errorf("package %s not loaded", path)
	}
	f := p.Func(name[i+1:])
	if f == nil {
		return nil, fmt.Errorf("harness %s not found in %s", name[i+1:], path)
	}
	return f, nil
}

var hashMu sync.Mutex

func (w *World) hashFile(f string) string {
	hashMu.Lock()
	defer hashMu.Unlock()
	if h, ok := w.Hashes[f]; ok {
		return h
	}
	real := f
	if r, ok := w.Overlay[f]; ok {
		real = r
	}
	b, err := os.ReadFile(real)
	if err != nil {
		return ""
	}
	s := sha256.Sum256(b)
	h := hex.EncodeToString(s[:8])
	w.Hashes[f] = h
	return h
}

// FunctionsEncoded renders the functions interpreted in a run as
// "name file:line sha256-prefix".
func (w *World) FunctionsEncoded(funcs map[string]int) []string {
	byName := map[string]*ssa.Function{}
	for f := range ssautil.AllFunctions(w.Prog) {
		byName[f.String()] = f
	}
	var out []string
	for n := range funcs {
		f := byName[n]
		if f == nil {
			out = append(out, n)
			continue
		}
		pos := w.Prog.Fset.Position(f.Pos())
		if pos.Filename == "" && f.Parent() != nil {
			pos = w.Prog.Fset.Position(f.Parent().Pos())
		}
		if pos.Filename == "" {
			out = append(out, n)
			continue
		}
		rel := strings.TrimPrefix(pos.Filename, w.RepoDir+"/")
		out = append(out, fmt.Sprintf("%s %s:%d sha256:%s", n, rel, pos.Line, w.hashFile(pos.Filename)))
	}
	sort.Strings(out)
	return out
}

var initSkip = map[string]bool{
	"github.com/advancedclimatesystems/gonnx/onnx.init#1":                       true,
	"github.com/advancedclimatesystems/gonnx/onnx.file_onnx_proto3_init":        true,
	"github.com/advancedclimatesystems/gonnx/onnx.file_onnx_proto3_rawDescGZIP": true,
}

// initPackages runs the package initialisers of the gonnx packages.
func (c *Ctx) initPackages() {
	c.inInit++
	defer func() { c.inInit-- }()
	var paths []string
	for p := range c.E.World.Pkgs {
		if strings.HasPrefix(p, gonnxPath) && !strings.HasSuffix(p, "/zzverif") {
			paths = append(paths, p)
		}
	}
	sort.Strings(paths)
	for _, p := range paths {
		pkg := c.E.World.Pkgs[p]
		// allocate all globals first
		for _, m := range pkg.Members {
			if g, ok := m.(*ssa.Global); ok {
				c.globalAddrInit(g)
			}
		}
	}
	for _, p := range paths {
		if init := c.E.World.Pkgs[p].Func("init"); init != nil {
			c.call(init, nil, nil)
		}
	}
}

func (c *Ctx) globalAddrInit(g *ssa.Global) {
	if _, ok := c.globals[g]; ok {
		return
	}
	slot := new(Value)
	*slot = c.zero(g.Type().(*types.Pointer).Elem())
	c.globals[g] = slot
}

func newRat(s string) (*big.Rat, bool) {
	return new(big.Rat).SetString(s)
}
