package symex

import (
	"go/types"
	"math"
	"reflect"

	"verif/engine/smt"

	"golang.org/x/tools/go/ssa"
	"gorgonia.org/tensor"
)

// Element arithmetic of gorgonia, as term builders. Shapes, dtypes and errors
// come from running the real operation on the twins.

type operand struct {
	sh     *Shadow   // tensor operand, or
	term   *smt.Term // scalar operand
	dt     tensor.Dtype
	native interface{} // what is handed to the real gorgonia
}

func (c *Ctx) operandOf(v Value) operand {
	if s := c.asShadow(v); s != nil {
		return operand{sh: s, dt: s.dt, native: s.twin}
	}
	iv, ok := v.(IfaceV)
	if !ok || iv.T == nil {
		panic(c.abort("arithmetic operand %s", describe(v)))
	}
	t, ok := iv.V.(*smt.Term)
	b, ok2 := iv.T.Underlying().(*types.Basic)
	if !ok || !ok2 {
		panic(c.abort("arithmetic operand of type %s", typeString(iv.T)))
	}
	d, ok := dtypeOfBasic(b)
	if !ok {
		panic(c.abort("arithmetic operand of type %s", typeString(iv.T)))
	}
	nat := benignScalar(d)
	if _, named := iv.T.(*types.Named); named {
		nat = namedBox{nat}
	}
	return operand{term: t, dt: d, native: nat}
}

type funcOpts struct {
	reuse    *Shadow
	sameType bool
	unsafe   bool      // UseUnsafe: gorgonia overwrites an operand and returns it
	operands []*Shadow // the tensor operands of the call (candidates for the overwritten one)
	native   []tensor.FuncOpt
}

func (c *Ctx) funcOpts(v Value) funcOpts {
	var fo funcOpts
	for _, o := range c.valuesOf(v) {
		ov, ok := o.(OptV)
		if !ok {
			panic(c.abort("FuncOpt is %T", o))
		}
		switch ov.Kind {
		case "WithReuse":
			fo.reuse = c.asShadow(ov.Arg)
			if fo.reuse == nil {
				panic(c.abort("WithReuse(nil)"))
			}
			fo.native = append(fo.native, tensor.WithReuse(fo.reuse.twin))
		case "AsSameType":
			fo.sameType = true
			fo.native = append(fo.native, tensor.AsSameType())
		case "UseUnsafe":
			fo.unsafe = true
			fo.native = append(fo.native, tensor.UseUnsafe())
		default:
			panic(c.abort("FuncOpt %s", ov.Kind))
		}
	}
	return fo
}

func (c *Ctx) ufName(base string, so smt.Sort) string {
	switch so.K {
	case smt.KFP32:
		return base + "_f32"
	case smt.KFP64:
		return base + "_f64"
	case smt.KReal:
		return base + "_r"
	}
	return base
}

func (c *Ctx) one(so smt.Sort) *smt.Term {
	switch so.K {
	case smt.KBV:
		return c.St.BVC(so.W, 1)
	case smt.KFP32:
		return c.St.F32C(1)
	case smt.KFP64:
		return c.St.F64C(1)
	case smt.KReal:
		return c.St.RealI(1)
	case smt.KBool:
		return c.St.True()
	}
	panic(c.abort("one of %v", so))
}

// scalarOp computes one element.
func (c *Ctx) scalarOp(op string, dt tensor.Dtype, x, y *smt.Term) *smt.Term {
	st := c.St
	so := x.Sort
	signed := dtypeSigned(dt)
	switch so.K {
	case smt.KBV:
		switch op {
		case "Add":
			return st.BVAdd(x, y)
		case "Sub":
			return st.BVSub(x, y)
		case "Mul":
			return st.BVMul(x, y)
		case "Div":
			if signed {
				return st.BVSDiv(x, y)
			}
			return st.BVUDiv(x, y)
		case "Gt":
			if signed {
				return st.BVSLt(y, x)
			}
			return st.BVULt(y, x)
		case "Gte":
			if signed {
				return st.BVSLe(y, x)
			}
			return st.BVULe(y, x)
		case "Lt":
			if signed {
				return st.BVSLt(x, y)
			}
			return st.BVULt(x, y)
		case "Lte":
			if signed {
				return st.BVSLe(x, y)
			}
			return st.BVULe(x, y)
		case "ElEq":
			return st.Eq(x, y)
		}
	case smt.KFP32, smt.KFP64:
		switch op {
		case "Add":
			return st.FPAdd(x, y)
		case "Sub":
			return st.FPSub(x, y)
		case "Mul":
			return st.FPMul(x, y)
		case "Div":
			return st.FPDiv(x, y)
		case "Gt":
			return st.FPLt(y, x)
		case "Gte":
			return st.FPLe(y, x)
		case "Lt":
			return st.FPLt(x, y)
		case "Lte":
			return st.FPLe(x, y)
		case "ElEq":
			return st.FPEq(x, y)
		}
	case smt.KReal:
		switch op {
		case "Add":
			return st.RAdd(x, y)
		case "Sub":
			return st.RSub(x, y)
		case "Mul":
			return st.RMul(x, y)
		case "Div":
			return st.RDiv(x, y)
		case "Gt":
			return st.RLt(y, x)
		case "Gte":
			return st.RLe(y, x)
		case "Lt":
			return st.RLt(x, y)
		case "Lte":
			return st.RLe(x, y)
		case "ElEq":
			return st.Eq(x, y)
		}
	case smt.KBool:
		if op == "ElEq" {
			return st.Eq(x, y)
		}
	}
	panic(c.abort("scalarOp %s on %v", op, so))
}

func isCmp(op string) bool {
	switch op {
	case "Gt", "Gte", "Lt", "Lte", "ElEq":
		return true
	}
	return false
}

func (c *Ctx) finishResult(res tensor.Tensor, fo funcOpts, dt tensor.Dtype, terms []*smt.Term) *Shadow {
	rd := res.(*tensor.Dense)
	if fo.reuse != nil {
		c.writeLogical(fo.reuse, terms)
		return fo.reuse
	}
	if fo.unsafe {
		// the real call has overwritten one of its operands and returned that very object
		for _, cand := range fo.operands {
			if cand != nil && cand.twin == rd {
				if cand.dt != dt {
					panic(c.abort("UseUnsafe: result dtype %v written into operand of dtype %v", dt, cand.dt))
				}
				c.writeLogical(cand, terms)
				return cand
			}
		}
		panic(c.abort("UseUnsafe: the result is none of the operands (unmodelled)"))
	}
	n := c.newShadowFromTerms(dt, append([]int(nil), rd.Shape()...), terms)
	n.twin = rd
	if rd.Dtype() != dt {
		panic(c.abort("term builder dtype %v but gorgonia produced %v", dt, rd.Dtype()))
	}
	return n
}

func (c *Ctx) binaryTensorOp(op string, fn *ssa.Function, a []Value) Value {
	c.E.Stubs["tensor."+op]++
	x, y := c.operandOf(a[0]), c.operandOf(a[1])
	fo := c.funcOpts(a[2])
	fo.operands = []*Shadow{x.sh, y.sh}
	var res tensor.Tensor
	var err error
	if p := c.nativeCall(op, func() {
		switch op {
		case "Add":
			res, err = tensor.Add(x.native, y.native, fo.native...)
		case "Sub":
			res, err = tensor.Sub(x.native, y.native, fo.native...)
		case "Mul":
			res, err = tensor.Mul(x.native, y.native, fo.native...)
		case "Div":
			res, err = tensor.Div(x.native, y.native, fo.native...)
		case "Gt":
			res, err = tensor.Gt(x.native, y.native, fo.native...)
		case "Gte":
			res, err = tensor.Gte(x.native, y.native, fo.native...)
		case "Lt":
			res, err = tensor.Lt(x.native, y.native, fo.native...)
		case "Lte":
			res, err = tensor.Lte(x.native, y.native, fo.native...)
		case "ElEq":
			res, err = tensor.ElEq(x.native, y.native, fo.native...)
		}
	}); p != nil {
		panic(p)
	}
	if err != nil {
		return c.retTensorErr(nil, err, fn.Signature)
	}
	// gorgonia's contiguous float division kernel (vecf32/vecf64.Div) maps x/0 to +Inf for
	// every x, its iterator and scalar kernels divide the IEEE way: probe which one ran.
	zeroDivIsPosInf := false
	if op == "Div" && dtypeIsFloat(x.dt) && !c.Ring {
		zeroDivIsPosInf = c.probeFloatDiv(x, y, fo)
	}
	var xs, ys []*smt.Term
	n := 0
	if x.sh != nil {
		xs = c.logicalTerms(x.sh)
		n = len(xs)
	}
	if y.sh != nil {
		ys = c.logicalTerms(y.sh)
		n = len(ys)
	}
	if x.sh == nil && y.sh == nil {
		panic(c.abort("%s of two scalars", op))
	}
	if x.sh != nil && y.sh != nil && len(xs) != len(ys) {
		panic(c.abort("%s: operand sizes %d and %d but gorgonia accepted", op, len(xs), len(ys)))
	}
	dt := x.dt
	so, _ := c.elemSort(dt)
	// integer division by zero: gorgonia reports an error
	if op == "Div" && so.K == smt.KBV {
		anyZero := c.St.False()
		for i := 0; i < n; i++ {
			d := y.term
			if ys != nil {
				d = ys[i]
			}
			anyZero = c.St.Or(anyZero, c.St.Eq(d, c.St.BVC(so.W, 0)))
		}
		if c.branchOn(anyZero, "int-div-by-zero") {
			return c.retTensorErr(nil, errIntDivZero, fn.Signature)
		}
	}
	out := make([]*smt.Term, n)
	for i := 0; i < n; i++ {
		xe, ye := x.term, y.term
		if xs != nil {
			xe = xs[i]
		}
		if ys != nil {
			ye = ys[i]
		}
		if xe.Sort != ye.Sort && c.Ring {
			xe, ye = c.realOfConst(xe), c.realOfConst(ye)
		}
		if xe.Sort != ye.Sort {
			panic(c.abort("%s: element sorts %v vs %v but gorgonia accepted", op, xe.Sort, ye.Sort))
		}
		r := c.scalarOp(op, dt, xe, ye)
		if zeroDivIsPosInf {
			inf := c.St.F32C(float32(math.Inf(1)))
			if so.K == smt.KFP64 {
				inf = c.St.F64C(math.Inf(1))
			}
			r = c.St.Ite(c.St.FPEq(ye, c.St.Zero(so)), inf, r)
		}
		if isCmp(op) && fo.sameType {
			r = c.St.Ite(r, c.one(so), c.St.Zero(so))
		}
		out[i] = r
	}
	rdt := dt
	if isCmp(op) && !fo.sameType {
		rdt = tensor.Bool
	}
	return c.retTensorErr(c.finishResult(res, fo, rdt, out), nil, fn.Signature)
}

// fillTwin overwrites every element of a twin tensor (or returns the scalar to pass).
func fillTwin(o operand, val float64) (native interface{}, restore func()) {
	if o.sh == nil {
		if o.dt == tensor.Float32 {
			return float32(val), func() {}
		}
		return val, func() {}
	}
	t := o.sh.twin
	if t.IsScalar() {
		old := t.Get(0)
		if o.dt == tensor.Float32 {
			t.Set(0, float32(val))
		} else {
			t.Set(0, val)
		}
		return t, func() { t.Set(0, old) }
	}
	switch d := t.Data().(type) {
	case []float32:
		old := append([]float32(nil), d...)
		for i := range d {
			d[i] = float32(val)
		}
		return t, func() { copy(d, old) }
	case []float64:
		old := append([]float64(nil), d...)
		for i := range d {
			d[i] = val
		}
		return t, func() { copy(d, old) }
	}
	return t, func() {}
}

// probeFloatDiv runs the real division on -1 / 0 with the operands' own layout.
func (c *Ctx) probeFloatDiv(x, y operand, fo funcOpts) bool {
	nx, rx := fillTwin(x, -1)
	var ny interface{}
	ry := func() {}
	if y.sh != nil && x.sh != nil && y.sh.twin == x.sh.twin {
		// one tensor object as both operands: -1 / -1 cannot probe; treat the IEEE way only when
		// the kernel cannot be probed differently: probe with 0/0 instead
		rx()
		nx, rx = fillTwin(x, 0)
		ny = nx
	} else {
		ny, ry = fillTwin(y, 0)
	}
	defer rx()
	defer ry()
	var res tensor.Tensor
	var err error
	if p := c.nativeCall("Div(probe)", func() { res, err = tensor.Div(nx, ny, fo.native...) }); p != nil || err != nil {
		panic(c.abort("float division probe failed: %v %v", p, err))
	}
	rd := res.(*tensor.Dense)
	var first float64
	if rd.IsScalar() {
		switch v := rd.ScalarValue().(type) {
		case float32:
			first = float64(v)
		case float64:
			first = v
		}
	} else {
		switch d := rd.Data().(type) {
		case []float32:
			first = float64(d[0])
			for _, v := range d {
				if (float64(v) > 0) != (first > 0) || math.IsNaN(float64(v)) != math.IsNaN(first) {
					panic(c.abort("float division probe: mixed kernels"))
				}
			}
		case []float64:
			first = d[0]
			for _, v := range d {
				if (v > 0) != (first > 0) || math.IsNaN(v) != math.IsNaN(first) {
					panic(c.abort("float division probe: mixed kernels"))
				}
			}
		}
	}
	switch {
	case math.IsInf(first, 1):
		return true
	case math.IsInf(first, -1) || math.IsNaN(first):
		return false
	}
	panic(c.abort("float division probe: unexpected result %v", first))
}

type simpleErr string

func (e simpleErr) Error() string { return string(e) }

var errIntDivZero error = simpleErr("Error in indices (integer division by zero)")

func (c *Ctx) unaryTensorOp(op string, fn *ssa.Function, a []Value) Value {
	c.E.Stubs["tensor."+op]++
	s := c.asShadow(a[0])
	if s == nil {
		panic(c.goPanic("%s of nil tensor", op))
	}
	fo := c.funcOpts(a[1])
	fo.operands = []*Shadow{s}
	var res tensor.Tensor
	var err error
	if p := c.nativeCall(op, func() {
		switch op {
		case "Neg":
			res, err = tensor.Neg(s.twin, fo.native...)
		case "Abs":
			res, err = tensor.Abs(s.twin, fo.native...)
		case "Exp":
			res, err = tensor.Exp(s.twin, fo.native...)
		case "Tanh":
			res, err = tensor.Tanh(s.twin, fo.native...)
		case "Inv":
			res, err = tensor.Inv(s.twin, fo.native...)
		case "Square":
			res, err = tensor.Square(s.twin, fo.native...)
		case "Log":
			res, err = tensor.Log(s.twin, fo.native...)
		case "Sqrt":
			res, err = tensor.Sqrt(s.twin, fo.native...)
		}
	}); p != nil {
		panic(p)
	}
	if err != nil {
		return c.retTensorErr(nil, err, fn.Signature)
	}
	st := c.St
	xs := c.logicalTerms(s)
	out := make([]*smt.Term, len(xs))
	for i, x := range xs {
		switch op {
		case "Neg":
			switch x.Sort.K {
			case smt.KBV:
				out[i] = st.BVNeg(x)
			case smt.KReal:
				out[i] = st.RNeg(x)
			default:
				out[i] = st.FPNeg(x)
			}
		case "Abs":
			switch x.Sort.K {
			case smt.KBV:
				// gorgonia: if x < 0 { -x } else { x }
				out[i] = st.Ite(st.BVSLt(x, st.BVC(x.Sort.W, 0)), st.BVNeg(x), x)
			case smt.KReal:
				out[i] = st.Ite(st.RLt(x, st.RealI(0)), st.RNeg(x), x)
			default:
				out[i] = st.FPAbs(x)
			}
		case "Exp":
			out[i] = c.mathUF("exp", x)
		case "Tanh":
			out[i] = c.mathUF("tanh", x)
		case "Log":
			out[i] = c.mathUF("log", x)
		case "Sqrt":
			out[i] = c.mathUF("sqrt", x)
		case "Inv":
			// gorgonia: a[i] = 1 / a[i]
			switch x.Sort.K {
			case smt.KReal:
				out[i] = st.RDiv(st.RealI(1), x)
			case smt.KFP32, smt.KFP64:
				out[i] = st.FPDiv(c.one(x.Sort), x)
			default:
				panic(c.abort("Inv of integer tensor (native integer division by zero panics): unmodelled"))
			}
		case "Square":
			switch x.Sort.K {
			case smt.KBV:
				out[i] = st.BVMul(x, x)
			case smt.KReal:
				out[i] = st.RMul(x, x)
			default:
				out[i] = st.FPMul(x, x)
			}
		}
	}
	return c.retTensorErr(c.finishResult(res, fo, s.dt, out), nil, fn.Signature)
}

// mathUF applies the uninterpreted function standing for a math routine the way
// gorgonia's kernels call it: math32.X for float32 data, math.X for float64.
func (c *Ctx) mathUF(name string, x *smt.Term) *smt.Term {
	switch x.Sort.K {
	case smt.KFP32:
		return c.applyMath("m32."+name, x)
	case smt.KFP64:
		return c.applyMath(name, x)
	}
	if x.IsConst() && x.Sort.K == smt.KReal && x.R.Sign() == 0 {
		switch name {
		case "exp":
			return c.St.RealI(1)
		case "tanh":
			return c.St.RealI(0)
		}
	}
	return c.St.App(c.ufName(name, x.Sort), x.Sort, x)
}

func nativeIdentityFn(d tensor.Dtype) interface{} {
	ft := reflect.FuncOf([]reflect.Type{d.Type}, []reflect.Type{d.Type}, false)
	return reflect.MakeFunc(ft, func(in []reflect.Value) []reflect.Value { return in }).Interface()
}

func applyMethod(c *Ctx, s *Shadow, args []Value, sig *types.Signature) Value {
	iv, ok := args[0].(IfaceV)
	if !ok || iv.T == nil {
		panic(c.abort("Apply(nil)"))
	}
	cl, ok := iv.V.(*Closure)
	fsig, ok2 := iv.T.Underlying().(*types.Signature)
	if !ok || !ok2 || fsig.Params().Len() != 1 || fsig.Results().Len() != 1 {
		panic(c.abort("Apply with %s", typeString(iv.T)))
	}
	pb, ok := fsig.Params().At(0).Type().Underlying().(*types.Basic)
	if !ok {
		panic(c.abort("Apply with %s", typeString(iv.T)))
	}
	pd, _ := dtypeOfBasic(pb)
	rb, _ := fsig.Results().At(0).Type().Underlying().(*types.Basic)
	var natFn interface{}
	if rb != nil && rb.Kind() == pb.Kind() {
		natFn = nativeIdentityFn(pd)
	} else {
		natFn = func() {}
	}
	fo := c.funcOpts(args[1])
	fo.operands = []*Shadow{s}
	var res tensor.Tensor
	var err error
	if p := c.nativeCall("Apply", func() { res, err = s.twin.Apply(natFn, fo.native...) }); p != nil {
		panic(p)
	}
	if err != nil {
		return c.retTensorErr(nil, err, sig)
	}
	xs := c.logicalTerms(s)
	out := make([]*smt.Term, len(xs))
	for i, x := range xs {
		r := c.callClosure(cl, []Value{x}, nil)
		out[i] = r.(*smt.Term)
	}
	return c.retTensorErr(c.finishResult(res, fo, s.dt, out), nil, sig)
}

func (c *Ctx) addTerms(so smt.Sort, x, y *smt.Term) *smt.Term {
	switch so.K {
	case smt.KBV:
		return c.St.BVAdd(x, y)
	case smt.KReal:
		return c.St.RAdd(x, y)
	default:
		return c.St.FPAdd(x, y)
	}
}
func (c *Ctx) mulTerms(so smt.Sort, x, y *smt.Term) *smt.Term {
	switch so.K {
	case smt.KBV:
		return c.St.BVMul(x, y)
	case smt.KReal:
		return c.St.RMul(x, y)
	default:
		return c.St.FPMul(x, y)
	}
}

func (c *Ctx) matMul(fn *ssa.Function, a []Value) Value { return c.matMulOrDot(fn, a, false) }

// matMulOrDot: tensor.MatMul (matrices) and tensor.Dot (vector/matrix combinations). gorgonia's Dot computes
// vector x matrix by transposing its matrix operand IN PLACE for the duration of the call (b.T(); defer b.UT()):
// that header write is reported to the frame monitor.
func (c *Ctx) matMulOrDot(fn *ssa.Function, a []Value, dot bool) Value {
	name := "MatMul"
	if dot {
		name = "Dot"
	}
	c.E.Stubs["tensor."+name]++
	x, y := c.asShadow(a[0]), c.asShadow(a[1])
	if x == nil || y == nil {
		panic(c.goPanic(name + " with nil operand"))
	}
	fo := c.funcOpts(a[2])
	var res tensor.Tensor
	var err error
	if p := c.nativeCall(name, func() {
		if dot {
			res, err = tensor.Dot(x.twin, y.twin, fo.native...)
		} else {
			res, err = tensor.MatMul(x.twin, y.twin, fo.native...)
		}
	}); p != nil {
		panic(p)
	}
	if err != nil {
		return c.retTensorErr(nil, err, fn.Signature)
	}
	xs, ys := x.ids.Shape(), y.ids.Shape()
	var m, k, n int
	isVec := func(s tensor.Shape) bool { return len(s) == 1 || len(s) == 2 && (s[0] == 1 || s[1] == 1) }
	switch {
	case dot && len(xs) == 2 && isVec(xs) && len(ys) == 2 && !isVec(ys) && xs.TotalSize() == ys[0]:
		// Shape.IsVector() also holds for (1,k) and (k,1): Dot takes the vector x matrix route for them
		m, k, n = 1, ys[0], ys[1]
		c.noteMetaWrite(y, "T / UT in place (tensor.Dot, vector x matrix)")
	case len(xs) == 2 && len(ys) == 2 && xs[1] == ys[0]:
		m, k, n = xs[0], xs[1], ys[1]
	case dot && len(xs) == 1 && len(ys) == 2 && xs[0] == ys[0]:
		m, k, n = 1, xs[0], ys[1]
		c.noteMetaWrite(y, "T / UT in place (tensor.Dot, vector x matrix)")
	case dot && len(xs) == 2 && len(ys) == 1 && xs[1] == ys[0]:
		m, k, n = xs[0], xs[1], 1
	case dot && len(xs) == 1 && len(ys) == 1 && xs[0] == ys[0]:
		m, k, n = 1, xs[0], 1
	default:
		panic(c.abort("%s accepted shapes %v x %v: outside the model", name, xs, ys))
	}
	so, _ := c.elemSort(x.dt)
	if so.IsFP() && k > 1 {
		c.E.Assumptions["MatMul in ieee mode: dot products are summed left to right (BLAS order not modelled)"] = true
	}
	xt, yt := c.logicalTerms(x), c.logicalTerms(y)
	out := make([]*smt.Term, m*n)
	for i := 0; i < m; i++ {
		for j := 0; j < n; j++ {
			var acc *smt.Term
			for l := 0; l < k; l++ {
				p := c.mulTerms(so, xt[i*k+l], yt[l*n+j])
				if acc == nil {
					acc = p
				} else {
					acc = c.addTerms(so, acc, p)
				}
			}
			if acc == nil {
				acc = c.St.Zero(so)
			}
			out[i*n+j] = acc
		}
	}
	if res.Shape().TotalSize() != m*n {
		panic(c.abort("MatMul result %v for %v x %v", res.Shape(), xs, ys))
	}
	return c.retTensorErr(c.finishResult(res, fo, x.dt, out), nil, fn.Signature)
}

// reduce folds along the given axes (all axes when empty), in index order.
func (c *Ctx) reduce(s *Shadow, axes []int, f func(acc, x *smt.Term) *smt.Term) []*smt.Term {
	shape := s.ids.Shape()
	ts := c.logicalTerms(s)
	red := map[int]bool{}
	if len(axes) == 0 {
		for i := range shape {
			red[i] = true
		}
	}
	for _, a := range axes {
		red[a] = true
	}
	var outShape []int
	for i, d := range shape {
		if !red[i] {
			outShape = append(outShape, d)
		}
	}
	n := 1
	for _, d := range outShape {
		n *= d
	}
	out := make([]*smt.Term, n)
	for li, co := range coordsOf(shape) {
		oi := 0
		for i, d := range shape {
			if !red[i] {
				oi = oi*d + co[i]
			}
		}
		if out[oi] == nil {
			out[oi] = ts[li]
		} else {
			out[oi] = f(out[oi], ts[li])
		}
	}
	return out
}

func (c *Ctx) registerArith(tab map[string]intrinsicFn) {
	const P = "gorgonia.org/tensor."
	for _, op := range []string{"Add", "Sub", "Mul", "Div", "Gt", "Gte", "Lt", "Lte", "ElEq"} {
		op := op
		tab[P+op] = func(c *Ctx, fn *ssa.Function, a []Value) Value { return c.binaryTensorOp(op, fn, a) }
	}
	for _, op := range []string{"Neg", "Abs", "Exp", "Tanh", "Inv", "Square", "Log", "Sqrt"} {
		op := op
		tab[P+op] = func(c *Ctx, fn *ssa.Function, a []Value) Value { return c.unaryTensorOp(op, fn, a) }
	}
	tab[P+"MatMul"] = func(c *Ctx, fn *ssa.Function, a []Value) Value { return c.matMul(fn, a) }
	tab[P+"Dot"] = func(c *Ctx, fn *ssa.Function, a []Value) Value { return c.matMulOrDot(fn, a, true) }
	tab[P+"Sum"] = func(c *Ctx, fn *ssa.Function, a []Value) Value {
		c.E.Stubs["tensor.Sum"]++
		s := c.asShadow(a[0])
		axes := c.intsOf(a[1], "Sum axes")
		var res tensor.Tensor
		var err error
		if p := c.nativeCall("Sum", func() { res, err = tensor.Sum(s.twin, axes...) }); p != nil {
			panic(p)
		}
		if err != nil {
			return c.retTensorErr(nil, err, fn.Signature)
		}
		so, _ := c.elemSort(s.dt)
		if so.IsFP() {
			c.E.Assumptions["Sum in ieee mode: summed in index order"] = true
		}
		out := c.reduce(s, axes, func(acc, x *smt.Term) *smt.Term { return c.addTerms(so, acc, x) })
		if len(out) != res.Shape().TotalSize() {
			panic(c.abort("Sum: %d values for result shape %v", len(out), res.Shape()))
		}
		return c.retTensorErr(c.finishResult(res, funcOpts{}, s.dt, out), nil, fn.Signature)
	}
	c.registerReductions(tab)
}

// realOfConst: in exact real arithmetic a finite IEEE constant (built natively, e.g. by tensor.Ones or a scalar
// operand) means the same number as a real.
func (c *Ctx) realOfConst(t *smt.Term) *smt.Term {
	if !t.IsConst() || !t.Sort.IsFP() {
		return t
	}
	var f float64
	if t.Sort.K == smt.KFP32 {
		f = float64(t.F32Val())
	} else {
		f = t.F64Val()
	}
	if f != f || f-f != 0 {
		return t
	}
	return c.St.RealF(f)
}
