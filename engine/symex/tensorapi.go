package symex

import (
	"fmt"
	"go/types"
	"reflect"
	"strings"
	"unsafe"

	"verif/engine/smt"

	"golang.org/x/tools/go/ssa"
	"gorgonia.org/tensor"
)

func uintptrOf(p *int64) uintptr { return uintptr(unsafe.Pointer(p)) }

type natSlice struct{ s, e, st int }

func (n natSlice) Start() int { return n.s }
func (n natSlice) End() int   { return n.e }
func (n natSlice) Step() int  { return n.st }

func (c *Ctx) intsOf(v Value, why string) []int {
	s, ok := v.(SliceV)
	if !ok {
		panic(c.abort("expected []int, got %T (%s)", v, why))
	}
	out := make([]int, s.Len)
	for i := 0; i < s.Len; i++ {
		t := s.B.Load(c, s.Off+i).(*smt.Term)
		out[i] = int(c.concInt(t, why))
	}
	return out
}

func (c *Ctx) valuesOf(v Value) []Value {
	s, ok := v.(SliceV)
	if !ok {
		panic(c.abort("expected slice, got %T", v))
	}
	out := make([]Value, s.Len)
	for i := 0; i < s.Len; i++ {
		out[i] = s.B.Load(c, s.Off+i)
	}
	return out
}

func (c *Ctx) intSliceVal(xs []int) Value {
	b := &idArr{ids: make([]int64, len(xs)), sort: smt.BV(64)}
	for i, x := range xs {
		b.ids[i] = c.St.BVC(64, uint64(int64(x))).ID
	}
	return SliceV{B: b, Len: len(xs), Cap: len(xs)}
}

// nativeSlices converts interpreter tensor.Slice values to native ones.
func (c *Ctx) nativeSlices(v Value) []tensor.Slice {
	vals := c.valuesOf(v)
	out := make([]tensor.Slice, len(vals))
	for i, x := range vals {
		iv, ok := x.(IfaceV)
		if !ok {
			panic(c.abort("tensor.Slice value is %T", x))
		}
		if iv.T == nil {
			out[i] = nil
			continue
		}
		get := func(name string) int {
			fn := c.Prog.LookupMethod(iv.T, nil, name)
			if fn == nil {
				panic(c.abort("tensor.Slice implementation %s lacks %s", typeString(iv.T), name))
			}
			r := c.call(fn, []Value{iv.V}, nil)
			return int(c.concInt(r.(*smt.Term), "slice "+name))
		}
		out[i] = natSlice{get("Start"), get("End"), get("Step")}
	}
	return out
}

func (c *Ctx) retTensorErr(s *Shadow, err error, sig *types.Signature) Value {
	// (T, error) where T is an interface or *Dense
	var tv Value
	rt := sig.Results().At(0).Type()
	_, isIface := rt.Underlying().(*types.Interface)
	if err != nil || s == nil {
		if isIface {
			tv = IfaceV{}
		} else {
			tv = (*Shadow)(nil)
		}
		return TupleV{tv, c.natErr(err)}
	}
	if isIface {
		tv = c.tensorVal(s)
	} else {
		tv = s
	}
	return TupleV{tv, IfaceV{}}
}

type tensorMethod func(c *Ctx, s *Shadow, args []Value, sig *types.Signature) Value

var tensorMethods map[string]tensorMethod

func init() {
	tensorMethods = map[string]tensorMethod{
		"Shape": func(c *Ctx, s *Shadow, args []Value, sig *types.Signature) Value {
			a, b := []int(s.ids.Shape()), []int(s.twin.Shape())
			if len(a) == 0 {
				return SliceV{B: &nativeInts{a: a, b: b, own: s}}
			}
			return SliceV{B: &nativeInts{a: a, b: b, own: s}, Len: len(a), Cap: len(a)}
		},
		"Strides": func(c *Ctx, s *Shadow, args []Value, sig *types.Signature) Value {
			return c.intSliceVal(s.ids.Strides())
		},
		"Dims": func(c *Ctx, s *Shadow, args []Value, sig *types.Signature) Value {
			return c.St.BVC(64, uint64(s.ids.Dims()))
		},
		"Size": func(c *Ctx, s *Shadow, args []Value, sig *types.Signature) Value {
			return c.St.BVC(64, uint64(s.ids.Size()))
		},
		"DataSize": func(c *Ctx, s *Shadow, args []Value, sig *types.Signature) Value {
			return c.St.BVC(64, uint64(s.ids.DataSize()))
		},
		"Len": func(c *Ctx, s *Shadow, args []Value, sig *types.Signature) Value {
			return c.St.BVC(64, uint64(s.ids.Len()))
		},
		"IsScalar": func(c *Ctx, s *Shadow, args []Value, sig *types.Signature) Value {
			return c.St.BoolC(s.ids.IsScalar())
		},
		// layout predicates: answered by the twin (same layout as the id tensor, real dtype)
		"IsNativelyAccessible": func(c *Ctx, s *Shadow, args []Value, sig *types.Signature) Value {
			return c.St.BoolC(s.twin.IsNativelyAccessible())
		},
		"IsManuallyManaged": func(c *Ctx, s *Shadow, args []Value, sig *types.Signature) Value {
			return c.St.BoolC(s.twin.IsManuallyManaged())
		},
		"IsMasked": func(c *Ctx, s *Shadow, args []Value, sig *types.Signature) Value {
			return c.St.BoolC(s.twin.IsMasked())
		},
		"IsMaterializable": func(c *Ctx, s *Shadow, args []Value, sig *types.Signature) Value {
			return c.St.BoolC(s.twin.IsMaterializable())
		},
		"IsView": func(c *Ctx, s *Shadow, args []Value, sig *types.Signature) Value { return c.St.BoolC(s.twin.IsView()) },
		"IsMatrix": func(c *Ctx, s *Shadow, args []Value, sig *types.Signature) Value {
			return c.St.BoolC(s.twin.IsMatrix())
		},
		"IsVector": func(c *Ctx, s *Shadow, args []Value, sig *types.Signature) Value {
			return c.St.BoolC(s.twin.IsVector())
		},
		"IsRowVec": func(c *Ctx, s *Shadow, args []Value, sig *types.Signature) Value {
			return c.St.BoolC(s.twin.IsRowVec())
		},
		"IsColVec": func(c *Ctx, s *Shadow, args []Value, sig *types.Signature) Value {
			return c.St.BoolC(s.twin.IsColVec())
		},
		"RequiresIterator": func(c *Ctx, s *Shadow, args []Value, sig *types.Signature) Value {
			return c.St.BoolC(s.twin.RequiresIterator())
		},
		"DataOrder": func(c *Ctx, s *Shadow, args []Value, sig *types.Signature) Value {
			return c.St.BVC(8, uint64(s.twin.DataOrder()))
		},
		"Dtype": func(c *Ctx, s *Shadow, args []Value, sig *types.Signature) Value {
			return DtypeV{Idx: dtypeIndex(s.dt)}
		},
		"Data": func(c *Ctx, s *Shadow, args []Value, sig *types.Signature) Value {
			so, _ := c.elemSort(s.dt)
			bt := basicOfDtype(s.dt)
			if s.ids.IsScalar() {
				return IfaceV{T: bt, V: c.termOfID(s.ids.ScalarValue().(int64), so)}
			}
			d := s.ids.Data().([]int64)
			return IfaceV{T: types.NewSlice(bt), V: SliceV{B: &idArr{ids: d, sort: so, owner: s}, Len: len(d), Cap: len(d)}}
		},
		"Clone": func(c *Ctx, s *Shadow, args []Value, sig *types.Signature) Value {
			var n *Shadow
			if p := c.nativeCall("Clone", func() {
				n = &Shadow{ids: s.ids.Clone().(*tensor.Dense), twin: s.twin.Clone().(*tensor.Dense), dt: s.dt}
			}); p != nil {
				panic(p)
			}
			return c.tensorVal(n)
		},
		"Engine": func(c *Ctx, s *Shadow, args []Value, sig *types.Signature) Value {
			// every tensor of the harnesses and of gonnx is created on the default engine
			if _, ok := s.twin.Engine().(tensor.StdEng); !ok {
				panic(c.abort("tensor on an engine other than tensor.StdEng"))
			}
			T := c.lookupType("gorgonia.org/tensor", "StdEng")
			return IfaceV{T: T, V: c.zero(T)}
		},
		"ShallowClone": func(c *Ctx, s *Shadow, args []Value, sig *types.Signature) Value {
			// a new tensor object (own shape and strides) over the SAME elements
			var n *Shadow
			if p := c.nativeCall("ShallowClone", func() {
				n = &Shadow{ids: s.ids.ShallowClone(), twin: s.twin.ShallowClone(), dt: s.dt}
			}); p != nil {
				panic(p)
			}
			if sig != nil {
				if _, isIface := sig.Results().At(0).Type().Underlying().(*types.Interface); !isIface {
					return n // (*Dense).ShallowClone returns *Dense
				}
			}
			return c.tensorVal(n)
		},
		"Reshape": func(c *Ctx, s *Shadow, args []Value, sig *types.Signature) Value {
			dims := c.intsOf(args[0], "Reshape dims")
			c.noteMetaWrite(s, fmt.Sprintf("Reshape%v in place", dims))
			err := c.dual("Reshape", func() error { return s.ids.Reshape(dims...) }, func() error { return s.twin.Reshape(dims...) })
			c.checkShadow(s, "Reshape")
			return c.natErr(err)
		},
		"T": func(c *Ctx, s *Shadow, args []Value, sig *types.Signature) Value {
			axes := c.intsOf(args[0], "T axes")
			c.noteMetaWrite(s, "T in place")
			err := c.dual("T", func() error { return s.ids.T(axes...) }, func() error { return s.twin.T(axes...) })
			c.checkShadow(s, "T")
			return c.natErr(err)
		},
		"UT": func(c *Ctx, s *Shadow, args []Value, sig *types.Signature) Value {
			c.noteMetaWrite(s, "UT in place")
			if p := c.nativeCall("UT", func() { s.ids.UT(); s.twin.UT() }); p != nil {
				panic(p)
			}
			c.checkShadow(s, "UT")
			return nil
		},
		"Transpose": func(c *Ctx, s *Shadow, args []Value, sig *types.Signature) Value {
			c.noteMetaWrite(s, "Transpose in place")
			err := c.dual("Transpose", func() error { return s.ids.Transpose() }, func() error { return s.twin.Transpose() })
			return c.natErr(err)
		},
		"Slice": func(c *Ctx, s *Shadow, args []Value, sig *types.Signature) Value {
			sl := c.nativeSlices(args[0])
			var v1, v2 tensor.View
			err := c.dual("Slice", func() (e error) { v1, e = s.ids.Slice(sl...); return }, func() (e error) { v2, e = s.twin.Slice(sl...); return })
			if err != nil {
				return c.retTensorErr(nil, err, sig)
			}
			n := &Shadow{ids: v1.(*tensor.Dense), twin: v2.(*tensor.Dense), dt: s.dt}
			c.checkShadow(n, "Slice")
			return c.retTensorErr(n, nil, sig)
		},
		"Materialize": func(c *Ctx, s *Shadow, args []Value, sig *types.Signature) Value {
			var n *Shadow
			if p := c.nativeCall("Materialize", func() {
				n = &Shadow{ids: s.ids.Materialize().(*tensor.Dense), twin: s.twin.Materialize().(*tensor.Dense), dt: s.dt}
			}); p != nil {
				panic(p)
			}
			c.checkShadow(n, "Materialize")
			return c.tensorVal(n)
		},
		"At": func(c *Ctx, s *Shadow, args []Value, sig *types.Signature) Value {
			co := c.intsOf(args[0], "At coords")
			var v interface{}
			err := c.dual("At", func() (e error) { v, e = s.ids.At(co...); return }, func() (e error) { _, e = s.twin.At(co...); return })
			if err != nil {
				return TupleV{IfaceV{}, c.natErr(err)}
			}
			so, _ := c.elemSort(s.dt)
			return TupleV{IfaceV{T: basicOfDtype(s.dt), V: c.termOfID(v.(int64), so)}, IfaceV{}}
		},
		"SetAt": func(c *Ctx, s *Shadow, args []Value, sig *types.Signature) Value {
			co := c.intsOf(args[1], "SetAt coords")
			iv, ok := args[0].(IfaceV)
			if !ok || iv.T == nil {
				panic(c.abort("SetAt with value %s", describe(args[0])))
			}
			t, ok := iv.V.(*smt.Term)
			if !ok {
				panic(c.abort("SetAt with non-scalar %s", describe(iv.V)))
			}
			vb, ok := iv.T.Underlying().(*types.Basic)
			if !ok {
				panic(c.abort("SetAt with value of type %s", typeString(iv.T)))
			}
			vd, _ := dtypeOfBasic(vb)
			// the real SetAt panics/errs when the value's Go type is not the element type
			native := benignScalar(vd)
			if n, isNamed := iv.T.(*types.Named); isNamed {
				_ = n // a named type never matches gorgonia's type switch; model with a distinct native type
				native = namedBox{native}
			}
			c.noteDataWrite(s, "SetAt")
			sameType := vd == s.dt
			err := c.dual("SetAt", func() error {
				if !sameType {
					// ids tensor is int64 regardless; mirror the twin's behaviour below
					return nil
				}
				return s.ids.SetAt(t.ID, co...)
			}, func() error {
				e := s.twin.SetAt(native, co...)
				if !sameType && e == nil {
					panic(c.abort("SetAt: twin accepted a value of another type"))
				}
				if !sameType {
					return nil
				}
				return e
			})
			return c.natErr(err)
		},
		"Zero": func(c *Ctx, s *Shadow, args []Value, sig *types.Signature) Value {
			c.noteDataWrite(s, "Zero")
			if p := c.nativeCall("Zero", func() { s.ids.Zero(); s.twin.Zero() }); p != nil {
				panic(p)
			}
			return nil
		},
		"ScalarValue": func(c *Ctx, s *Shadow, args []Value, sig *types.Signature) Value {
			var id int64
			if p := c.nativeCall("ScalarValue", func() { id = s.ids.ScalarValue().(int64); _ = s.twin.ScalarValue() }); p != nil {
				panic(p)
			}
			so, _ := c.elemSort(s.dt)
			return IfaceV{T: basicOfDtype(s.dt), V: c.termOfID(id, so)}
		},
		"Iterator": func(c *Ctx, s *Shadow, args []Value, sig *types.Signature) Value {
			return IfaceV{T: c.iterT(), V: &IterV{it: s.ids.Iterator()}}
		},
		"Apply": applyMethod,
		"AddScalar": func(c *Ctx, s *Shadow, args []Value, sig *types.Signature) Value {
			b := c.operandOf(args[0])
			left := args[1].(*smt.Term)
			if !left.IsConst() {
				panic(c.abort("AddScalar: symbolic leftTensor"))
			}
			fo := c.funcOpts(args[2])
			fo.operands = []*Shadow{s}
			var res *tensor.Dense
			var err error
			if p := c.nativeCall("AddScalar", func() { res, err = s.twin.AddScalar(b.native, left.BoolVal(), fo.native...) }); p != nil {
				panic(p)
			}
			if err != nil {
				return c.retTensorErr(nil, err, sig)
			}
			var bt *smt.Term
			if b.sh != nil {
				bts := c.logicalTerms(b.sh)
				if len(bts) != 1 {
					panic(c.abort("AddScalar accepted a tensor of %d elements as scalar", len(bts)))
				}
				bt = bts[0]
			} else {
				bt = b.term
			}
			so, _ := c.elemSort(s.dt)
			xs := c.logicalTerms(s)
			out := make([]*smt.Term, len(xs))
			for i, x := range xs {
				if x.Sort != bt.Sort {
					panic(c.abort("AddScalar: sorts %v and %v but gorgonia accepted", x.Sort, bt.Sort))
				}
				if left.BoolVal() {
					out[i] = c.addTerms(so, x, bt)
				} else {
					out[i] = c.addTerms(so, bt, x)
				}
			}
			return c.retTensorErr(c.finishResult(res, fo, s.dt, out), nil, sig)
		},
		"Memset": func(c *Ctx, s *Shadow, args []Value, sig *types.Signature) Value {
			iv, ok := args[0].(IfaceV)
			if !ok || iv.T == nil {
				panic(c.abort("Memset(nil)"))
			}
			t, ok := iv.V.(*smt.Term)
			vb, ok2 := iv.T.Underlying().(*types.Basic)
			if !ok || !ok2 {
				panic(c.abort("Memset with %s", typeString(iv.T)))
			}
			vd, _ := dtypeOfBasic(vb)
			c.noteDataWrite(s, "Memset")
			var err error
			if p := c.nativeCall("Memset", func() { err = s.twin.Memset(benignScalar(vd)) }); p != nil {
				panic(p)
			}
			if err == nil {
				if vd != s.dt {
					panic(c.abort("Memset: twin accepted a value of another type"))
				}
				if s.ids.IsScalar() {
					s.ids.Set(0, t.ID)
				} else if e2 := s.ids.Memset(t.ID); e2 != nil {
					panic(c.abort("Memset on ids: %v", e2))
				}
			}
			return c.natErr(err)
		},
		"Get": func(c *Ctx, s *Shadow, args []Value, sig *types.Signature) Value {
			i := int(c.concInt(args[0].(*smt.Term), "Get index"))
			var id interface{}
			if p := c.nativeCall("Get", func() { id = s.ids.Get(i); _ = s.twin.Get(i) }); p != nil {
				panic(p)
			}
			so, _ := c.elemSort(s.dt)
			return IfaceV{T: basicOfDtype(s.dt), V: c.termOfID(id.(int64), so)}
		},
		"Set": func(c *Ctx, s *Shadow, args []Value, sig *types.Signature) Value {
			i := int(c.concInt(args[0].(*smt.Term), "Set index"))
			iv, ok := args[1].(IfaceV)
			if !ok || iv.T == nil {
				panic(c.abort("Set(nil)"))
			}
			t, ok := iv.V.(*smt.Term)
			vb, ok2 := iv.T.Underlying().(*types.Basic)
			if !ok || !ok2 {
				panic(c.abort("Set with %s", typeString(iv.T)))
			}
			vd, _ := dtypeOfBasic(vb)
			c.noteDataWrite(s, "Set")
			if p := c.nativeCall("Set", func() { s.twin.Set(i, benignScalar(vd)) }); p != nil {
				panic(p)
			}
			s.ids.Set(i, t.ID)
			return nil
		},
	}
}

type namedBox struct{ v interface{} }

// iterator methods
func (c *Ctx) iterMethod(it *IterV, name string, args []Value) Value {
	switch name {
	case "Reset":
		it.it.Reset()
		return nil
	case "Done":
		return c.St.BoolC(it.it.Done())
	case "Next":
		i, err := it.it.Next()
		return TupleV{c.St.BVC(64, uint64(int64(i))), c.natErr(err)}
	case "Start":
		i, err := it.it.Start()
		return TupleV{c.St.BVC(64, uint64(int64(i))), c.natErr(err)}
	case "Coord":
		co := it.it.Coord()
		return SliceV{B: &nativeInts{a: co}, Len: len(co), Cap: len(co)}
	}
	panic(c.abort("unmodelled iterator method %s", name))
}

// nativeMethod dispatches interface method calls on native handles.
func (c *Ctx) nativeMethod(iv IfaceV, name string) (func(c *Ctx, iv IfaceV, args []Value) Value, bool) {
	switch x := iv.V.(type) {
	case *Shadow:
		m, ok := tensorMethods[name]
		if !ok {
			panic(c.abort("unmodelled tensor method %s", name))
		}
		if x.abs {
			return func(c *Ctx, iv IfaceV, args []Value) Value { return c.absMethod(x, name) }, true
		}
		return func(c *Ctx, iv IfaceV, args []Value) Value {
			c.E.Stubs["tensor."+name]++
			fn := c.Prog.LookupMethod(iv.T, nil, name)
			var sig *types.Signature
			if fn != nil {
				sig = fn.Signature
			}
			return m(c, x, args, sig)
		}, true
	case *IterV:
		return func(c *Ctx, iv IfaceV, args []Value) Value { return c.iterMethod(x, name, args) }, true
	case *ErrV:
		switch name {
		case "Error":
			return func(c *Ctx, iv IfaceV, args []Value) Value { return x.Msg }, true
		case "Unwrap":
			return func(c *Ctx, iv IfaceV, args []Value) Value {
				if len(x.Wraps) > 0 {
					return x.Wraps[0]
				}
				return IfaceV{}
			}, true
		}
	case RTypeV:
		switch name {
		case "String", "Name":
			return func(c *Ctx, iv IfaceV, args []Value) Value { return x.Name }, true
		case "Kind", "Size":
			known := x.Kind
			if name == "Size" {
				known = x.Size
			}
			if known >= 0 {
				return func(c *Ctx, iv IfaceV, args []Value) Value { return c.St.BVC(64, uint64(known)) }, true
			}
			if x.Sym != nil {
				// a symbolic element type: the value is a function of its index in the dtype universe
				return func(c *Ctx, iv IfaceV, args []Value) Value {
					val := func(d tensor.Dtype) uint64 {
						if name == "Size" {
							return uint64(d.Size())
						}
						return uint64(d.Kind())
					}
					r := c.St.BVC(64, val(dtypeUniverse[len(dtypeUniverse)-1]))
					for i := len(dtypeUniverse) - 2; i >= 0; i-- {
						r = c.St.Ite(c.St.Eq(x.Sym, c.St.BVC(8, uint64(i))), c.St.BVC(64, val(dtypeUniverse[i])), r)
					}
					return r
				}, true
			}
		}
	}
	return nil, false
}

func (c *Ctx) implementsNative(iv IfaceV, it *types.Interface) bool {
	return false
}

// ---- constructors and options

func (c *Ctx) tensorNew(dt *tensor.Dtype, opts []Value) *Shadow {
	var shape []int
	haveShape := false
	var backing Value
	fortran := false // tensor.AsFortran: the backing is in column-major order
	var scalar Value
	var d tensor.Dtype
	haveD := false
	if dt != nil {
		d, haveD = *dt, true
	}
	for _, o := range opts {
		ov, ok := o.(OptV)
		if !ok {
			panic(c.abort("tensor.New option is %T", o))
		}
		switch ov.Kind {
		case "WithShape":
			shape = ov.Arg.([]int)
			haveShape = true
		case "WithBacking":
			backing = ov.Arg
		case "AsFortran":
			backing = ov.Arg
			fortran = true
		case "Of":
			d = dtypeUniverse[ov.Arg.(DtypeV).Idx]
			haveD = true
		case "FromScalar":
			scalar = ov.Arg
		case "WithEngine":
			// the default engine spelled out: what tensor.New uses anyway
		default:
			panic(c.abort("tensor.New option %s", ov.Kind))
		}
	}
	switch {
	case backing != nil:
		iv, ok := backing.(IfaceV)
		if !ok || iv.T == nil {
			panic(c.goPanic("tensor.New: WithBacking(nil)"))
		}
		sl, ok := iv.V.(SliceV)
		st, isSlice := iv.T.Underlying().(*types.Slice)
		if !ok || !isSlice {
			if bb, isB := iv.T.Underlying().(*types.Basic); isB {
				// a scalar handed to WithBacking: the real gorgonia decides (it panics: "Expected a slice")
				if bd, ok := dtypeOfBasic(bb); ok {
					if p := c.nativeCall("New(WithBacking(scalar))", func() { tensor.New(tensor.WithBacking(benignScalar(bd))) }); p != nil {
						panic(p)
					}
				}
			}
			panic(c.abort("WithBacking of %s", typeString(iv.T)))
		}
		eb, ok := st.Elem().Underlying().(*types.Basic)
		if !ok {
			panic(c.abort("WithBacking of %s", typeString(iv.T)))
		}
		ed, ok := dtypeOfBasic(eb)
		if !ok {
			panic(c.abort("WithBacking of %s", typeString(iv.T)))
		}
		if _, ok := c.elemSort(ed); !ok {
			panic(c.abort("WithBacking of %s is outside the model", typeString(iv.T)))
		}
		var idsBack []int64
		if sl.B != nil {
			ia, ok := sl.B.(*idArr)
			if !ok {
				panic(c.abort("WithBacking: backing array is %T", sl.B))
			}
			idsBack = ia.ids[sl.Off : sl.Off+sl.Len : sl.Off+sl.Cap]
		}
		if idsBack == nil {
			idsBack = []int64{}
		}
		twinBack := benignSlice(ed, sl.Len)
		var s *Shadow
		var o1, o2 []tensor.ConsOpt
		if haveShape {
			o1 = append(o1, tensor.WithShape(shape...))
			o2 = append(o2, tensor.WithShape(shape...))
		}
		if fortran {
			o1 = append(o1, tensor.AsFortran(idsBack))
			o2 = append(o2, tensor.AsFortran(twinBack))
		} else {
			o1 = append(o1, tensor.WithBacking(idsBack))
			o2 = append(o2, tensor.WithBacking(twinBack))
		}
		var t1, t2 *tensor.Dense
		err := c.dual("New(WithBacking)", func() error { t1 = tensor.New(o1...); return nil }, func() error { t2 = tensor.New(o2...); return nil })
		_ = err
		s = &Shadow{ids: t1, twin: t2, dt: ed}
		c.checkShadow(s, "New")
		return s
	case scalar != nil:
		iv, ok := scalar.(IfaceV)
		if !ok || iv.T == nil {
			panic(c.abort("FromScalar(nil)"))
		}
		t, ok := iv.V.(*smt.Term)
		eb, ok2 := iv.T.Underlying().(*types.Basic)
		if !ok || !ok2 {
			panic(c.abort("FromScalar of %s", typeString(iv.T)))
		}
		ed, _ := dtypeOfBasic(eb)
		s := &Shadow{dt: ed}
		if p := c.nativeCall("New(FromScalar)", func() {
			s.ids = tensor.New(tensor.FromScalar(t.ID))
			s.twin = tensor.New(tensor.FromScalar(benignScalar(ed)))
		}); p != nil {
			panic(p)
		}
		return s
	case haveD:
		if !haveShape {
			panic(c.abort("tensor.New(Of) without shape"))
		}
		return c.newShadowZero(d, shape)
	}
	panic(c.abort("tensor.New without backing or dtype"))
}

func (c *Ctx) resultTensor(s *Shadow, T types.Type) Value {
	if _, ok := T.Underlying().(*types.Interface); ok {
		return c.tensorVal(s)
	}
	return s
}

func (c *Ctx) registerTensorIntrinsics(tab map[string]intrinsicFn) {
	const P = "gorgonia.org/tensor."
	tab[P+"WithShape"] = func(c *Ctx, fn *ssa.Function, a []Value) Value {
		return OptV{Kind: "WithShape", Arg: c.intsOf(a[0], "WithShape")}
	}
	tab[P+"WithBacking"] = func(c *Ctx, fn *ssa.Function, a []Value) Value {
		return OptV{Kind: "WithBacking", Arg: a[0]}
	}
	tab[P+"Of"] = func(c *Ctx, fn *ssa.Function, a []Value) Value { return OptV{Kind: "Of", Arg: a[0]} }
	tab[P+"FromScalar"] = func(c *Ctx, fn *ssa.Function, a []Value) Value {
		return OptV{Kind: "FromScalar", Arg: a[0]}
	}
	tab[P+"WithReuse"] = func(c *Ctx, fn *ssa.Function, a []Value) Value {
		return OptV{Kind: "WithReuse", Arg: a[0]}
	}
	tab[P+"AsFortran"] = func(c *Ctx, fn *ssa.Function, a []Value) Value {
		// func AsFortran(backing interface{}, argMask ...[]bool) ConsOpt
		iv, ok := a[0].(IfaceV)
		if !ok {
			panic(c.abort("tensor.AsFortran(%T)", a[0]))
		}
		if len(a) > 1 {
			if m, ok := a[1].(SliceV); ok && m.Len > 0 {
				panic(c.abort("tensor.AsFortran with a mask"))
			}
		}
		return OptV{Kind: "AsFortran", Arg: iv}
	}
	tab[P+"WithEngine"] = func(c *Ctx, fn *ssa.Function, a []Value) Value {
		if iv, ok := a[0].(IfaceV); !ok || iv.T == nil || !strings.HasSuffix(typeString(iv.T), "tensor.StdEng") {
			panic(c.abort("tensor.WithEngine with an engine other than tensor.StdEng"))
		}
		return OptV{Kind: "WithEngine"}
	}
	tab[P+"AsSameType"] = func(c *Ctx, fn *ssa.Function, a []Value) Value { return OptV{Kind: "AsSameType"} }
	tab[P+"UseUnsafe"] = func(c *Ctx, fn *ssa.Function, a []Value) Value { return OptV{Kind: "UseUnsafe"} }
	tab[P+"New"] = func(c *Ctx, fn *ssa.Function, a []Value) Value {
		c.E.Stubs["tensor.New"]++
		return c.tensorNew(nil, c.valuesOf(a[0]))
	}
	tab[P+"NewDense"] = func(c *Ctx, fn *ssa.Function, a []Value) Value {
		c.E.Stubs["tensor.NewDense"]++
		d := a[0].(DtypeV)
		if d.Idx < 0 {
			panic(c.abort("NewDense with symbolic dtype"))
		}
		dt := dtypeUniverse[d.Idx]
		shape := c.intsOf(a[1], "NewDense shape")
		opts := []Value{OptV{Kind: "WithShape", Arg: shape}}
		opts = append(opts, c.valuesOf(a[2])...)
		return c.tensorNew(&dt, opts)
	}
	tab["(gorgonia.org/tensor.Shape).Clone"] = func(c *Ctx, fn *ssa.Function, a []Value) Value {
		s := a[0].(SliceV)
		xs := make([]int, s.Len)
		for i := range xs {
			xs[i] = int(c.concInt(s.B.Load(c, s.Off+i).(*smt.Term), "Shape.Clone"))
		}
		return c.intSliceVal(xs)
	}
	tab["(gorgonia.org/tensor.Shape).Eq"] = func(c *Ctx, fn *ssa.Function, a []Value) Value {
		x := tensor.Shape(c.intsOf(a[0], "Shape.Eq"))
		y := tensor.Shape(c.intsOf(a[1], "Shape.Eq"))
		return c.St.BoolC(x.Eq(y))
	}
	tab["(gorgonia.org/tensor.Shape).TotalSize"] = func(c *Ctx, fn *ssa.Function, a []Value) Value {
		x := tensor.Shape(c.intsOf(a[0], "Shape.TotalSize"))
		return c.St.BVC(64, uint64(x.TotalSize()))
	}
	tab["(gorgonia.org/tensor.Dtype).Name"] = func(c *Ctx, fn *ssa.Function, a []Value) Value {
		d := a[0].(DtypeV)
		if d.Idx < 0 {
			return "<symbolic dtype>"
		}
		return dtypeUniverse[d.Idx].Name()
	}
	tab["(gorgonia.org/tensor.Dtype).String"] = tab["(gorgonia.org/tensor.Dtype).Name"]
	// methods called statically on *Dense / *AP / *array
	for name, m := range tensorMethods {
		m := m
		h := func(c *Ctx, fn *ssa.Function, a []Value) Value {
			s := c.asShadow(a[0])
			if s == nil {
				panic(c.goPanic("nil *Dense receiver for %s", fn.Name()))
			}
			c.E.Stubs["tensor."+fn.Name()]++
			if s.abs {
				return c.absMethod(s, fn.Name())
			}
			return m(c, s, a[1:], fn.Signature)
		}
		tab["(*gorgonia.org/tensor.Dense)."+name] = h
		tab["(*gorgonia.org/tensor.AP)."+name] = h
		tab["(*gorgonia.org/tensor.array)."+name] = h
	}
	// typed element accessors d.GetF64(i) / d.SetF64(i, x) ...: the raw backing at flat position i
	for suffix, dt := range map[string]tensor.Dtype{"B": tensor.Bool, "F32": tensor.Float32, "F64": tensor.Float64, "I": tensor.Int, "I8": tensor.Int8, "I16": tensor.Int16,
		"I32": tensor.Int32, "I64": tensor.Int64, "U": tensor.Uint, "U8": tensor.Uint8, "U16": tensor.Uint16, "U32": tensor.Uint32, "U64": tensor.Uint64} {
		suffix, dt := suffix, dt
		get := func(c *Ctx, fn *ssa.Function, a []Value) Value {
			s := c.asShadow(a[0])
			if s == nil || s.abs || s.dt != dt {
				panic(c.abort("Get%s on a tensor that is not %v", suffix, dt))
			}
			c.E.Stubs["tensor.Get"+suffix]++
			i := int(c.concInt(a[1].(*smt.Term), "Get index"))
			var id interface{}
			if p := c.nativeCall("Get"+suffix, func() { id = s.ids.GetI64(i); _ = s.twin.Get(i) }); p != nil {
				panic(p)
			}
			so, _ := c.elemSort(s.dt)
			return c.termOfID(id.(int64), so)
		}
		set := func(c *Ctx, fn *ssa.Function, a []Value) Value {
			s := c.asShadow(a[0])
			if s == nil || s.abs || s.dt != dt {
				panic(c.abort("Set%s on a tensor that is not %v", suffix, dt))
			}
			c.E.Stubs["tensor.Set"+suffix]++
			i := int(c.concInt(a[1].(*smt.Term), "Set index"))
			t := a[2].(*smt.Term)
			c.noteDataWrite(s, "Set"+suffix)
			if p := c.nativeCall("Set"+suffix, func() { s.twin.Set(i, benignScalar(dt)); s.ids.SetI64(i, t.ID) }); p != nil {
				panic(p)
			}
			return nil
		}
		for _, recv := range []string{"(*gorgonia.org/tensor.Dense).", "(*gorgonia.org/tensor.array).", "(*gorgonia.org/tensor/internal/storage.Header)."} {
			tab[recv+"Get"+suffix] = get
			tab[recv+"Set"+suffix] = set
		}
	}
	// typed raw accessors of the storage header (d.Bools(), d.Float32s(), ...): the backing slice itself,
	// a 1-element slice for scalars
	for name, dt := range map[string]tensor.Dtype{"Bools": tensor.Bool, "Float32s": tensor.Float32, "Float64s": tensor.Float64,
		"Ints": tensor.Int, "Int8s": tensor.Int8, "Int16s": tensor.Int16, "Int32s": tensor.Int32, "Int64s": tensor.Int64,
		"Uints": tensor.Uint, "Uint8s": tensor.Uint8, "Uint16s": tensor.Uint16, "Uint32s": tensor.Uint32, "Uint64s": tensor.Uint64} {
		name, dt := name, dt
		tab["(*gorgonia.org/tensor/internal/storage.Header)."+name] = func(c *Ctx, fn *ssa.Function, a []Value) Value {
			s := c.asShadow(a[0])
			if s == nil {
				panic(c.goPanic("nil receiver for %s", name))
			}
			if s.abs || s.dt != dt {
				panic(c.abort("%s() on a tensor of dtype %v (reinterpreting raw memory is unmodelled)", name, s.dt))
			}
			c.E.Stubs["tensor."+name]++
			so, _ := c.elemSort(s.dt)
			d := s.ids.Int64s()
			return SliceV{B: &idArr{ids: d, sort: so, owner: s}, Len: len(d), Cap: len(d)}
		}
	}
	// ReturnTensor hands a tensor back to the library's pool: its data and metadata are cleared and the
	// object may be handed out again - a write to everything the tensor owns
	tab[P+"ReturnTensor"] = func(c *Ctx, fn *ssa.Function, a []Value) Value {
		c.E.Stubs["tensor.ReturnTensor"]++
		s := c.asShadow(a[0])
		if s == nil {
			return nil
		}
		c.noteDataWrite(s, "ReturnTensor")
		c.noteMetaWrite(s, "ReturnTensor")
		if p := c.nativeCall("ReturnTensor", func() { tensor.ReturnTensor(s.ids); tensor.ReturnTensor(s.twin) }); p != nil {
			panic(p)
		}
		return nil
	}
	tab[P+"Transpose"] = func(c *Ctx, fn *ssa.Function, a []Value) Value {
		c.E.Stubs["tensor.Transpose"]++
		s := c.asShadow(a[0])
		axes := c.intsOf(a[1], "Transpose axes")
		var r1, r2 tensor.Tensor
		err := c.dual("Transpose", func() (e error) { r1, e = tensor.Transpose(s.ids, axes...); return }, func() (e error) { r2, e = tensor.Transpose(s.twin, axes...); return })
		if err != nil {
			return c.retTensorErr(nil, err, fn.Signature)
		}
		n := &Shadow{ids: r1.(*tensor.Dense), twin: r2.(*tensor.Dense), dt: s.dt}
		c.checkShadow(n, "Transpose")
		return c.retTensorErr(n, nil, fn.Signature)
	}
	tab[P+"Repeat"] = func(c *Ctx, fn *ssa.Function, a []Value) Value {
		c.E.Stubs["tensor.Repeat"]++
		s := c.asShadow(a[0])
		axis := int(c.concInt(a[1].(*smt.Term), "Repeat axis"))
		reps := c.intsOf(a[2], "Repeat repeats")
		var r1, r2 tensor.Tensor
		err := c.dual("Repeat", func() (e error) { r1, e = tensor.Repeat(s.ids, axis, reps...); return }, func() (e error) { r2, e = tensor.Repeat(s.twin, axis, reps...); return })
		if err != nil {
			return c.retTensorErr(nil, err, fn.Signature)
		}
		n := &Shadow{ids: r1.(*tensor.Dense), twin: r2.(*tensor.Dense), dt: s.dt}
		c.checkShadow(n, "Repeat")
		return c.retTensorErr(n, nil, fn.Signature)
	}
	tab[P+"Concat"] = func(c *Ctx, fn *ssa.Function, a []Value) Value {
		c.E.Stubs["tensor.Concat"]++
		axis := int(c.concInt(a[0].(*smt.Term), "Concat axis"))
		first := c.asShadow(a[1])
		var o1, o2 []tensor.Tensor
		for _, x := range c.valuesOf(a[2]) {
			s := c.asShadow(x)
			if s == nil {
				panic(c.goPanic("Concat with nil tensor"))
			}
			o1 = append(o1, s.ids)
			o2 = append(o2, s.twin)
		}
		var r1, r2 tensor.Tensor
		err := c.dual("Concat", func() (e error) { r1, e = tensor.Concat(axis, first.ids, o1...); return }, func() (e error) { r2, e = tensor.Concat(axis, first.twin, o2...); return })
		if err != nil {
			return c.retTensorErr(nil, err, fn.Signature)
		}
		n := &Shadow{ids: r1.(*tensor.Dense), twin: r2.(*tensor.Dense), dt: first.dt}
		c.checkShadow(n, "Concat")
		return c.retTensorErr(n, nil, fn.Signature)
	}
	c.registerArith(tab)
}

var _ = reflect.TypeOf
