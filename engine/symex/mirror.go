package symex

import (
	"fmt"
	"go/types"
	"os"
	"path/filepath"
	"reflect"

	"verif/engine/smt"

	"github.com/advancedclimatesystems/gonnx/onnx"
	"golang.org/x/tools/go/ssa"
	"google.golang.org/protobuf/proto"
)

// Mirroring natively decoded protobuf messages into the interpreter heap: the
// sample .onnx files are decoded by the real protobuf runtime (not encodable)
// and the resulting structs are rebuilt as interpreter values, guided by the
// go/types description of the same struct types.

func (c *Ctx) mirror(rv reflect.Value, T types.Type) Value {
	switch t := T.Underlying().(type) {
	case *types.Basic:
		switch rv.Kind() {
		case reflect.Bool:
			return c.St.BoolC(rv.Bool())
		case reflect.String:
			return rv.String()
		case reflect.Int, reflect.Int8, reflect.Int16, reflect.Int32, reflect.Int64:
			return c.St.BVC(intWidth(t), uint64(rv.Int()))
		case reflect.Uint, reflect.Uint8, reflect.Uint16, reflect.Uint32, reflect.Uint64:
			return c.St.BVC(intWidth(t), rv.Uint())
		case reflect.Float32, reflect.Float64:
			if c.Ring {
				return c.St.RealF(rv.Float())
			}
			if rv.Kind() == reflect.Float32 {
				return c.St.F32C(float32(rv.Float()))
			}
			return c.St.F64C(rv.Float())
		}
		return c.zero(T)
	case *types.Pointer:
		if rv.IsNil() {
			return (*Value)(nil)
		}
		slot := new(Value)
		*slot = c.mirror(rv.Elem(), t.Elem())
		return slot
	case *types.Struct:
		sv := make(StructV, t.NumFields())
		for i := 0; i < t.NumFields(); i++ {
			f := t.Field(i)
			if !f.Exported() {
				sv[i] = c.zero(f.Type())
				continue
			}
			sv[i] = c.mirror(rv.FieldByName(f.Name()), f.Type())
		}
		return sv
	case *types.Slice:
		if rv.IsNil() {
			return SliceV{}
		}
		n := rv.Len()
		b := c.newBacking(t.Elem(), n)
		for i := 0; i < n; i++ {
			b.Store(c, i, c.mirror(rv.Index(i), t.Elem()))
		}
		return SliceV{B: b, Len: n, Cap: n}
	case *types.Interface:
		if rv.IsNil() {
			return IfaceV{}
		}
		dyn := rv.Elem()
		rt := dyn.Type()
		if rt.Kind() == reflect.Ptr && rt.Elem().PkgPath() == gonnxPath+"/onnx" {
			named := c.lookupType(gonnxPath+"/onnx", rt.Elem().Name())
			pt := types.NewPointer(named)
			return IfaceV{T: pt, V: c.mirror(dyn, pt)}
		}
		panic(c.abort("mirror: interface holding %v", rt))
	}
	panic(c.abort("mirror: unsupported type %v", T))
}

func (c *Ctx) registerSample(tab map[string]intrinsicFn) {
	tab[gonnxPath+".zzSampleModelProto"] = func(c *Ctx, fn *ssa.Function, a []Value) Value {
		name := c.str(a[0])
		b, err := os.ReadFile(filepath.Join(c.E.World.RepoDir, "sample_models", "onnx_models", name+".onnx"))
		if err != nil {
			panic(c.abort("sample model: %v", err))
		}
		mp := &onnx.ModelProto{}
		if err := proto.Unmarshal(b, mp); err != nil {
			panic(c.abort("sample model %s: %v", name, err))
		}
		c.E.Stubs["proto.Unmarshal(sample model, natively)"]++
		T := types.NewPointer(c.lookupType(gonnxPath+"/onnx", "ModelProto"))
		return c.mirror(reflect.ValueOf(mp), T)
	}
}

var _ = fmt.Sprint
var _ = smt.Bool
