// Package symex: a symbolic interpreter for the SSA form of gonnx.
package symex

import (
	"fmt"
	"go/types"
	"strings"

	"verif/engine/smt"

	"golang.org/x/tools/go/ssa"
)

// Value is one of:
//
//	*smt.Term            bool / integer / float scalar (constant or symbolic)
//	string               Go string
//	FreshStr             a string unequal to every literal of the program
//	StructV, ArrayV      aggregates with value semantics (copied on load/store)
//	SliceV               {backing, off, len, cap}
//	*Value / ElemRef     pointers
//	*MapV                maps
//	IfaceV               interface value {dynamic type, value}
//	*Closure             function values
//	TupleV               multi-value results
//	native handles       *Shadow, DtypeV, *IterV, OptV, *ErrV, RTypeV
type Value interface{}

type StructV []Value
type ArrayV []Value

// ScalarArr is a fixed-size array of scalars (term ids), value semantics.
type ScalarArr struct{ A *idArr }
type TupleV []Value

type FreshStr struct{ Name string }

type IfaceV struct {
	T types.Type // nil => nil interface
	V Value
}

type Closure struct {
	Fn  *ssa.Function
	Env []Value
	// Native, when non-nil, is an engine-provided function value.
	Native func(c *Ctx, args []Value) Value
	Name   string
}

// Backing is the storage behind slices of scalars.
type Backing interface {
	Cap() int
	Load(c *Ctx, i int) Value
	Store(c *Ctx, i int, v Value)
	Addr(i int) Value // pointer to element i
}

type SliceV struct {
	B   Backing
	Off int
	Len int
	Cap int
}

func (s SliceV) IsNil() bool { return s.B == nil }

// boxArr: boxed values (strings, pointers, structs, interfaces, ...).
type boxArr struct{ a []Value }

func (b *boxArr) Cap() int                 { return len(b.a) }
func (b *boxArr) Load(c *Ctx, i int) Value { return copyVal(b.a[i]) }
func (b *boxArr) Store(c *Ctx, i int, v Value) {
	c.noteSlotWrite(&b.a[i])
	storeInto(&b.a[i], v)
}
func (b *boxArr) Addr(i int) Value { return &b.a[i] }

// idArr: scalar elements kept as term ids in a native []int64, so that the
// very same memory can back a shadow tensor (gorgonia's WithBacking aliases).
type idArr struct {
	ids  []int64
	sort smt.Sort
	// owner, when set, is the shadow tensor whose ids-array this is (frame monitor)
	owner *Shadow
}

func (b *idArr) Cap() int { return len(b.ids) }
func (b *idArr) Load(c *Ctx, i int) Value {
	return c.termOfID(b.ids[i], b.sort)
}
func (b *idArr) Store(c *Ctx, i int, v Value) {
	t := v.(*smt.Term)
	if t.Sort != b.sort {
		panic(c.abort("idArr store: sort %v into array of %v", t.Sort, b.sort))
	}
	c.noteWrite(b.ids, i)
	if name, ok := c.watchArrs[b]; ok {
		c.writes = append(c.writes, fmt.Sprintf("%s: element store @ %s", name, c.where()))
	}
	b.ids[i] = t.ID
}
func (b *idArr) Addr(i int) Value { return ElemRef{B: b, I: i} }

// nativeInts: a []int owned by gorgonia (Shape()); stores write through to
// both the ids tensor's and the twin's slice.
type nativeInts struct {
	a, b []int // b may be nil
	own  *Shadow
}

func (n *nativeInts) Cap() int { return len(n.a) }
func (n *nativeInts) Load(c *Ctx, i int) Value {
	return c.St.BVC(64, uint64(int64(n.a[i])))
}
func (n *nativeInts) Store(c *Ctx, i int, v Value) {
	x := int(c.concInt(v.(*smt.Term), "store into a gorgonia-owned []int"))
	if n.own != nil {
		c.noteMetaWrite(n.own, "store into Shape() alias")
	}
	n.a[i] = x
	if n.b != nil {
		n.b[i] = x
	}
}
func (n *nativeInts) Addr(i int) Value { return ElemRef{B: n, I: i} }

type ElemRef struct {
	B Backing
	I int
}

type mapEntry struct {
	K, V Value
}
type MapV struct {
	KeyT, ValT types.Type
	M          map[string]*mapEntry
	Order      []string
}

// TupleV for comma-ok etc.

// ---- native handles

type DtypeV struct {
	Idx int       // index into the dtype universe, or -1 when symbolic
	Sym *smt.Term // BV8 index when symbolic
}

type OptV struct {
	Kind string // "WithShape","WithBacking","Of","WithReuse","AsSameType","FromScalar"
	Arg  Value
}

type RTypeV struct {
	Name string
	Kind int // reflect.Kind when known (element types of the tensor library), else -1
	Size int
	Sym  *smt.Term // BV8 index into the dtype universe when the dtype is symbolic
}

// RValV stands for a reflect.Value wrapping an interface value.
type RValV struct{ V IfaceV }

type ErrV struct {
	Msg   string
	Wraps []Value // IfaceV error values wrapped with %w
	Nat   error   // native error (io.EOF, gorgonia errors)
}

// ---- helpers

func copyVal(v Value) Value {
	switch x := v.(type) {
	case StructV:
		n := make(StructV, len(x))
		for i := range x {
			n[i] = copyVal(x[i])
		}
		return n
	case ArrayV:
		n := make(ArrayV, len(x))
		for i := range x {
			n[i] = copyVal(x[i])
		}
		return n
	case ScalarArr:
		return ScalarArr{A: &idArr{ids: append([]int64(nil), x.A.ids...), sort: x.A.sort}}
	}
	return v
}

// storeInto writes v into slot keeping aggregate identity (so pointers to
// fields stay valid).
func storeInto(slot *Value, v Value) {
	switch x := v.(type) {
	case StructV:
		if cur, ok := (*slot).(StructV); ok && len(cur) == len(x) {
			for i := range x {
				storeInto(&cur[i], x[i])
			}
			return
		}
		*slot = copyVal(x)
	case ArrayV:
		if cur, ok := (*slot).(ArrayV); ok && len(cur) == len(x) {
			for i := range x {
				storeInto(&cur[i], x[i])
			}
			return
		}
		*slot = copyVal(x)
	case ScalarArr:
		if cur, ok := (*slot).(ScalarArr); ok && len(cur.A.ids) == len(x.A.ids) {
			copy(cur.A.ids, x.A.ids)
			return
		}
		*slot = copyVal(x)
	default:
		*slot = v
	}
}

func isNumericBasic(T types.Type) (smtKind bool, b *types.Basic) {
	bb, ok := T.Underlying().(*types.Basic)
	if !ok {
		return false, nil
	}
	if bb.Info()&(types.IsBoolean|types.IsInteger|types.IsFloat) != 0 {
		return true, bb
	}
	return false, bb
}

func isSigned(T types.Type) bool {
	b, ok := T.Underlying().(*types.Basic)
	if !ok {
		return false
	}
	return b.Info()&types.IsInteger != 0 && b.Info()&types.IsUnsigned == 0
}

func intWidth(b *types.Basic) int {
	switch b.Kind() {
	case types.Int8, types.Uint8:
		return 8
	case types.Int16, types.Uint16:
		return 16
	case types.Int32, types.Uint32:
		return 32
	case types.Int, types.Int64, types.Uint, types.Uint64, types.Uintptr, types.UntypedInt, types.UntypedRune:
		return 64
	}
	return 0
}

// sortOf maps a Go scalar type to its SMT sort under the context's float mode.
func (c *Ctx) sortOf(T types.Type) (smt.Sort, bool) {
	b, ok := T.Underlying().(*types.Basic)
	if !ok {
		return smt.Sort{}, false
	}
	switch {
	case b.Info()&types.IsBoolean != 0:
		return smt.Bool, true
	case b.Info()&types.IsInteger != 0:
		return smt.BV(intWidth(b)), true
	case b.Kind() == types.Float32:
		if c.Ring {
			return smt.Real, true
		}
		return smt.FP32, true
	case b.Kind() == types.Float64 || b.Kind() == types.UntypedFloat:
		if c.Ring {
			return smt.Real, true
		}
		return smt.FP64, true
	}
	return smt.Sort{}, false
}

func (c *Ctx) zero(T types.Type) Value {
	switch t := T.Underlying().(type) {
	case *types.Basic:
		if so, ok := c.sortOf(T); ok {
			return c.St.Zero(so)
		}
		if t.Info()&types.IsString != 0 {
			return ""
		}
		if t.Kind() == types.UnsafePointer {
			return (*Value)(nil)
		}
		if t.Info()&types.IsComplex != 0 {
			return "complex-zero"
		}
		panic(c.abort("zero of basic %v", t))
	case *types.Struct:
		if isDtype(T) {
			return DtypeV{Idx: -2}
		}
		s := make(StructV, t.NumFields())
		for i := range s {
			s[i] = c.zero(t.Field(i).Type())
		}
		return s
	case *types.Array:
		if so, ok := c.sortOf(t.Elem()); ok {
			return ScalarArr{A: &idArr{ids: make([]int64, t.Len()), sort: so}}
		}
		a := make(ArrayV, t.Len())
		for i := range a {
			a[i] = c.zero(t.Elem())
		}
		return a
	case *types.Pointer:
		return (*Value)(nil)
	case *types.Slice:
		return SliceV{}
	case *types.Map:
		return (*MapV)(nil)
	case *types.Interface:
		return IfaceV{}
	case *types.Signature:
		return (*Closure)(nil)
	case *types.Chan:
		return nil
	case *types.Tuple:
		tv := make(TupleV, t.Len())
		for i := range tv {
			tv[i] = c.zero(t.At(i).Type())
		}
		return tv
	}
	panic(c.abort("zero of %v", T))
}

func isDtype(T types.Type) bool {
	n, ok := T.(*types.Named)
	if !ok {
		return false
	}
	o := n.Obj()
	return o.Name() == "Dtype" && o.Pkg() != nil && o.Pkg().Path() == "gorgonia.org/tensor"
}

// newArray allocates a backing for n elements of type elem.
func (c *Ctx) newBacking(elem types.Type, n int) Backing {
	if so, ok := c.sortOf(elem); ok {
		return &idArr{ids: make([]int64, n), sort: so}
	}
	a := make([]Value, n)
	for i := range a {
		a[i] = c.zero(elem)
	}
	return &boxArr{a: a}
}

func (c *Ctx) termOfID(id int64, so smt.Sort) *smt.Term {
	if id == 0 {
		return c.St.Zero(so)
	}
	t := c.St.ByID(id)
	if t == nil {
		panic(c.abort("dangling term id %d", id))
	}
	if t.Sort != so {
		// package-level float data is built (in IEEE terms) before a harness switches to exact real arithmetic:
		// a finite constant means the same number there
		if so.K == smt.KReal && t.IsConst() && t.Sort.IsFP() {
			var f float64
			if t.Sort.K == smt.KFP32 {
				f = float64(t.F32Val())
			} else {
				f = t.F64Val()
			}
			if f == f && f-f == 0 {
				return c.St.RealF(f)
			}
		}
		panic(c.abort("term id %d has sort %v, array wants %v", id, t.Sort, so))
	}
	return t
}

func typeString(T types.Type) string {
	return types.TypeString(T, nil)
}

func describe(v Value) string {
	switch x := v.(type) {
	case nil:
		return "nil"
	case *smt.Term:
		return fmt.Sprintf("term#%d", x.ID)
	case string:
		return fmt.Sprintf("%q", x)
	case IfaceV:
		if x.T == nil {
			return "nil-iface"
		}
		return "iface(" + typeString(x.T) + ")"
	case StructV:
		var p []string
		for _, f := range x {
			p = append(p, describe(f))
		}
		return "{" + strings.Join(p, ",") + "}"
	}
	return fmt.Sprintf("%T", v)
}
