package symex

import (
	"fmt"
	"sort"
	"strings"
	"time"

	"verif/engine/smt"

	"golang.org/x/tools/go/ssa"
)

// Failure is one assertion (or implicit no-panic assertion) that the solver
// showed violable, with the witness model.
type Failure struct {
	Label    string            `json:"label"`
	Site     string            `json:"site"`
	Detail   string            `json:"detail,omitempty"`
	Model    map[string]string `json:"model"`
	Regions  []string          `json:"regions,omitempty"`
	Known    string            `json:"known,omitempty"` // region name when covered by a listed finding
	Prefix   []uint64          `json:"prefix,omitempty"`
	PanicMsg string            `json:"panic,omitempty"`
}

type Inconclusive struct {
	What string `json:"what"`
	Site string `json:"site"`
}

type region struct {
	name string
	cond *smt.Term
}

// Explorer explores all paths of one harness on one structural case.
type Explorer struct {
	Prog     *ssa.Program
	Harness  *ssa.Function
	Case     map[string]interface{}
	St       *smt.Store
	Sol      *smt.Session
	Known    map[string]bool // region names listed as known findings for this property
	Concrete map[string]string
	MaxPaths int
	MaxSteps int
	Ring     bool

	// results
	Paths            int
	Forks            int
	Failures         []Failure
	Incon            []Inconclusive
	AssertsTotal     int
	AssertsTriv      int
	AssertsSMT       int
	Reached          map[string]int // label -> times reached on a feasible path
	Funcs            map[string]int
	Steps            int
	Assumptions      map[string]bool
	Stubs            map[string]int
	SymNames         []string
	Observed         []string // concrete-mode observations
	PanicsSeen       []string
	RingUsed         bool
	BoundaryStops    int
	OneShotTimeoutMs int
	OneShotBudget    time.Duration // cap on the total time of escalated runs of this job (0 = none)
	OneShotQueries   int
	OneShotDecided   int
	OneShotTime      time.Duration
	SymKinds         map[string]string   // symbol name -> "bv<w>s" / "bv<w>u" / "f32" / "f64" / "bool"
	SymRanges        map[string][2]int64 // symbols created through IntIn/Int64In
	World            *World
	NoMerge          bool
	work             [][]uint64
}

type Ctx struct {
	E         *Explorer
	Prog      *ssa.Program
	St        *smt.Store
	Sol       *smt.Session
	Ring      bool
	MapOrder  bool
	MapOrders bool

	globals   map[*ssa.Global]*Value
	atomics   map[*Value]Value // sync/atomic cells (by address)
	syncMaps  map[*Value]interface{}
	syncOrder map[*Value]*[]string
	pools     map[*Value][]Value // sync.Pool contents per pool address
	stack     []string
	Steps     int
	MaxSteps  int
	Funcs     map[string]int
	inInit    int

	pc       []*smt.Term
	prefix   []uint64
	dpos     int
	taken    []uint64
	regions  []region
	named    []*smt.Term // symbols created through the harness API
	namedSet map[string]bool
	dead     bool

	lastPanic      *PanicV
	eof            *ErrV
	watchSlots     map[*Value]string
	watchMaps      map[*MapV]string
	watchArrs      map[*idArr]string
	NoMerge        bool
	stopAtBoundary bool
	axiomDone      map[int64]bool
	bitsOf         map[int64]*smt.Term // math.Float32bits/Float64bits: bit-pattern symbol per float term
	spec           int
	// frame monitor
	protected map[*Shadow]string
	writes    []string
	fresh     int
}

func (e *Explorer) newCtx(prefix []uint64) *Ctx {
	c := &Ctx{E: e, Prog: e.Prog, St: e.St, Sol: e.Sol, Ring: e.Ring,
		globals: map[*ssa.Global]*Value{}, MaxSteps: e.MaxSteps, Funcs: e.Funcs,
		prefix: prefix, namedSet: map[string]bool{}, protected: map[*Shadow]string{}, NoMerge: e.NoMerge}
	if c.MaxSteps == 0 {
		c.MaxSteps = 20_000_000
	}
	return c
}

// Run explores every path. Engine limitations are recorded in Incon.
func (e *Explorer) Run() {
	if e.MaxPaths == 0 {
		e.MaxPaths = 40000
	}
	if e.Reached == nil {
		e.Reached = map[string]int{}
	}
	if e.Funcs == nil {
		e.Funcs = map[string]int{}
	}
	if e.Assumptions == nil {
		e.Assumptions = map[string]bool{}
	}
	if e.Stubs == nil {
		e.Stubs = map[string]int{}
	}
	if e.SymKinds == nil {
		e.SymKinds = map[string]string{}
		e.SymRanges = map[string][2]int64{}
	}
	e.work = [][]uint64{nil}
	for len(e.work) > 0 {
		if e.Paths >= e.MaxPaths {
			e.Incon = append(e.Incon, Inconclusive{What: fmt.Sprintf("path limit %d reached with %d prefixes pending", e.MaxPaths, len(e.work))})
			return
		}
		prefix := e.work[len(e.work)-1]
		e.work = e.work[:len(e.work)-1]
		e.runPath(prefix)
	}
}

// Init prepares the result maps (for callers that schedule paths themselves).
func (e *Explorer) Init() {
	if e.Reached == nil {
		e.Reached = map[string]int{}
	}
	if e.Funcs == nil {
		e.Funcs = map[string]int{}
	}
	if e.Assumptions == nil {
		e.Assumptions = map[string]bool{}
	}
	if e.Stubs == nil {
		e.Stubs = map[string]int{}
	}
	if e.SymKinds == nil {
		e.SymKinds = map[string]string{}
		e.SymRanges = map[string][2]int64{}
	}
}

// RunOne explores one path (identified by its decision prefix) and returns the
// prefixes of the alternatives discovered along it.
func (e *Explorer) RunOne(prefix []uint64) [][]uint64 {
	e.work = nil
	e.runPath(prefix)
	w := e.work
	e.work = nil
	return w
}

// Merge adds the results of another explorer of the same job.
func (e *Explorer) Merge(o *Explorer) {
	e.Paths += o.Paths
	e.Forks += o.Forks
	e.Failures = append(e.Failures, o.Failures...)
	e.Incon = append(e.Incon, o.Incon...)
	e.AssertsTotal += o.AssertsTotal
	e.AssertsTriv += o.AssertsTriv
	e.AssertsSMT += o.AssertsSMT
	e.Steps += o.Steps
	e.OneShotQueries += o.OneShotQueries
	e.OneShotDecided += o.OneShotDecided
	e.OneShotTime += o.OneShotTime
	e.BoundaryStops += o.BoundaryStops
	e.PanicsSeen = append(e.PanicsSeen, o.PanicsSeen...)
	e.Observed = append(e.Observed, o.Observed...)
	if o.RingUsed {
		e.RingUsed = true
	}
	for k, v := range o.Reached {
		e.Reached[k] += v
	}
	for k, v := range o.Funcs {
		e.Funcs[k] += v
	}
	for k, v := range o.Stubs {
		e.Stubs[k] += v
	}
	for k := range o.Assumptions {
		e.Assumptions[k] = true
	}
	for k, v := range o.SymKinds {
		e.SymKinds[k] = v
	}
	for k, v := range o.SymRanges {
		e.SymRanges[k] = v
	}
}

func (e *Explorer) runPath(prefix []uint64) {
	c := e.newCtx(prefix)
	e.Paths++
	if e.Sol != nil {
		e.Sol.Push()
	}
	defer func() {
		e.Steps += c.Steps
		if c.Ring {
			e.RingUsed = true
		}
		if e.Sol != nil {
			e.Sol.PopAll()
		}
		r := recover()
		switch r := r.(type) {
		case nil:
		case pathEnd:
		case *Abort:
			e.Incon = append(e.Incon, Inconclusive{What: r.Msg, Site: c.where()})
		case *PanicV:
			// uncaught panic in the harness: implicit assertion "no panic"
			c.reportPanic(r)
		default:
			// engine bug: make it visible but do not kill the whole run
			e.Incon = append(e.Incon, Inconclusive{What: fmt.Sprintf("engine panic: %v", r), Site: c.where()})
		}
	}()
	c.initPackages()
	tv := c.newHarnessT()
	c.call(e.Harness, []Value{tv}, nil)
}

// ---- path condition & decisions

func (c *Ctx) assume(t *smt.Term) {
	if c.spec > 0 {
		panic(specFail{"assume"})
	}
	if t.IsConst() {
		if !t.BoolVal() {
			panic(pathEnd{})
		}
		return
	}
	c.pc = append(c.pc, t)
	if c.Sol != nil {
		if err := c.Sol.Assert(t); err != nil {
			panic(c.abort("solver: %v", err))
		}
	}
}

func (c *Ctx) check(extra ...*smt.Term) smt.Result {
	r, _ := c.solve(false, extra...)
	return r
}

// solve checks pc + extra: first in the incremental session, then (on unknown)
// as a one-shot script in fresh solver processes (portfolio).
func (c *Ctx) solve(wantModel bool, extra ...*smt.Term) (smt.Result, smt.Model) {
	if c.Sol == nil {
		panic(c.abort("symbolic query in concrete mode"))
	}
	// unit propagation: literals asserted at top level simplify the other assertions
	if len(extra) > 1 {
		for round := 0; round < 3; round++ {
			known := map[int64]bool{}
			changed := false
			for i, x := range extra {
				others := append(append([]*smt.Term{}, extra[:i]...), extra[i+1:]...)
				for k := range known {
					delete(known, k)
				}
				c.St.Units(others, known)
				nx := c.St.ReplaceAtoms(x, known)
				if nx != x {
					extra = append(append(append([]*smt.Term{}, extra[:i]...), nx), extra[i+1:]...)
					changed = true
				}
			}
			if !changed {
				break
			}
		}
	}
	for _, x := range extra {
		if x.IsConst() && !x.BoolVal() {
			return smt.Unsat, nil
		}
	}
	// a top-level disjunction is decided disjunct by disjunct (each query is much smaller)
	for i, x := range extra {
		var disj []*smt.Term
		if x.Op == smt.OOr {
			disj = x.Args
		} else if x.Op == smt.ONot && x.Args[0].Op == smt.OAnd {
			for _, a := range x.Args[0].Args {
				disj = append(disj, c.St.Not(a))
			}
		}
		if len(disj) <= 256 && len(disj) > 1 {
			rest := append(append([]*smt.Term{}, extra[:i]...), extra[i+1:]...)
			unknown := false
			nUnknown := 0
			for _, d := range disj {
				r, m := c.solve1(wantModel, append(append([]*smt.Term{}, rest...), d)...)
				if r == smt.Sat {
					return r, m
				}
				if r == smt.Unknown {
					unknown = true
					nUnknown++
					if nUnknown >= 2 {
						break // hard instance: do not grind through every disjunct
					}
				}
			}
			if unknown {
				return smt.Unknown, nil
			}
			return smt.Unsat, nil
		}
	}
	return c.solve1(wantModel, extra...)
}

func (c *Ctx) solve1(wantModel bool, extra ...*smt.Term) (smt.Result, smt.Model) {
	for _, x := range extra {
		if x.IsConst() && !x.BoolVal() {
			return smt.Unsat, nil
		}
	}
	hard := false
	for _, x := range extra {
		if c.St.HasOp(x, smt.OFPDiv) {
			hard = true
		}
	}
	var err error
	r := smt.Unknown
	if !hard {
		c.Sol.Push()
		for _, x := range extra {
			c.Sol.Assert(x)
		}
		r, err = c.Sol.Check()
		if err == nil && r == smt.Sat && wantModel {
			m, merr := c.Sol.GetModel(c.named)
			c.Sol.Pop()
			if merr != nil {
				c.E.Incon = append(c.E.Incon, Inconclusive{What: "model: " + merr.Error(), Site: c.where()})
				return smt.Unknown, nil
			}
			return smt.Sat, m
		}
		c.Sol.Pop()
		if err == nil && r != smt.Unknown {
			return r, nil
		}
	}
	// escalate: one-shot scripts in fresh solver processes (within the job's budget)
	if c.E.OneShotBudget > 0 && c.E.OneShotTime > c.E.OneShotBudget {
		return smt.Unknown, nil
	}
	asserts := append(append([]*smt.Term{}, c.pc...), extra...)
	var syms []*smt.Term
	if wantModel {
		syms = c.named
	}
	for _, name := range []string{"z3", "z3-new", "cvc5"} {
		tmo := c.E.OneShotTimeoutMs
		if tmo == 0 {
			tmo = 30000
		}
		r2, m, dt, err2 := smt.OneShot(smt.Backends[name], c.St, asserts, syms, tmo)
		c.E.OneShotQueries++
		c.E.OneShotTime += dt
		if err2 != nil {
			continue
		}
		if r2 != smt.Unknown {
			c.E.OneShotDecided++
			return r2, m
		}
	}
	if err != nil {
		c.E.Incon = append(c.E.Incon, Inconclusive{What: "solver: " + err.Error(), Site: c.where()})
	}
	return smt.Unknown, nil
}

// branch decides a symbolic If.
func (c *Ctx) branch(cond *smt.Term) bool {
	return c.branchOn(cond, "if")
}

func (c *Ctx) branchOn(cond *smt.Term, what string) bool {
	if cond.IsConst() {
		return cond.BoolVal()
	}
	if c.spec > 0 {
		panic(specFail{"branch"})
	}
	if c.dpos < len(c.prefix) {
		d := c.prefix[c.dpos]
		c.dpos++
		c.taken = append(c.taken, d)
		if d&1 == 1 {
			if d&2 == 0 {
				c.assume(cond)
			}
			return true
		}
		if d&2 == 0 {
			c.assume(c.St.Not(cond))
		}
		return false
	}
	ft := c.check(cond) != smt.Unsat
	ff := true
	if ft {
		ff = c.check(c.St.Not(cond)) != smt.Unsat
	}
	c.dpos++
	switch {
	case ft && ff:
		c.E.Forks++
		alt := append(append([]uint64{}, c.taken...), 0)
		c.E.work = append(c.E.work, alt)
		c.taken = append(c.taken, 1)
		c.assume(cond)
		return true
	case ft:
		c.taken = append(c.taken, 3) // forced true: implied by pc
		return true
	default:
		c.taken = append(c.taken, 2) // forced false
		return false
	}
}

// decide picks one of n alternatives that are all feasible by construction
// (e.g. map iteration orders).
func (c *Ctx) decide(what string, n int) int {
	if c.dpos < len(c.prefix) {
		d := c.prefix[c.dpos]
		c.dpos++
		c.taken = append(c.taken, d)
		return int(d)
	}
	c.dpos++
	for i := 1; i < n; i++ {
		c.E.Forks++
		c.E.work = append(c.E.work, append(append([]uint64{}, c.taken...), uint64(i)))
	}
	c.taken = append(c.taken, 0)
	return 0
}

const maxConcretize = 96

// concretize forks over every feasible value of t.
func (c *Ctx) concretize(t *smt.Term, why string) *smt.Term {
	if t.IsConst() {
		return t
	}
	if c.spec > 0 {
		panic(specFail{"concretize"})
	}
	st := c.St
	if c.dpos < len(c.prefix) {
		d := c.prefix[c.dpos]
		c.dpos++
		c.taken = append(c.taken, d)
		k := st.BVC(t.Sort.W, d)
		if t.Sort == smt.Bool {
			k = st.BoolC(d != 0)
		}
		c.assume(st.Eq(t, k))
		return k
	}
	if t.Sort.K != smt.KBV && t.Sort.K != smt.KBool {
		panic(c.abort("cannot concretise a value of sort %v (%s)", t.Sort, why))
	}
	var vals []*smt.Term
	var blocks []*smt.Term
	for {
		if len(vals) > maxConcretize && c.stopAtBoundary {
			// phase A: the value is needed concretely (gorgonia boundary) but ranges over a huge
			// domain: everything gonnx did with it up to here has been checked; stop quietly
			c.E.BoundaryStops++
			panic(pathEnd{})
		}
		if len(vals) > maxConcretize {
			panic(c.abort("concretisation of %s: more than %d feasible values (%s)", st.Show(t), maxConcretize, why))
		}
		if c.Sol == nil {
			panic(c.abort("concretize in concrete mode"))
		}
		c.Sol.Push()
		for _, b := range blocks {
			c.Sol.Assert(b)
		}
		r, err := c.Sol.Check()
		if err != nil || r == smt.Unknown {
			c.Sol.Pop()
			panic(c.abort("concretisation query inconclusive (%s)", why))
		}
		if r == smt.Unsat {
			c.Sol.Pop()
			break
		}
		// evaluate t in the model
		syms := st.Symbols(t)
		m, err := c.Sol.GetModel(syms)
		c.Sol.Pop()
		if err != nil {
			panic(c.abort("model: %v", err))
		}
		v := st.Subst(t, m, true)
		if !v.IsConst() {
			panic(c.abort("concretize: model does not determine value"))
		}
		vals = append(vals, v)
		blocks = append(blocks, st.Not(st.Eq(t, v)))
	}
	if len(vals) == 0 {
		panic(pathEnd{})
	}
	sort.Slice(vals, func(i, j int) bool { return vals[i].U < vals[j].U })
	c.dpos++
	for _, v := range vals[1:] {
		c.E.Forks++
		c.E.work = append(c.E.work, append(append([]uint64{}, c.taken...), v.U))
	}
	c.taken = append(c.taken, vals[0].U)
	c.assume(st.Eq(t, vals[0]))
	return vals[0]
}

// concInt returns t as a concrete signed integer, forking if symbolic.
func (c *Ctx) concInt(t *smt.Term, why string) int64 {
	k := c.concretize(t, why)
	return k.SVal()
}

// ---- assertions

func (c *Ctx) modelStrings(m smt.Model) map[string]string {
	out := map[string]string{}
	for _, s := range c.named {
		v, ok := m[s.Name]
		if !ok || strings.HasPrefix(s.Name, "bits!") {
			continue
		}
		out[s.Name] = encodeConst(v)
		// a NaN input whose bit pattern the code looked at: replay with the pattern of the witness
		if b, ok := c.bitsOf[s.ID]; ok && s.Sort.IsFP() {
			if bv, ok := m[b.Name]; ok && bv.IsConst() {
				if s.Sort.K == smt.KFP32 {
					out[s.Name] = fmt.Sprintf("f32:%08x", uint32(bv.U))
				} else {
					out[s.Name] = fmt.Sprintf("f64:%016x", bv.U)
				}
			}
		}
	}
	return out
}

func encodeConst(v *smt.Term) string {
	switch v.Sort.K {
	case smt.KBool:
		if v.BoolVal() {
			return "true"
		}
		return "false"
	case smt.KBV:
		return fmt.Sprintf("bv%d:%d", v.Sort.W, v.U)
	case smt.KFP32:
		return fmt.Sprintf("f32:%08x", uint32(v.U))
	case smt.KFP64:
		return fmt.Sprintf("f64:%016x", v.U)
	case smt.KReal, smt.KInt:
		return "r:" + v.R.String()
	}
	return "?"
}

func (c *Ctx) getModel() (smt.Model, bool) {
	m, err := c.Sol.GetModel(c.named)
	if err != nil {
		c.E.Incon = append(c.E.Incon, Inconclusive{What: "model: " + err.Error(), Site: c.where()})
		return nil, false
	}
	return m, true
}

// violated handles a satisfiable negated assertion: classifies it against the
// known-finding regions and looks for a witness outside them.
func (c *Ctx) violated(label string, neg *smt.Term, detail string, pmsg string) {
	st := c.St
	var ex []*smt.Term
	if neg != nil {
		ex = append(ex, neg)
	}
	r, m := c.solve(true, ex...)
	if r != smt.Sat {
		if r == smt.Unknown {
			c.E.Incon = append(c.E.Incon, Inconclusive{What: "assertion " + label + ": solver unknown", Site: c.where()})
		}
		return
	}
	// a violated equality over the reals: prefer a witness in which the two sides are at least 1 apart, so that
	// the native replay (float arithmetic, compared with a tolerance) does not lose it to rounding
	if neg != nil && neg.Op == smt.ONot && neg.Args[0].Op == smt.OEq && neg.Args[0].Args[0].Sort.K == smt.KReal {
		a, b, one := neg.Args[0].Args[0], neg.Args[0].Args[1], st.RealI(1)
		if r3, m3 := c.solve(true, st.Or(st.RLt(st.RAdd(a, one), b), st.RLt(st.RAdd(b, one), a))); r3 == smt.Sat {
			m = m3
		}
	}
	var inRegions []string
	var knownConds []*smt.Term
	knownHit := ""
	for _, rg := range c.regions {
		v := st.Subst(rg.cond, m, true)
		if v.IsConst() && v.BoolVal() {
			inRegions = append(inRegions, rg.name)
			if c.E.Known[rg.name] && knownHit == "" {
				knownHit = rg.name
			}
		}
		if c.E.Known[rg.name] {
			knownConds = append(knownConds, st.Not(rg.cond))
		}
	}
	f := Failure{Label: label, Site: c.where(), Detail: detail, Model: c.modelStrings(m), Regions: inRegions, Known: knownHit, Prefix: append([]uint64{}, c.taken...), PanicMsg: pmsg}
	c.E.Failures = append(c.E.Failures, f)
	if knownHit == "" {
		return
	}
	// is there a witness outside every listed region?
	extra := append([]*smt.Term{}, knownConds...)
	if neg != nil {
		extra = append(extra, neg)
	}
	r2, m2 := c.solve(true, extra...)
	if r2 == smt.Sat {
		var reg2 []string
		for _, rg := range c.regions {
			v := st.Subst(rg.cond, m2, true)
			if v.IsConst() && v.BoolVal() {
				reg2 = append(reg2, rg.name)
			}
		}
		c.E.Failures = append(c.E.Failures, Failure{Label: label, Site: c.where(), Detail: detail, Model: c.modelStrings(m2), Regions: reg2, Prefix: append([]uint64{}, c.taken...), PanicMsg: pmsg})
		return
	}
	if r2 == smt.Unknown {
		c.E.Incon = append(c.E.Incon, Inconclusive{What: "assertion " + label + " outside known regions: solver unknown", Site: c.where()})
	}
}

func (c *Ctx) assertCond(label string, cond *smt.Term, detail string) {
	e := c.E
	e.AssertsTotal++
	e.Reached[label]++
	if cond.IsConst() && cond.BoolVal() {
		e.AssertsTriv++
		return
	}
	if e.Concrete != nil {
		if cond.IsConst() {
			e.Observed = append(e.Observed, "FAIL "+label)
			return
		}
		panic(c.abort("non-constant assertion in concrete mode: %s", label))
	}
	e.AssertsSMT++
	c.violated(label, c.St.Not(cond), detail, "")
}

func (c *Ctx) reportPanic(p *PanicV) {
	e := c.E
	e.AssertsTotal++
	e.Reached["no-panic"]++
	if e.Concrete != nil {
		e.Observed = append(e.Observed, "PANIC "+p.Msg)
		return
	}
	c.violated("panic", nil, p.Msg+" @ "+p.Site, p.Msg)
}

// ---- summaries

func (e *Explorer) Summary() string {
	var sb strings.Builder
	fmt.Fprintf(&sb, "paths=%d forks=%d asserts=%d (trivial %d, smt %d) failures=%d inconclusive=%d", e.Paths, e.Forks, e.AssertsTotal, e.AssertsTriv, e.AssertsSMT, len(e.Failures), len(e.Incon))
	return sb.String()
}

var _ = time.Now
