package symex

import (
	"go/token"
	"strings"
	"sync"

	"verif/engine/smt"

	"golang.org/x/tools/go/ssa"
)

// Diamond merging: a symbolic If whose two arms are free of side effects is
// evaluated on both sides and joined with ite-terms instead of forking.

type mergeResult struct {
	returned bool
	ret      Value
	join     *ssa.BasicBlock
}

type specFail struct{ why string }

var ipdomCache = map[*ssa.Function]map[*ssa.BasicBlock]*ssa.BasicBlock{}
var ipdomMu sync.Mutex

// ipdoms computes immediate post-dominators (nil = virtual exit).
func ipdoms(fn *ssa.Function) map[*ssa.BasicBlock]*ssa.BasicBlock {
	ipdomMu.Lock()
	if m, ok := ipdomCache[fn]; ok {
		ipdomMu.Unlock()
		return m
	}
	ipdomMu.Unlock()
	n := len(fn.Blocks)
	// pdom sets as bitsets over blocks + exit (index n)
	type set []bool
	full := func() set {
		s := make(set, n+1)
		for i := range s {
			s[i] = true
		}
		return s
	}
	pd := make([]set, n+1)
	for i := 0; i < n; i++ {
		pd[i] = full()
	}
	pd[n] = make(set, n+1)
	pd[n][n] = true
	changed := true
	for changed {
		changed = false
		for i := n - 1; i >= 0; i-- {
			b := fn.Blocks[i]
			var succs []int
			if len(b.Succs) == 0 {
				succs = []int{n}
			} else {
				for _, s := range b.Succs {
					succs = append(succs, s.Index)
				}
			}
			ns := full()
			for _, s := range succs {
				for k := range ns {
					ns[k] = ns[k] && pd[s][k]
				}
			}
			ns[i] = true
			for k := range ns {
				if ns[k] != pd[i][k] {
					changed = true
					break
				}
			}
			pd[i] = ns
		}
	}
	res := map[*ssa.BasicBlock]*ssa.BasicBlock{}
	for i := 0; i < n; i++ {
		// immediate post-dominator: the strict post-dominator that is post-dominated by all other strict ones
		var cands []int
		for k := 0; k <= n; k++ {
			if k != i && pd[i][k] {
				cands = append(cands, k)
			}
		}
		best := -1
		for _, k := range cands {
			ok := true
			for _, j := range cands {
				if j != k && !pd[k][j] {
					ok = false
					break
				}
			}
			if ok {
				best = k
				break
			}
		}
		if best >= 0 && best < n {
			res[fn.Blocks[i]] = fn.Blocks[best]
		} else {
			res[fn.Blocks[i]] = nil
		}
	}
	ipdomMu.Lock()
	ipdomCache[fn] = res
	ipdomMu.Unlock()
	return res
}

func (c *Ctx) pureCallee(fn *ssa.Function) bool {
	n := fn.String()
	return strings.HasPrefix(n, "math.") || strings.HasPrefix(n, "github.com/chewxy/math32.")
}

type armResult struct {
	returned bool
	ret      Value
	phis     map[*ssa.Phi]Value // values of the join block's phis when the arm reaches it
}

func (c *Ctx) phiVals(fn *ssa.Function, join, pred *ssa.BasicBlock, env map[ssa.Value]Value) map[*ssa.Phi]Value {
	vals := map[*ssa.Phi]Value{}
	if join == nil {
		panic(specFail{"no join"})
	}
	idx := -1
	for i, p := range join.Preds {
		if p == pred {
			idx = i
			break
		}
	}
	if idx < 0 {
		panic(specFail{"phi edge"})
	}
	for _, in := range join.Instrs {
		phi, ok := in.(*ssa.Phi)
		if !ok {
			break
		}
		vals[phi] = c.get(&frame{fn: fn, env: env}, phi.Edges[idx])
	}
	return vals
}

func (c *Ctx) mergeArms(cond *smt.Term, r0, r1 armResult) armResult {
	switch {
	case r0.returned && r1.returned:
		return armResult{returned: true, ret: c.mergeVals(cond, r0.ret, r1.ret)}
	case !r0.returned && !r1.returned:
		out := map[*ssa.Phi]Value{}
		for p, v0 := range r0.phis {
			v1, ok := r1.phis[p]
			if !ok {
				panic(specFail{"phi sets differ"})
			}
			out[p] = c.mergeVals(cond, v0, v1)
		}
		return armResult{phis: out}
	}
	panic(specFail{"one arm returns"})
}

func (c *Ctx) specArm(fr *frame, start, from, join *ssa.BasicBlock, budget *int) armResult {
	env := make(map[ssa.Value]Value, len(fr.env)+8)
	for k, v := range fr.env {
		env[k] = v
	}
	sf := &frame{fn: fr.fn, env: env, block: start, prev: from}
	skipPhis := false
	for {
		if sf.block == join && !skipPhis {
			return armResult{phis: c.phiVals(fr.fn, join, sf.prev, env)}
		}
		var next *ssa.BasicBlock
		nested := false
	instrs:
		for _, in := range sf.block.Instrs {
			*budget--
			if *budget < 0 {
				panic(specFail{"budget"})
			}
			switch in := in.(type) {
			case *ssa.Phi:
				if skipPhis {
					continue
				}
				c.exec(sf, in)
			case *ssa.Return:
				return armResult{returned: true, ret: c.retVal(sf, in)}
			case *ssa.Jump:
				next = sf.block.Succs[0]
			case *ssa.If:
				cond := c.get(sf, in.Cond).(*smt.Term)
				if cond.IsConst() {
					if cond.BoolVal() {
						next = sf.block.Succs[0]
					} else {
						next = sf.block.Succs[1]
					}
					break
				}
				jn := ipdoms(sf.fn)[sf.block]
				r0 := c.specArm(sf, sf.block.Succs[0], sf.block, jn, budget)
				r1 := c.specArm(sf, sf.block.Succs[1], sf.block, jn, budget)
				m := c.mergeArms(cond, r0, r1)
				if m.returned {
					return m
				}
				if jn == join {
					return m
				}
				for p, v := range m.phis {
					sf.env[p] = v
				}
				sf.prev = nil
				sf.block = jn
				nested = true
				break instrs
			case *ssa.BinOp:
				if in.Op == token.QUO || in.Op == token.REM {
					if y, ok := c.get(sf, in.Y).(*smt.Term); ok && y.Sort.K == smt.KBV && !y.IsConst() {
						panic(specFail{"division"})
					}
				}
				c.exec(sf, in)
			case *ssa.Convert, *ssa.ChangeType, *ssa.ChangeInterface, *ssa.MakeInterface,
				*ssa.Extract, *ssa.Field, *ssa.FieldAddr, *ssa.DebugRef, *ssa.UnOp:
				c.exec(sf, in)
			case *ssa.IndexAddr:
				if idx, ok := c.get(sf, in.Index).(*smt.Term); !ok || !idx.IsConst() {
					panic(specFail{"symbolic index"})
				}
				c.exec(sf, in)
			case *ssa.Call:
				cc := in.Common()
				if callee := cc.StaticCallee(); callee != nil && c.pureCallee(callee) {
					c.exec(sf, in)
				} else if b, ok := cc.Value.(*ssa.Builtin); ok && (b.Name() == "len" || b.Name() == "cap") {
					c.exec(sf, in)
				} else {
					panic(specFail{"call"})
				}
			default:
				panic(specFail{"impure instruction"})
			}
		}
		if nested {
			skipPhis = true
			continue
		}
		skipPhis = false
		if next == nil {
			panic(specFail{"no terminator"})
		}
		sf.prev = sf.block
		sf.block = next
	}
}

func (c *Ctx) tryMerge(fr *frame, cond *smt.Term) (res mergeResult, ok bool) {
	if c.NoMerge {
		return mergeResult{}, false
	}
	defer func() {
		if r := recover(); r != nil {
			c.spec--
			switch r.(type) {
			case specFail, *PanicV:
				ok = false
			default:
				panic(r)
			}
		}
	}()
	c.spec++
	res, ok = c.tryMergeIn(fr, cond)
	c.spec--
	return
}

func (c *Ctx) mergeVals(cond *smt.Term, a, b Value) Value {
	ta, ok1 := a.(*smt.Term)
	tb, ok2 := b.(*smt.Term)
	if ok1 && ok2 && ta.Sort == tb.Sort {
		return c.St.Ite(cond, ta, tb)
	}
	switch x := a.(type) {
	case TupleV:
		y, ok := b.(TupleV)
		if !ok || len(x) != len(y) {
			panic(specFail{"tuple"})
		}
		r := make(TupleV, len(x))
		for i := range x {
			r[i] = c.mergeVals(cond, x[i], y[i])
		}
		return r
	case IfaceV:
		y, ok := b.(IfaceV)
		if ok && x.T == nil && y.T == nil {
			return x
		}
		if ok && x.T != nil && y.T != nil && typeString(x.T) == typeString(y.T) {
			return IfaceV{T: x.T, V: c.mergeVals(cond, x.V, y.V)}
		}
	case string:
		if y, ok := b.(string); ok && x == y {
			return x
		}
	case *Value:
		if y, ok := b.(*Value); ok && x == y {
			return x
		}
	case nil:
		if b == nil {
			return nil
		}
	}
	panic(specFail{"unmergeable values"})
}

func (c *Ctx) tryMergeIn(fr *frame, cond *smt.Term) (mergeResult, bool) {
	b := fr.block
	join := ipdoms(fr.fn)[b]
	budget := 600
	r0 := c.specArm(fr, b.Succs[0], b, join, &budget)
	r1 := c.specArm(fr, b.Succs[1], b, join, &budget)
	m := c.mergeArms(cond, r0, r1)
	if m.returned {
		return mergeResult{returned: true, ret: m.ret}, true
	}
	for p, v := range m.phis {
		fr.env[p] = v
	}
	return mergeResult{join: join}, true
}
