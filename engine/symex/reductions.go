package symex

func (c *Ctx) registerReductions(tab map[string]intrinsicFn) {}
