package symex

import (
	"fmt"
	"go/types"
	"math"
	"sort"

	"verif/engine/smt"

	"golang.org/x/tools/go/ssa"
	"gorgonia.org/tensor"
)

// Ports of gorgonia's reduction and softmax kernels (tensor@v0.9.24):
//   internal/execution/generic_argmethods.go  (ArgmaxT)
//   defaultengine_argmethods.go               (argmaxDenseTensor: slices along the axis, row-major over the rest)
//   defaultengine_mapreduce.go / generic_minmax.go (Max/Min)
//   defaultengine_softmax.go                  (softMaxLastDim / softMaxInnerDim, incl. their quirks)

func (c *Ctx) gtTerm(dt tensor.Dtype, a, b *smt.Term) *smt.Term {
	st := c.St
	switch a.Sort.K {
	case smt.KBV:
		if dtypeSigned(dt) {
			return st.BVSLt(b, a)
		}
		return st.BVULt(b, a)
	case smt.KReal:
		return st.RLt(b, a)
	}
	return st.FPLt(b, a)
}

// argmaxSlice ports ArgmaxT on one slice.
func (c *Ctx) argmaxSlice(dt tensor.Dtype, a []*smt.Term) *smt.Term {
	st := c.St
	f := a[0]
	m := st.BVC(64, 0)
	done := st.False()
	res := st.BVC(64, 0)
	for i := 1; i < len(a); i++ {
		v := a[i]
		idx := st.BVC(64, uint64(i))
		if v.Sort.IsFP() {
			// if IsNaN(v) || IsInf(v, 1) { return i }
			var pinf *smt.Term
			if v.Sort.K == smt.KFP32 {
				pinf = st.F32C(float32(math.Inf(1)))
			} else {
				pinf = st.F64C(math.Inf(1))
			}
			stop := st.And(st.Not(done), st.Or(st.FPIsNaN(v), st.Eq(v, pinf)))
			res = st.Ite(stop, idx, res)
			done = st.Or(done, stop)
		}
		gt := st.And(st.Not(done), c.gtTerm(dt, v, f))
		m = st.Ite(gt, idx, m)
		f = st.Ite(gt, v, f)
	}
	return st.Ite(done, res, m)
}

func (c *Ctx) argmax(fn *ssa.Function, a []Value) Value {
	c.E.Stubs["tensor.Argmax"]++
	s := c.asShadow(a[0])
	if s == nil {
		panic(c.goPanic("Argmax of nil tensor"))
	}
	axis := int(c.concInt(a[1].(*smt.Term), "Argmax axis"))
	var res tensor.Tensor
	var err error
	if p := c.nativeCall("Argmax", func() { res, err = tensor.Argmax(s.twin, axis) }); p != nil {
		panic(p)
	}
	if err != nil {
		return c.retTensorErr(nil, err, fn.Signature)
	}
	shape := s.ids.Shape()
	ts := c.logicalTerms(s)
	if axis == -1 {
		// tensor.AllAxes: flat argmax over the whole array
		rd := res.(*tensor.Dense)
		if !rd.IsScalar() || rd.Dtype() != tensor.Int || s.ids.RequiresIterator() {
			panic(c.abort("flat Argmax produced %v %v: outside the model", rd.Dtype(), rd.Shape()))
		}
		return c.retTensorErr(c.finishResult(res, funcOpts{}, tensor.Int, []*smt.Term{c.argmaxSlice(s.dt, ts)}), nil, fn.Signature)
	}
	if axis < 0 || axis >= len(shape) {
		panic(c.abort("Argmax accepted axis %d for shape %v: outside the model", axis, shape))
	}
	var outShape []int
	for i, d := range shape {
		if i != axis {
			outShape = append(outShape, d)
		}
	}
	n := 1
	for _, d := range outShape {
		n *= d
	}
	slices := make([][]*smt.Term, n)
	for li, co := range coordsOf(shape) {
		oi := 0
		for i, d := range shape {
			if i != axis {
				oi = oi*d + co[i]
			}
		}
		slices[oi] = append(slices[oi], ts[li])
	}
	out := make([]*smt.Term, n)
	for i := range out {
		out[i] = c.argmaxSlice(s.dt, slices[i])
	}
	rd := res.(*tensor.Dense)
	if rd.Dtype() != tensor.Int || rd.Shape().TotalSize() != n {
		panic(c.abort("Argmax: gorgonia produced %v %v, model has %d values", rd.Dtype(), rd.Shape(), n))
	}
	return c.retTensorErr(c.finishResult(res, funcOpts{}, tensor.Int, out), nil, fn.Signature)
}

func (c *Ctx) minMaxMethod(isMax bool) tensorMethod {
	return func(c *Ctx, s *Shadow, args []Value, sig *types.Signature) Value {
		axes := c.intsOf(args[0], "Max/Min axes")
		var res *tensor.Dense
		var err error
		if p := c.nativeCall("Max/Min", func() {
			if isMax {
				res, err = s.twin.Max(axes...)
			} else {
				res, err = s.twin.Min(axes...)
			}
		}); p != nil {
			panic(p)
		}
		if err != nil {
			return c.retTensorErr(nil, err, sig)
		}
		so, _ := c.elemSort(s.dt)
		if so.IsFP() {
			c.E.Assumptions["Dense.Max/Min: modelled as pairwise (b > a ? b : a) folds in index order; gorgonia's three reduction kernels differ only in how NaN operands are ordered (harnesses assume NaN-free input for ReduceMax/ReduceMin)"] = true
		}
		ax := append([]int{}, axes...)
		sort.Ints(ax)
		for i, a := range ax {
			if a < 0 || a >= s.ids.Dims() || (i > 0 && ax[i-1] == a) {
				// gorgonia accepted an axis outside the tensor's rank: what it computes then is not
				// modelled; the result is left unconstrained (fresh symbols of the result's shape)
				c.E.Assumptions["Dense.Max/Min with an axis outside [0,rank) or a repeated axis: result values unconstrained (havoc)"] = true
				n := res.Shape().TotalSize()
				out := make([]*smt.Term, n)
				for i := range out {
					c.fresh++
					out[i] = c.St.Sym(fmt.Sprintf("havoc#%d", c.fresh), so)
				}
				return c.retTensorErr(c.finishResult(res, funcOpts{}, s.dt, out), nil, sig)
			}
		}
		out := c.reduce(s, ax, func(acc, x *smt.Term) *smt.Term {
			if isMax {
				return c.St.Ite(c.gtTerm(s.dt, x, acc), x, acc)
			}
			return c.St.Ite(c.gtTerm(s.dt, acc, x), x, acc)
		})
		if len(out) != res.Shape().TotalSize() {
			panic(c.abort("Max/Min: %d values for result shape %v", len(out), res.Shape()))
		}
		return c.retTensorErr(c.finishResult(res, funcOpts{}, s.dt, out), nil, sig)
	}
}

func (c *Ctx) subTerms(so smt.Sort, x, y *smt.Term) *smt.Term {
	switch so.K {
	case smt.KReal:
		return c.St.RSub(x, y)
	}
	return c.St.FPSub(x, y)
}

func (c *Ctx) softmax(fn *ssa.Function, a []Value, logSoftMax bool) Value {
	name := "SoftMax"
	if logSoftMax {
		name = "LogSoftMax"
	}
	c.E.Stubs["tensor."+name]++
	s := c.asShadow(a[0])
	if s == nil {
		panic(c.goPanic("%s of nil tensor", name))
	}
	axis := int(c.concInt(a[1].(*smt.Term), name+" axis"))
	fo := c.funcOpts(a[2])
	if fo.reuse != nil {
		panic(c.abort("%s WithReuse", name))
	}
	var res tensor.Tensor
	var err error
	if p := c.nativeCall(name, func() {
		if logSoftMax {
			res, err = tensor.LogSoftMax(s.twin, axis)
		} else {
			res, err = tensor.SoftMax(s.twin, axis)
		}
	}); p != nil {
		panic(p)
	}
	if err != nil {
		return c.retTensorErr(nil, err, fn.Signature)
	}
	st := c.St
	so, _ := c.elemSort(s.dt)
	shape := s.ids.Shape()
	dims := len(shape)
	if dims == 0 || s.ids.IsScalar() {
		panic(c.abort("%s of a scalar: outside the model", name))
	}
	// resolveAxis
	ax := axis % dims
	if ax < 0 {
		ax += dims
	}
	// the kernels work on the raw backing arrays
	raw, ok := s.ids.Data().([]int64)
	if !ok || len(raw) != shape.TotalSize() || s.ids.RequiresIterator() {
		panic(c.abort("%s on a non-contiguous tensor: outside the model", name))
	}
	x := make([]*smt.Term, len(raw))
	for i, id := range raw {
		x[i] = c.termOfID(id, so)
	}
	out := make([]*smt.Term, len(raw))
	exp := func(z *smt.Term) *smt.Term {
		if so.K == smt.KReal {
			return c.expReal(z)
		}
		return c.mathUF("exp", z)
	}
	logf := func(z *smt.Term) *smt.Term {
		if so.K == smt.KReal {
			return st.App("log_r", smt.Real, z)
		}
		return c.mathUF("log", z)
	}
	zero := st.Zero(so)
	one := c.one(so)
	div := func(p, q *smt.Term) *smt.Term {
		if so.K == smt.KReal {
			return st.RDiv(p, q)
		}
		return st.FPDiv(p, q)
	}
	gt := func(p, q *smt.Term) *smt.Term { return c.gtTerm(s.dt, p, q) }
	dimSize := shape[ax]
	outer := 1
	for i := 0; i < ax; i++ {
		outer *= shape[i]
	}
	if ax == dims-1 {
		// softMaxLastDim
		for ii := 0; ii < outer; ii++ {
			maxInput := x[0] // sic: the first element of the whole array, not of the row
			for j := 1; j < dimSize; j++ {
				i := ii*dimSize + j
				maxInput = st.Ite(gt(x[i], maxInput), x[i], maxInput)
			}
			sumExp := zero
			for j := 0; j < dimSize; j++ {
				i := ii*dimSize + j
				z := c.subTerms(so, x[i], maxInput)
				e := exp(z)
				if logSoftMax {
					out[i] = z
				} else {
					out[i] = e
				}
				sumExp = c.addTerms(so, sumExp, e)
			}
			if !logSoftMax {
				sumExp = div(one, sumExp)
			}
			for j := 0; j < dimSize; j++ {
				i := ii*dimSize + j
				if logSoftMax {
					out[i] = c.subTerms(so, out[i], logf(sumExp))
				} else {
					out[i] = c.mulTerms(so, out[i], sumExp)
				}
			}
		}
	} else {
		inner := 1
		for i := ax + 1; i < dims; i++ {
			inner *= shape[i]
		}
		dimStride := inner
		outerStride := dimSize * dimStride
		for ii := 0; ii < inner*outer; ii++ {
			oi, in := ii/inner, ii%inner
			base := oi*outerStride + in
			maxInput := x[base]
			for j := 1; j < dimSize; j++ {
				i := base + j*dimStride
				maxInput = st.Ite(gt(x[i], maxInput), x[i], maxInput)
			}
			sumExp := zero
			for j := 0; j < dimSize; j++ {
				i := base + j*dimStride
				e := exp(c.subTerms(so, x[i], maxInput))
				if !logSoftMax {
					out[i] = e
				}
				sumExp = c.addTerms(so, sumExp, e)
			}
			if logSoftMax {
				sumExp = logf(sumExp)
			} else {
				sumExp = div(one, sumExp)
			}
			for j := 0; j < dimSize; j++ {
				i := base + j*dimStride
				if logSoftMax {
					out[i] = c.subTerms(so, c.subTerms(so, x[i], maxInput), sumExp)
				} else {
					out[i] = c.mulTerms(so, out[i], sumExp)
				}
			}
		}
	}
	return c.retTensorErr(c.finishResult(res, funcOpts{}, s.dt, out), nil, fn.Signature)
}

// expReal: exp over the reals as an uninterpreted function with exp(x) > 0.
func (c *Ctx) expReal(z *smt.Term) *smt.Term {
	st := c.St
	if z.IsConst() && z.R.Sign() == 0 {
		return st.RealI(1)
	}
	r := st.App("exp_r", smt.Real, z)
	if c.spec == 0 {
		if c.axiomDone == nil {
			c.axiomDone = map[int64]bool{}
		}
		if !c.axiomDone[r.ID] {
			c.axiomDone[r.ID] = true
			c.assume(st.RLt(st.RealI(0), r))
			c.E.Assumptions["exp over the reals: exp(x) > 0, exp(0) = 1"] = true
		}
	}
	return r
}

func (c *Ctx) registerReductions(tab map[string]intrinsicFn) {
	const P = "gorgonia.org/tensor."
	tab[P+"Argmax"] = func(c *Ctx, fn *ssa.Function, a []Value) Value { return c.argmax(fn, a) }
	tab[P+"SoftMax"] = func(c *Ctx, fn *ssa.Function, a []Value) Value { return c.softmax(fn, a, false) }
	tab[P+"LogSoftMax"] = func(c *Ctx, fn *ssa.Function, a []Value) Value { return c.softmax(fn, a, true) }
	for _, isMax := range []bool{true, false} {
		name := "Min"
		if isMax {
			name = "Max"
		}
		m := c.minMaxMethod(isMax)
		tensorMethods[name] = m
		h := func(c *Ctx, fn *ssa.Function, a []Value) Value {
			s := c.asShadow(a[0])
			if s == nil {
				panic(c.goPanic("nil *Dense receiver for %s", fn.Name()))
			}
			c.E.Stubs["tensor."+fn.Name()]++
			return m(c, s, a[1:], fn.Signature)
		}
		tab["(*gorgonia.org/tensor.Dense)."+name] = h
	}
}
