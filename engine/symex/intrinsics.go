package symex

import (
	"fmt"

	"github.com/chewxy/math32"
	"go/types"
	"io"
	"math"
	"sort"
	"strconv"
	"strings"
	"sync"

	"verif/engine/smt"

	"golang.org/x/tools/go/ssa"
	"gorgonia.org/tensor"
)

type intrinsicFn func(c *Ctx, fn *ssa.Function, args []Value) Value

const zzPath = "github.com/advancedclimatesystems/gonnx/internal/zzverif"

var sharedTab map[string]intrinsicFn
var tabOnce sync.Once
var typeMu sync.Mutex

func (c *Ctx) intrinsic(fn *ssa.Function, name string) (intrinsicFn, bool) {
	tabOnce.Do(func() {
		t := map[string]intrinsicFn{}
		c.registerStd(t)
		c.registerZZ(t)
		c.registerTensorIntrinsics(t)
		c.registerSample(t)
		sharedTab = t
	})
	if h, ok := sharedTab[name]; ok {
		return h, true
	}
	if o := fn.Origin(); o != nil {
		if h, ok := sharedTab[o.String()]; ok {
			return h, true
		}
	}
	if strings.HasPrefix(name, "math.") || strings.HasPrefix(name, "github.com/chewxy/math32.") {
		return mathIntrinsic, true
	}
	return nil, false
}

// ---- types of native handles

func (c *Ctx) lookupType(pkg, name string) types.Type {
	p := c.Prog.ImportedPackage(pkg)
	if p == nil {
		panic(c.abort("package %s not loaded", pkg))
	}
	o := p.Pkg.Scope().Lookup(name)
	if o == nil {
		panic(c.abort("type %s.%s not found", pkg, name))
	}
	return o.Type()
}

var typeCache = map[string]types.Type{}

func (c *Ctx) cachedPtrType(pkg, name string) types.Type {
	k := pkg + "." + name
	typeMu.Lock()
	defer typeMu.Unlock()
	if t, ok := typeCache[k]; ok {
		return t
	}
	t := types.NewPointer(c.lookupType(pkg, name))
	typeCache[k] = t
	return t
}

func (c *Ctx) denseT() types.Type     { return c.cachedPtrType("gorgonia.org/tensor", "Dense") }
func (c *Ctx) iterT() types.Type      { return c.cachedPtrType("gorgonia.org/tensor", "FlatIterator") }
func (c *Ctx) errStringT() types.Type { return c.cachedPtrType("errors", "errorString") }
func (c *Ctx) rtypeT() types.Type     { return c.cachedPtrType("reflect", "rtype") }

func (c *Ctx) mirrorGlobal(g *ssa.Global) (Value, bool) {
	if g.Pkg == nil {
		return nil, false
	}
	path := g.Pkg.Pkg.Path()
	switch path {
	case "gorgonia.org/tensor":
		for i, n := range dtypeNames {
			if n == g.Name() {
				return DtypeV{Idx: i}, true
			}
		}
	case "io":
		if g.Name() == "EOF" {
			if c.eof == nil {
				c.eof = &ErrV{Msg: "EOF", Nat: io.EOF}
			}
			return IfaceV{T: c.errStringT(), V: c.eof}, true
		}
	}
	return nil, false
}

func (c *Ctx) errVal(msg string, wraps ...Value) Value {
	return IfaceV{T: c.errStringT(), V: &ErrV{Msg: msg, Wraps: wraps}}
}

// errorsIs implements errors.Is on interpreter values.
func (c *Ctx) errorsIs(err, target Value, depth int) bool {
	ev, ok := err.(IfaceV)
	if !ok || ev.T == nil {
		return false
	}
	tv, _ := target.(IfaceV)
	if tv.T != nil && types.Comparable(tv.T) {
		eq := c.equal(ev, tv)
		if eq.IsConst() && eq.BoolVal() {
			return true
		}
	}
	if depth > 20 {
		return false
	}
	if e, ok := ev.V.(*ErrV); ok {
		for _, w := range e.Wraps {
			if c.errorsIs(w, target, depth+1) {
				return true
			}
		}
		return false
	}
	if sel := types.NewMethodSet(ev.T).Lookup(nil, "Unwrap"); sel != nil {
		if fn := c.Prog.MethodValue(sel); fn != nil && fn.Signature.Results().Len() == 1 {
			r := c.call(fn, []Value{ev.V}, nil)
			return c.errorsIs(r, target, depth+1)
		}
	}
	return false
}

// errorsAs: the first error in err's chain whose dynamic type is assignable to targetT (nil when none).
func (c *Ctx) errorsAs(err Value, targetT types.Type, depth int) (IfaceV, bool) {
	ev, ok := err.(IfaceV)
	if !ok || ev.T == nil || depth > 20 {
		return IfaceV{}, false
	}
	if _, isErrV := ev.V.(*ErrV); !isErrV {
		if it, isIface := targetT.Underlying().(*types.Interface); isIface {
			if types.Implements(ev.T, it) {
				return ev, true
			}
		} else if types.Identical(ev.T, targetT) {
			return ev, true
		}
	}
	if e, ok := ev.V.(*ErrV); ok {
		for _, w := range e.Wraps {
			if r, ok := c.errorsAs(w, targetT, depth+1); ok {
				return r, true
			}
		}
		return IfaceV{}, false
	}
	if sel := types.NewMethodSet(ev.T).Lookup(nil, "Unwrap"); sel != nil {
		if fn := c.Prog.MethodValue(sel); fn != nil && fn.Signature.Results().Len() == 1 {
			return c.errorsAs(c.call(fn, []Value{ev.V}, nil), targetT, depth+1)
		}
	}
	return IfaceV{}, false
}

func isErrorValue(v Value) bool {
	iv, ok := v.(IfaceV)
	if !ok || iv.T == nil {
		return false
	}
	if _, ok := iv.V.(*ErrV); ok {
		return true
	}
	ms := types.NewMethodSet(iv.T)
	for i := 0; i < ms.Len(); i++ {
		if ms.At(i).Obj().Name() == "Error" {
			return true
		}
	}
	return false
}

func (c *Ctx) registerStd(tab map[string]intrinsicFn) {
	tab["errors.New"] = func(c *Ctx, fn *ssa.Function, a []Value) Value {
		s, _ := a[0].(string)
		return c.errVal(s)
	}
	tab["errors.Is"] = func(c *Ctx, fn *ssa.Function, a []Value) Value {
		return c.St.BoolC(c.errorsIs(a[0], a[1], 0))
	}
	tab["errors.As"] = func(c *Ctx, fn *ssa.Function, a []Value) Value {
		// target: a non-nil pointer to a variable of an error type (interface or concrete)
		tv, ok := a[1].(IfaceV)
		if !ok || tv.T == nil {
			panic(c.goPanic("errors: target cannot be nil"))
		}
		pt, ok := tv.T.Underlying().(*types.Pointer)
		slot, ok2 := tv.V.(*Value)
		if !ok || !ok2 || slot == nil {
			panic(c.abort("errors.As with a target of type %s", typeString(tv.T)))
		}
		found, ok := c.errorsAs(a[0], pt.Elem(), 0)
		if !ok {
			return c.St.False()
		}
		if _, isIface := pt.Elem().Underlying().(*types.Interface); isIface {
			storeInto(slot, found)
		} else {
			storeInto(slot, found.V)
		}
		return c.St.True()
	}
	tab["errors.Unwrap"] = func(c *Ctx, fn *ssa.Function, a []Value) Value {
		if iv, ok := a[0].(IfaceV); ok {
			if e, ok := iv.V.(*ErrV); ok && len(e.Wraps) > 0 {
				return e.Wraps[0]
			}
		}
		return IfaceV{}
	}
	tab["fmt.Errorf"] = func(c *Ctx, fn *ssa.Function, a []Value) Value {
		c.E.Stubs["fmt.Errorf"]++
		f, _ := a[0].(string)
		// an operand is wrapped when ITS verb is %w: the verbs are matched with the operands one by one
		// ("%%" is a literal, flags/width/precision are skipped, '*' takes an operand)
		var wraps []Value
		args := c.valuesOf(a[1])
		k := 0
		for i := 0; i < len(f); i++ {
			if f[i] != '%' {
				continue
			}
			i++
			for i < len(f) && strings.IndexByte("+-# 0123456789.[]", f[i]) >= 0 {
				i++
			}
			if i >= len(f) {
				break
			}
			switch f[i] {
			case '%':
				continue
			case '*':
				k++
				i--
				continue
			case 'w':
				if k < len(args) && isErrorValue(args[k]) {
					wraps = append(wraps, args[k])
				}
			}
			k++
		}
		return c.errVal("<fmt.Errorf "+strconv.Quote(f)+">", wraps...)
	}
	sprint := func(c *Ctx, fn *ssa.Function, a []Value) Value {
		c.E.Stubs["fmt.Sprint*"]++
		return "<fmt>"
	}
	tab["fmt.Sprintf"] = func(c *Ctx, fn *ssa.Function, a []Value) Value {
		// concrete arguments are formatted for real (harnesses build names this way)
		f, ok := a[0].(string)
		if ok {
			var args []interface{}
			good := true
			for _, x := range c.valuesOf(a[1]) {
				iv, isI := x.(IfaceV)
				if !isI || iv.T == nil {
					good = false
					break
				}
				switch y := iv.V.(type) {
				case string:
					args = append(args, y)
				case *smt.Term:
					if !y.IsConst() {
						good = false
					} else if y.Sort.K == smt.KBV {
						if isSigned(iv.T) {
							args = append(args, y.SVal())
						} else {
							args = append(args, y.U)
						}
					} else if y.Sort.K == smt.KBool {
						args = append(args, y.BoolVal())
					} else {
						good = false
					}
				default:
					good = false
				}
			}
			if good {
				return fmt.Sprintf(f, args...)
			}
		}
		c.E.Stubs["fmt.Sprint*"]++
		return "<fmt>"
	}
	// Sprint of concrete integers, strings, booleans and slices of them is done for real (memo keys are
	// built this way); anything else stays an opaque text
	concreteArg := func(c *Ctx, x Value) (interface{}, bool) {
		iv, isI := x.(IfaceV)
		if !isI || iv.T == nil {
			return nil, false
		}
		one := func(y Value, T types.Type) (interface{}, bool) {
			switch z := y.(type) {
			case string:
				return z, true
			case *smt.Term:
				if !z.IsConst() {
					return nil, false
				}
				if z.Sort.K == smt.KBV {
					if isSigned(T) {
						return z.SVal(), true
					}
					return z.U, true
				}
				if z.Sort.K == smt.KBool {
					return z.BoolVal(), true
				}
			}
			return nil, false
		}
		if sv, ok := iv.V.(SliceV); ok {
			st, ok := iv.T.Underlying().(*types.Slice)
			if !ok {
				return nil, false
			}
			out := make([]interface{}, 0, sv.Len)
			for i := 0; i < sv.Len; i++ {
				e, ok := one(sv.B.Load(c, sv.Off+i), st.Elem())
				if !ok {
					return nil, false
				}
				out = append(out, e)
			}
			return out, true
		}
		return one(iv.V, iv.T)
	}
	tab["fmt.Sprint"] = func(c *Ctx, fn *ssa.Function, a []Value) Value {
		var args []interface{}
		for _, x := range c.valuesOf(a[0]) {
			v, ok := concreteArg(c, x)
			if !ok {
				return sprint(c, fn, a)
			}
			args = append(args, v)
		}
		return fmt.Sprint(args...)
	}
	tab["fmt.Sprintln"] = sprint
	tab["fmt.Println"] = func(c *Ctx, fn *ssa.Function, a []Value) Value {
		return TupleV{c.St.BVC(64, 0), IfaceV{}}
	}
	tab["fmt.Printf"] = tab["fmt.Println"]
	tab["sort.Ints"] = func(c *Ctx, fn *ssa.Function, a []Value) Value {
		c.E.Stubs["sort.Ints"]++
		s := a[0].(SliceV)
		ts := make([]*smt.Term, s.Len)
		allc := true
		for i := range ts {
			ts[i] = s.B.Load(c, s.Off+i).(*smt.Term)
			if !ts[i].IsConst() {
				allc = false
			}
		}
		if allc {
			sort.SliceStable(ts, func(i, j int) bool { return ts[i].SVal() < ts[j].SVal() })
		} else {
			if len(ts) > 6 {
				panic(c.abort("sort.Ints of %d symbolic values", len(ts)))
			}
			st := c.St
			for i := 0; i < len(ts); i++ {
				for j := 0; j+1 < len(ts)-i; j++ {
					lt := st.BVSLe(ts[j], ts[j+1])
					lo := st.Ite(lt, ts[j], ts[j+1])
					hi := st.Ite(lt, ts[j+1], ts[j])
					ts[j], ts[j+1] = lo, hi
				}
			}
		}
		for i, t := range ts {
			s.B.Store(c, s.Off+i, t)
		}
		return nil
	}
	tab["strconv.Itoa"] = func(c *Ctx, fn *ssa.Function, a []Value) Value {
		return strconv.FormatInt(c.concInt(a[0].(*smt.Term), "strconv.Itoa"), 10)
	}
	tab["strconv.FormatInt"] = func(c *Ctx, fn *ssa.Function, a []Value) Value {
		return strconv.FormatInt(c.concInt(a[0].(*smt.Term), "strconv.FormatInt"), int(c.concInt(a[1].(*smt.Term), "base")))
	}
	// ---- loading: the environment returns an arbitrary (value, error) pair
	ioErr := func(c *Ctx, what string) Value {
		return IfaceV{T: c.errStringT(), V: &ErrV{Msg: "<environment failure: " + what + ">"}}
	}
	tab["google.golang.org/protobuf/proto.Unmarshal"] = func(c *Ctx, fn *ssa.Function, a []Value) Value {
		c.E.Stubs["proto.Unmarshal (nondeterministic: error | message left as it is)"]++
		if c.E.Concrete != nil || c.decide("proto.Unmarshal outcome", 2) == 0 {
			return ioErr(c, "proto.Unmarshal")
		}
		return IfaceV{}
	}
	tab["os.ReadFile"] = func(c *Ctx, fn *ssa.Function, a []Value) Value {
		c.E.Stubs["os.ReadFile (nondeterministic: error | some bytes)"]++
		if c.E.Concrete != nil || c.decide("os.ReadFile outcome", 2) == 0 {
			return TupleV{SliceV{}, ioErr(c, "os.ReadFile")}
		}
		b := &idArr{ids: make([]int64, 3), sort: smt.BV(8)}
		return TupleV{SliceV{B: b, Len: 3, Cap: 3}, IfaceV{}}
	}
	tab["io.ReadAll"] = func(c *Ctx, fn *ssa.Function, a []Value) Value {
		c.E.Stubs["io.ReadAll (nondeterministic: error | some bytes)"]++
		if c.E.Concrete != nil || c.decide("io.ReadAll outcome", 2) == 0 {
			return TupleV{SliceV{}, ioErr(c, "io.ReadAll")}
		}
		b := &idArr{ids: make([]int64, 3), sort: smt.BV(8)}
		return TupleV{SliceV{B: b, Len: 3, Cap: 3}, IfaceV{}}
	}
	tab["(*archive/zip.File).Open"] = func(c *Ctx, fn *ssa.Function, a []Value) Value {
		c.E.Stubs["zip.File.Open (nondeterministic: error | a reader)"]++
		if c.E.Concrete != nil || c.decide("zip.File.Open outcome", 2) == 0 {
			return TupleV{IfaceV{}, ioErr(c, "zip.File.Open")}
		}
		return TupleV{IfaceV{T: c.errStringT(), V: &ErrV{Msg: "<reader handle>"}}, IfaceV{}}
	}
	tab[gonnxPath+".zzZipFile"] = func(c *Ctx, fn *ssa.Function, a []Value) Value {
		return new(Value) // an opaque *zip.File
	}
	tab["reflect.TypeOf"] = func(c *Ctx, fn *ssa.Function, a []Value) Value {
		iv, _ := a[0].(IfaceV)
		n := "<nil>"
		if iv.T != nil {
			n = typeString(iv.T)
		}
		return IfaceV{T: c.rtypeT(), V: RTypeV{Name: n, Kind: -1, Size: -1}}
	}
	// locks: the interpreter runs one goroutine, so acquiring and releasing never blocks and changes nothing
	for _, n := range []string{"(*sync.Mutex).Lock", "(*sync.Mutex).Unlock", "(*sync.RWMutex).Lock", "(*sync.RWMutex).Unlock", "(*sync.RWMutex).RLock", "(*sync.RWMutex).RUnlock"} {
		n := n
		tab[n] = func(c *Ctx, fn *ssa.Function, a []Value) Value { c.E.Stubs[n]++; return nil }
	}
	tab["(*sync.Mutex).TryLock"] = func(c *Ctx, fn *ssa.Function, a []Value) Value { return c.St.True() }
	// sync/atomic cells: one goroutine, so every operation is an ordinary load/store on a side table keyed by
	// the cell's address; stores are reported to the frame monitor like any other store
	cell := func(c *Ctx, p Value) *Value {
		sp, ok := p.(*Value)
		if !ok || sp == nil {
			panic(c.goPanic("nil atomic cell"))
		}
		return sp
	}
	aload := func(zero func(c *Ctx, fn *ssa.Function) Value) intrinsicFn {
		return func(c *Ctx, fn *ssa.Function, a []Value) Value {
			sp := cell(c, a[0])
			if v, ok := c.atomics[sp]; ok {
				return v
			}
			return zero(c, fn)
		}
	}
	astore := func(c *Ctx, fn *ssa.Function, a []Value) Value {
		sp := cell(c, a[0])
		if c.atomics == nil {
			c.atomics = map[*Value]Value{}
		}
		c.noteSlotWrite(sp)
		c.atomics[sp] = a[1]
		return nil
	}
	resultZero := func(c *Ctx, fn *ssa.Function) Value { return c.zero(fn.Signature.Results().At(0).Type()) }
	for _, T := range []string{"Bool", "Int32", "Int64", "Uint32", "Uint64", "Uintptr", "Pointer[T]", "Value"} {
		T := T
		R := "(*sync/atomic." + T + ")."
		tab[R+"Load"] = aload(resultZero)
		tab[R+"Store"] = astore
		tab[R+"Swap"] = func(c *Ctx, fn *ssa.Function, a []Value) Value {
			old := tab[R+"Load"](c, fn, a[:1])
			astore(c, fn, a)
			return old
		}
		tab[R+"CompareAndSwap"] = func(c *Ctx, fn *ssa.Function, a []Value) Value {
			sp := cell(c, a[0])
			cur, ok := c.atomics[sp]
			if !ok {
				cur = c.zero(fn.Signature.Params().At(0).Type())
			}
			eq := c.equal(cur, a[1])
			if !eq.IsConst() {
				eqb := c.branchOn(eq, "atomic compare-and-swap")
				if eqb {
					astore(c, fn, []Value{a[0], a[2]})
				}
				return c.St.BoolC(eqb)
			}
			if eq.BoolVal() {
				astore(c, fn, []Value{a[0], a[2]})
			}
			return eq
		}
		if T != "Bool" && T != "Value" && T != "Pointer[T]" {
			tab[R+"Add"] = func(c *Ctx, fn *ssa.Function, a []Value) Value {
				old := tab[R+"Load"](c, fn, a[:1]).(*smt.Term)
				n := c.St.BVAdd(old, a[1].(*smt.Term))
				astore(c, fn, []Value{a[0], n})
				return n
			}
		}
	}
	// sync.Map: a keyed side table per map address (one goroutine); stores reach the frame monitor
	type smEntry struct{ k, v Value }
	smap := func(c *Ctx, p Value, create bool) (*Value, map[string]*smEntry, *[]string) {
		sp := cell(c, p)
		if c.syncMaps == nil {
			c.syncMaps = map[*Value]interface{}{}
			c.syncOrder = map[*Value]*[]string{}
		}
		m, ok := c.syncMaps[sp].(map[string]*smEntry)
		if !ok {
			m = map[string]*smEntry{}
			c.syncMaps[sp] = m
			c.syncOrder[sp] = &[]string{}
		}
		return sp, m, c.syncOrder[sp]
	}
	tab["(*sync.Map).Load"] = func(c *Ctx, fn *ssa.Function, a []Value) Value {
		_, m, _ := smap(c, a[0], false)
		if e, ok := m[c.keyOf(a[1])]; ok {
			return TupleV{e.v, c.St.True()}
		}
		return TupleV{IfaceV{}, c.St.False()}
	}
	smStore := func(c *Ctx, a []Value) {
		sp, m, order := smap(c, a[0], true)
		c.noteSlotWrite(sp)
		k := c.keyOf(a[1])
		if _, ok := m[k]; !ok {
			*order = append(*order, k)
		}
		m[k] = &smEntry{a[1], a[2]}
	}
	tab["(*sync.Map).Store"] = func(c *Ctx, fn *ssa.Function, a []Value) Value { smStore(c, a); return nil }
	tab["(*sync.Map).LoadOrStore"] = func(c *Ctx, fn *ssa.Function, a []Value) Value {
		_, m, _ := smap(c, a[0], false)
		if e, ok := m[c.keyOf(a[1])]; ok {
			return TupleV{e.v, c.St.True()}
		}
		smStore(c, a)
		return TupleV{a[2], c.St.False()}
	}
	tab["(*sync.Map).Delete"] = func(c *Ctx, fn *ssa.Function, a []Value) Value {
		sp, m, order := smap(c, a[0], false)
		k := c.keyOf(a[1])
		if _, ok := m[k]; ok {
			c.noteSlotWrite(sp)
			delete(m, k)
			for i, o := range *order {
				if o == k {
					*order = append((*order)[:i:i], (*order)[i+1:]...)
					break
				}
			}
		}
		return nil
	}
	tab["(*sync.Map).Range"] = func(c *Ctx, fn *ssa.Function, a []Value) Value {
		_, m, order := smap(c, a[0], false)
		cl, ok := a[1].(*Closure)
		if !ok || cl == nil {
			panic(c.goPanic("sync.Map.Range(nil)"))
		}
		for _, k := range append([]string(nil), *order...) {
			e, ok := m[k]
			if !ok {
				continue
			}
			r := c.callClosure(cl, []Value{e.k, e.v}, nil)
			if t, ok := r.(*smt.Term); ok && t.IsConst() && !t.BoolVal() {
				break
			}
		}
		return nil
	}
	// sync.Pool: a stack per pool address. Get hands back the most recently Put object whenever there is one (the
	// schedule on which a stale object would show), and calls New otherwise.
	tab["(*sync.Pool).Put"] = func(c *Ctx, fn *ssa.Function, a []Value) Value {
		sp := cell(c, a[0])
		if iv, ok := a[1].(IfaceV); ok && iv.T == nil {
			return nil
		}
		if c.pools == nil {
			c.pools = map[*Value][]Value{}
		}
		c.pools[sp] = append(c.pools[sp], a[1])
		return nil
	}
	tab["(*sync.Pool).Get"] = func(c *Ctx, fn *ssa.Function, a []Value) Value {
		sp := cell(c, a[0])
		if st := c.pools[sp]; len(st) > 0 {
			x := st[len(st)-1]
			c.pools[sp] = st[:len(st)-1]
			return x
		}
		ps, ok := (*sp).(StructV)
		if !ok {
			panic(c.abort("sync.Pool held as %T", *sp))
		}
		pt := fn.Signature.Recv().Type().(*types.Pointer).Elem().Underlying().(*types.Struct)
		for i := 0; i < pt.NumFields(); i++ {
			if pt.Field(i).Name() == "New" {
				if cl, ok := ps[i].(*Closure); ok && cl != nil {
					return c.callClosure(cl, nil, nil)
				}
			}
		}
		return IfaceV{}
	}
	tab["(*sync.Once).Do"] = func(c *Ctx, fn *ssa.Function, a []Value) Value {
		sp := cell(c, a[0])
		if c.atomics == nil {
			c.atomics = map[*Value]Value{}
		}
		if _, done := c.atomics[sp]; done {
			return nil
		}
		c.noteSlotWrite(sp)
		c.atomics[sp] = c.St.True()
		if cl, ok := a[1].(*Closure); ok && cl != nil {
			c.callClosure(cl, nil, nil)
		}
		return nil
	}
	// reflect.Value of an interpreter value: only what length queries need
	tab["reflect.ValueOf"] = func(c *Ctx, fn *ssa.Function, a []Value) Value {
		iv, _ := a[0].(IfaceV)
		return RValV{V: iv}
	}
	tab["(reflect.Value).Len"] = func(c *Ctx, fn *ssa.Function, a []Value) Value {
		rv, ok := a[0].(RValV)
		if !ok {
			panic(c.abort("reflect.Value.Len on %T", a[0]))
		}
		if rv.V.T == nil {
			panic(c.goPanic("reflect: call of reflect.Value.Len on zero Value"))
		}
		switch x := rv.V.V.(type) {
		case SliceV:
			return c.St.BVC(64, uint64(x.Len))
		case string:
			return c.St.BVC(64, uint64(len(x)))
		case ArrayV:
			return c.St.BVC(64, uint64(len(x)))
		case *MapV:
			if x == nil {
				return c.St.BVC(64, 0)
			}
			return c.St.BVC(64, uint64(len(x.Order)))
		}
		panic(c.abort("reflect.Value.Len of %T (a real call would panic or is unmodelled)", rv.V.V))
	}
	tab["(reflect.Value).IsValid"] = func(c *Ctx, fn *ssa.Function, a []Value) Value {
		rv, _ := a[0].(RValV)
		return c.St.BoolC(rv.V.T != nil)
	}
	// math.Float32bits / Float64bits: the bit pattern of a float. SMT-LIB has one NaN, Go has many: the pattern is a
	// fresh bit-vector b with to_fp(b) = x (for a NaN: any NaN pattern, sign bit and payload free), one per term.
	fbits := func(w int, so smt.Sort) func(c *Ctx, fn *ssa.Function, a []Value) Value {
		return func(c *Ctx, fn *ssa.Function, a []Value) Value {
			x := a[0].(*smt.Term)
			if c.Ring {
				panic(c.abort("%s in exact real arithmetic", fn.Name()))
			}
			if x.IsConst() {
				return c.St.BVC(w, x.U)
			}
			if x.Op == smt.OBitsToFP {
				return x.Args[0]
			}
			if c.bitsOf == nil {
				c.bitsOf = map[int64]*smt.Term{}
			}
			if b, ok := c.bitsOf[x.ID]; ok {
				return b
			}
			name := fmt.Sprintf("bits!%d", x.ID)
			b := c.St.Sym(name, smt.BV(w))
			c.bitsOf[x.ID] = b
			if !c.namedSet[name] {
				c.namedSet[name] = true
				c.named = append(c.named, b)
			}
			c.assume(c.St.Eq(c.St.BitsToFP(b, so), x))
			return b
		}
	}
	tab["math.Float32bits"] = fbits(32, smt.FP32)
	tab["math.Float64bits"] = fbits(64, smt.FP64)
	tab["math.Float32frombits"] = func(c *Ctx, fn *ssa.Function, a []Value) Value {
		if c.Ring {
			if t := a[0].(*smt.Term); t.IsConst() {
				f := math.Float32frombits(uint32(t.U))
				if f != f || math.IsInf(float64(f), 0) {
					panic(c.abort("Float32frombits: non-finite constant in ring mode"))
				}
				return c.St.RealF(float64(f))
			}
			panic(c.abort("Float32frombits of a symbolic value in ring mode"))
		}
		return c.St.BitsToFP(a[0].(*smt.Term), smt.FP32)
	}
	tab["math.Float64frombits"] = func(c *Ctx, fn *ssa.Function, a []Value) Value {
		if c.Ring {
			if t := a[0].(*smt.Term); t.IsConst() {
				f := math.Float64frombits(t.U)
				if f != f || math.IsInf(f, 0) {
					panic(c.abort("Float64frombits: non-finite constant in ring mode"))
				}
				return c.St.RealF(f)
			}
			panic(c.abort("Float64frombits of a symbolic value in ring mode"))
		}
		return c.St.BitsToFP(a[0].(*smt.Term), smt.FP64)
	}
	tab["math.IsNaN"] = func(c *Ctx, fn *ssa.Function, a []Value) Value {
		t := a[0].(*smt.Term)
		if c.Ring {
			return c.St.False()
		}
		return c.St.FPIsNaN(t)
	}
	tab["math.IsInf"] = func(c *Ctx, fn *ssa.Function, a []Value) Value {
		t := a[0].(*smt.Term)
		if c.Ring {
			return c.St.False()
		}
		sign := c.concInt(a[1].(*smt.Term), "IsInf sign")
		st := c.St
		inf := st.FPIsInf(t)
		neg := st.FPLt(t, st.Zero(t.Sort))
		switch {
		case sign > 0:
			return st.And(inf, st.Not(neg))
		case sign < 0:
			return st.And(inf, neg)
		}
		return inf
	}
	tab["math.Inf"] = func(c *Ctx, fn *ssa.Function, a []Value) Value {
		sign := c.concInt(a[0].(*smt.Term), "Inf sign")
		return c.St.F64C(math.Inf(int(sign)))
	}
	tab["math.NaN"] = func(c *Ctx, fn *ssa.Function, a []Value) Value { return c.St.F64C(math.NaN()) }
	tab["math.Abs"] = func(c *Ctx, fn *ssa.Function, a []Value) Value {
		t := a[0].(*smt.Term)
		if c.Ring {
			return c.St.Ite(c.St.RLt(t, c.St.RealI(0)), c.St.RNeg(t), t)
		}
		return c.St.FPAbs(t)
	}
}

var mathFns = map[string]func(float64) float64{
	"acos": math.Acos, "acosh": math.Acosh, "asin": math.Asin, "asinh": math.Asinh, "atan": math.Atan, "atanh": math.Atanh,
	"cos": math.Cos, "cosh": math.Cosh, "sin": math.Sin, "sinh": math.Sinh, "tan": math.Tan, "tanh": math.Tanh,
	"exp": math.Exp, "log": math.Log, "sqrt": math.Sqrt,
}

var math32Fns = map[string]func(float32) float32{
	"m32.acos": math32.Acos, "m32.acosh": math32.Acosh, "m32.asin": math32.Asin, "m32.asinh": math32.Asinh, "m32.atan": math32.Atan, "m32.atanh": math32.Atanh,
	"m32.cos": math32.Cos, "m32.cosh": math32.Cosh, "m32.sin": math32.Sin, "m32.sinh": math32.Sinh, "m32.tan": math32.Tan, "m32.tanh": math32.Tanh,
	"m32.exp": math32.Exp, "m32.log": math32.Log, "m32.sqrt": math32.Sqrt,
}

// applyMath: constants are evaluated with the very routine the native code calls;
// symbolic arguments become an uninterpreted function named after the routine,
// with the IEEE special-value facts about exp/tanh added to the path condition.
func (c *Ctx) applyMath(name string, x *smt.Term) *smt.Term {
	st := c.St
	if x.IsConst() {
		if f, ok := mathFns[name]; ok && x.Sort.K == smt.KFP64 {
			return st.F64C(f(x.F64Val()))
		}
		if f, ok := math32Fns[name]; ok && x.Sort.K == smt.KFP32 {
			return st.F32C(f(x.F32Val()))
		}
	}
	// a value from a finite set of constants: the routine is evaluated case by case (smt/fd.go)
	if _, known := mathFns[strings.TrimPrefix(name, "m32.")]; known && x.Sort.IsFP() {
		if r := st.FDMap(x, func(v *smt.Term) *smt.Term { return c.applyMath(name, v) }); r != nil {
			return r
		}
	}
	r := st.App(c.ufName(name, x.Sort), x.Sort, x)
	if !x.Sort.IsFP() || c.spec > 0 {
		return r
	}
	if c.axiomDone == nil {
		c.axiomDone = map[int64]bool{}
	}
	if c.axiomDone[r.ID] {
		return r
	}
	c.axiomDone[r.ID] = true
	zero := st.Zero(x.Sort)
	one := c.one(x.Sort)
	var pinf, ninf *smt.Term
	if x.Sort.K == smt.KFP32 {
		pinf, ninf = st.F32C(float32(math.Inf(1))), st.F32C(float32(math.Inf(-1)))
	} else {
		pinf, ninf = st.F64C(math.Inf(1)), st.F64C(math.Inf(-1))
	}
	base := strings.TrimPrefix(name, "m32.")
	var ax []*smt.Term
	switch base {
	case "exp":
		ax = []*smt.Term{
			st.Eq(st.FPIsNaN(x), st.FPIsNaN(r)),
			st.Implies(st.Eq(x, pinf), st.Eq(r, pinf)),
			st.Implies(st.Eq(x, ninf), st.Eq(r, zero)),
			st.Implies(st.Not(st.FPIsNaN(x)), st.FPLe(zero, r)),
			st.Implies(st.FPLe(x, zero), st.FPLe(r, one)),
			st.Implies(st.FPLe(zero, x), st.FPLe(one, r)),
		}
		fc := func(f float64) *smt.Term {
			if x.Sort.K == smt.KFP32 {
				return st.F32C(float32(f))
			}
			return st.F64C(f)
		}
		for _, b := range [][2]float64{{-1, 0.25}, {-16, 1e-7}, {-80, 1e-35}} {
			ax = append(ax, st.Implies(st.FPLe(fc(b[0]), x), st.FPLe(fc(b[1]), r)))
		}
		for _, b := range [][2]float64{{1, 3}, {16, 1e7}, {80, 1e35}} {
			ax = append(ax, st.Implies(st.FPLe(x, fc(b[0])), st.FPLe(r, fc(b[1]))))
		}
		if x.Sort.K == smt.KFP64 {
			ax = append(ax, st.Implies(st.FPLe(fc(-700), x), st.FPLe(fc(1e-305), r)), st.Implies(st.FPLe(x, fc(700)), st.FPLe(r, fc(1.1e304))))
			// saturation far outside the representable range
			ax = append(ax, st.Implies(st.FPLe(x, fc(-800)), st.Eq(r, zero)), st.Implies(st.FPLe(fc(720), x), st.Eq(r, pinf)))
		} else {
			ax = append(ax, st.Implies(st.FPLe(x, fc(-120)), st.Eq(r, zero)), st.Implies(st.FPLe(fc(100), x), st.Eq(r, pinf)))
		}
		c.E.Assumptions["exp saturates: float32 x<=-120 => +0, x>=100 => +Inf; float64 x<=-800 => +0, x>=720 => +Inf (assumed of Go's routines)"] = true
		c.E.Assumptions["exp/math32.Exp bracketing: x>=-1 => exp>=0.25, x>=-16 => exp>=1e-7, x>=-80 => exp>=1e-35, x<=1 => exp<=3, x<=16 => exp<=1e7, x<=80 => exp<=1e35 (float64 also +-700)"] = true
		c.E.Assumptions["exp/math32.Exp: NaN iff NaN, exp(+Inf)=+Inf, exp(-Inf)=+0, exp(x)>=0, x<=0 => exp(x)<=1, x>=0 => exp(x)>=1 (assumed of Go's routines)"] = true
	case "tanh":
		ax = []*smt.Term{
			st.Eq(st.FPIsNaN(x), st.FPIsNaN(r)),
			st.Implies(st.Eq(x, pinf), st.Eq(r, one)),
			st.Implies(st.Eq(x, ninf), st.Eq(r, st.FPNeg(one))),
			st.Implies(st.Not(st.FPIsNaN(x)), st.And(st.FPLe(st.FPNeg(one), r), st.FPLe(r, one))),
			st.Implies(st.FPLe(zero, x), st.FPLe(zero, r)),
			st.Implies(st.FPLe(x, zero), st.FPLe(r, zero)),
		}
		c.E.Assumptions["tanh/math32.Tanh: NaN iff NaN, tanh(+-Inf)=+-1, |tanh(x)|<=1, sign preserved (assumed of Go's routines)"] = true
	case "log":
		ax = []*smt.Term{
			st.Eq(st.FPIsNaN(r), st.Or(st.FPIsNaN(x), st.FPLt(x, zero))),
			st.Implies(st.Eq(x, pinf), st.Eq(r, pinf)),
			st.Implies(st.FPEq(x, zero), st.Eq(r, ninf)),
			st.Implies(st.FPLe(one, x), st.FPLe(zero, r)),
			st.Implies(st.And(st.FPLe(zero, x), st.FPLe(x, one)), st.FPLe(r, zero)),
			st.Implies(st.And(st.FPLt(zero, x), st.FPLt(x, pinf)), st.And(st.FPLt(ninf, r), st.FPLt(r, pinf))),
		}
		c.E.Assumptions["log/math32.Log: NaN iff NaN or x<0, log(+Inf)=+Inf, log(+-0)=-Inf, x>=1 => log>=0, 0<=x<=1 => log<=0, finite for finite positive x (assumed of Go's routines)"] = true
	}
	for _, a := range ax {
		c.assume(a)
	}
	return r
}

// mathIntrinsic: one-argument math / math32 functions.
func mathIntrinsic(c *Ctx, fn *ssa.Function, a []Value) Value {
	name := strings.ToLower(fn.Name())
	if len(a) != 1 {
		panic(c.abort("unmodelled math function %s", fn))
	}
	x, ok := a[0].(*smt.Term)
	if !ok {
		panic(c.abort("math.%s on %T", name, a[0]))
	}
	c.E.Stubs[fn.String()]++
	if strings.Contains(fn.String(), "math32") {
		name = "m32." + name
	}
	if c.Ring {
		base := strings.TrimPrefix(name, "m32.")
		if base == "exp" {
			return c.expReal(x)
		}
		return c.St.App(c.ufName(base, x.Sort), x.Sort, x)
	}
	return c.applyMath(name, x)
}

// ---- zzverif runtime

func hashName(s string) uint32 {
	h := uint32(2166136261)
	for i := 0; i < len(s); i++ {
		h ^= uint32(s[i])
		h *= 16777619
	}
	return h
}

func (c *Ctx) newHarnessT() Value {
	slot := new(Value)
	*slot = StructV{}
	return slot
}

func (c *Ctx) caseVal(name string) (interface{}, bool) {
	x, ok := c.E.Case[name]
	return x, ok
}

func toInt(x interface{}) (int, bool) {
	switch n := x.(type) {
	case float64:
		return int(n), true
	case int:
		return n, true
	case int64:
		return int(n), true
	}
	return 0, false
}

func (c *Ctx) symOfType(name string, T types.Type) *smt.Term {
	so, ok := c.sortOf(T)
	if !ok {
		panic(c.abort("symbol %s of type %s", name, typeString(T)))
	}
	if _, seen := c.E.SymKinds[name]; !seen {
		b := T.Underlying().(*types.Basic)
		switch {
		case b.Info()&types.IsBoolean != 0:
			c.E.SymKinds[name] = "bool"
		case b.Kind() == types.Float32:
			c.E.SymKinds[name] = "f32"
		case b.Info()&types.IsFloat != 0:
			c.E.SymKinds[name] = "f64"
		case isSigned(T):
			c.E.SymKinds[name] = fmt.Sprintf("bv%ds", intWidth(b))
		default:
			c.E.SymKinds[name] = fmt.Sprintf("bv%du", intWidth(b))
		}
	}
	if c.E.Concrete != nil {
		return c.concreteSym(name, T, so)
	}
	t := c.St.Sym(name, so)
	if !c.namedSet[name] {
		c.namedSet[name] = true
		c.named = append(c.named, t)
	}
	return t
}

// concreteSym mirrors zzverif.Sym's native behaviour (same defaults).
func (c *Ctx) concreteSym(name string, T types.Type, so smt.Sort) *smt.Term {
	st := c.St
	b := T.Underlying().(*types.Basic)
	s, ok := c.E.Concrete[name]
	if !ok {
		h := hashName(name)
		switch {
		case so.K == smt.KBool:
			return st.BoolC(h&1 == 1)
		case b.Info()&types.IsFloat != 0:
			f := float64(int(h%13)-6) / 2
			if c.Ring {
				return st.RealF(f)
			}
			if so.K == smt.KFP32 {
				return st.F32C(float32(f))
			}
			return st.F64C(f)
		case isSigned(T):
			return st.BVC(so.W, uint64(int64(h%7)-3))
		default:
			return st.BVC(so.W, uint64(h%5))
		}
	}
	switch {
	case so.K == smt.KBool:
		return st.BoolC(s == "true")
	case strings.HasPrefix(s, "r:"):
		r, ok := newRat(s[2:])
		if !ok {
			panic(c.abort("bad rational %q", s))
		}
		if c.Ring {
			return st.RealC(r)
		}
		f, _ := r.Float64()
		if so.K == smt.KFP32 {
			return st.F32C(float32(f))
		}
		return st.F64C(f)
	}
	i := strings.IndexByte(s, ':')
	if i < 0 {
		panic(c.abort("bad assignment %q for %s", s, name))
	}
	kind, val := s[:i], s[i+1:]
	switch {
	case strings.HasPrefix(kind, "bv"):
		u, _ := strconv.ParseUint(val, 10, 64)
		return st.BVC(so.W, u)
	case kind == "f32":
		u, _ := strconv.ParseUint(val, 16, 64)
		if so.K == smt.KFP64 {
			return st.F64C(float64(math.Float32frombits(uint32(u))))
		}
		return st.F32Bits(uint32(u))
	case kind == "f64":
		u, _ := strconv.ParseUint(val, 16, 64)
		if so.K == smt.KFP32 {
			return st.F32C(float32(math.Float64frombits(u)))
		}
		return st.F64Bits(u)
	}
	panic(c.abort("bad assignment %q for %s", s, name))
}

func (c *Ctx) str(v Value) string {
	s, ok := v.(string)
	if !ok {
		panic(c.abort("expected concrete string, got %T", v))
	}
	return s
}

func (c *Ctx) stringsVal(xs []string) Value {
	a := make([]Value, len(xs))
	for i, x := range xs {
		a[i] = x
	}
	return SliceV{B: &boxArr{a: a}, Len: len(xs), Cap: len(xs)}
}

type snapV struct {
	nilT    bool
	shape   []int
	strides []int
	dt      tensor.Dtype
	terms   []*smt.Term
}

func (c *Ctx) elemEq(a, b *smt.Term) *smt.Term {
	if a.Sort != b.Sort {
		return c.St.False()
	}
	return c.St.Eq(a, b)
}

func sameInts(a, b []int) bool {
	if len(a) != len(b) {
		return false
	}
	for i := range a {
		if a[i] != b[i] {
			return false
		}
	}
	return true
}

func (c *Ctx) registerZZ(tab map[string]intrinsicFn) {
	M := "(*" + zzPath + ".T)."
	F := zzPath + "."
	tab[M+"Has"] = func(c *Ctx, fn *ssa.Function, a []Value) Value {
		_, ok := c.caseVal(c.str(a[1]))
		return c.St.BoolC(ok)
	}
	tab[M+"CInt"] = func(c *Ctx, fn *ssa.Function, a []Value) Value {
		x, ok := c.caseVal(c.str(a[1]))
		if !ok {
			panic(c.abort("missing case parameter %s", c.str(a[1])))
		}
		i, ok := toInt(x)
		if !ok {
			panic(c.abort("case parameter %s is %T", c.str(a[1]), x))
		}
		return c.St.BVC(64, uint64(int64(i)))
	}
	tab[M+"CInts"] = func(c *Ctx, fn *ssa.Function, a []Value) Value {
		x, ok := c.caseVal(c.str(a[1]))
		if !ok || x == nil {
			return SliceV{}
		}
		var xs []int
		switch l := x.(type) {
		case []interface{}:
			for _, e := range l {
				i, _ := toInt(e)
				xs = append(xs, i)
			}
		case []int:
			xs = l
		default:
			panic(c.abort("case parameter %s is %T", c.str(a[1]), x))
		}
		if xs == nil {
			xs = []int{}
		}
		return c.intSliceVal(xs)
	}
	tab[M+"CStr"] = func(c *Ctx, fn *ssa.Function, a []Value) Value {
		x, ok := c.caseVal(c.str(a[1]))
		if !ok {
			panic(c.abort("missing case parameter %s", c.str(a[1])))
		}
		return x.(string)
	}
	tab[M+"CStrs"] = func(c *Ctx, fn *ssa.Function, a []Value) Value {
		x, ok := c.caseVal(c.str(a[1]))
		if !ok || x == nil {
			return SliceV{}
		}
		var xs []string
		switch l := x.(type) {
		case []interface{}:
			for _, e := range l {
				xs = append(xs, e.(string))
			}
		case []string:
			xs = l
		}
		return c.stringsVal(xs)
	}
	tab[M+"CBool"] = func(c *Ctx, fn *ssa.Function, a []Value) Value {
		x, ok := c.caseVal(c.str(a[1]))
		if !ok {
			return c.St.False()
		}
		return c.St.BoolC(x.(bool))
	}
	tab[M+"Ring"] = func(c *Ctx, fn *ssa.Function, a []Value) Value {
		if len(c.named) > 0 {
			panic(c.abort("Ring() must be called before any symbol is created"))
		}
		c.Ring = true
		return nil
	}
	tab[M+"MapOrders"] = func(c *Ctx, fn *ssa.Function, a []Value) Value { c.MapOrders = true; return nil }
	tab[F+"Sym"] = func(c *Ctx, fn *ssa.Function, a []Value) Value {
		return c.symOfType(c.str(a[1]), fn.TypeArgs()[0])
	}
	tab[F+"Syms"] = func(c *Ctx, fn *ssa.Function, a []Value) Value {
		name := c.str(a[1])
		n := int(c.concInt(a[2].(*smt.Term), "Syms n"))
		T := fn.TypeArgs()[0]
		so, _ := c.sortOf(T)
		b := &idArr{ids: make([]int64, n), sort: so}
		for i := 0; i < n; i++ {
			b.ids[i] = c.symOfType(fmt.Sprintf("%s[%d]", name, i), T).ID
		}
		return SliceV{B: b, Len: n, Cap: n}
	}
	intIn := func(c *Ctx, fn *ssa.Function, a []Value) Value {
		name := c.str(a[1])
		lo, hi := a[2].(*smt.Term), a[3].(*smt.Term)
		T := fn.Signature.Results().At(0).Type()
		var x *smt.Term
		if c.E.Concrete != nil {
			if _, ok := c.E.Concrete[name]; ok {
				x = c.symOfType(name, T)
			} else {
				x = lo
			}
		} else {
			x = c.symOfType(name, T)
		}
		cond := c.St.And(c.St.BVSLe(lo, x), c.St.BVSLe(x, hi))
		if lo.IsConst() && hi.IsConst() {
			c.E.SymRanges[name] = [2]int64{lo.SVal(), hi.SVal()}
		}
		c.E.Assumptions[fmt.Sprintf("%s in [%d, %d]", name, lo.SVal(), hi.SVal())] = true
		c.doAssume(cond)
		return x
	}
	tab[M+"IntIn"] = intIn
	// Choose: one of finitely many values, selected by a bounded integer symbol, as ONE term (an if-then-else chain)
	// instead of one path per alternative
	tab[F+"Choose"] = func(c *Ctx, fn *ssa.Function, a []Value) Value {
		vals := a[2].(SliceV)
		if vals.Len == 0 {
			panic(c.abort("Choose: no alternatives"))
		}
		intT := types.Typ[types.Int]
		name := c.str(a[1])
		var x *smt.Term
		if c.E.Concrete != nil {
			if _, ok := c.E.Concrete[name]; ok {
				x = c.symOfType(name, intT)
			} else {
				x = c.St.BVC(64, 0)
			}
		} else {
			x = c.symOfType(name, intT)
		}
		hi := c.St.BVC(64, uint64(vals.Len-1))
		c.E.SymRanges[name] = [2]int64{0, int64(vals.Len - 1)}
		c.E.Assumptions[fmt.Sprintf("%s in [0, %d]", name, vals.Len-1)] = true
		c.doAssume(c.St.And(c.St.BVSLe(c.St.BVC(64, 0), x), c.St.BVSLe(x, hi)))
		r := vals.B.Load(c, vals.Off).(*smt.Term)
		for k := 1; k < vals.Len; k++ {
			r = c.St.Ite(c.St.Eq(x, c.St.BVC(64, uint64(k))), vals.B.Load(c, vals.Off+k).(*smt.Term), r)
		}
		return r
	}
	tab[M+"Int64In"] = intIn
	tab[M+"FreshString"] = func(c *Ctx, fn *ssa.Function, a []Value) Value {
		if c.E.Concrete != nil {
			return "\x00zzverif-fresh-" + c.str(a[1])
		}
		return FreshStr{Name: c.str(a[1])}
	}
	tab[M+"Assume"] = func(c *Ctx, fn *ssa.Function, a []Value) Value {
		c.doAssume(a[1].(*smt.Term))
		return nil
	}
	tab[M+"Assert"] = func(c *Ctx, fn *ssa.Function, a []Value) Value {
		c.assertCond(c.str(a[1]), a[2].(*smt.Term), "")
		return nil
	}
	tab[M+"Region"] = func(c *Ctx, fn *ssa.Function, a []Value) Value {
		c.regions = append(c.regions, region{name: c.str(a[1]), cond: a[2].(*smt.Term)})
		return nil
	}
	tab[M+"Note"] = func(c *Ctx, fn *ssa.Function, a []Value) Value { return nil }
	tab[M+"Try"] = func(c *Ctx, fn *ssa.Function, a []Value) Value {
		cl := a[1].(*Closure)
		depth := len(c.stack)
		var res Value = c.St.False()
		func() {
			defer func() {
				if r := recover(); r != nil {
					if p, ok := r.(*PanicV); ok {
						c.stack = c.stack[:depth]
						c.lastPanic = p
						c.E.PanicsSeen = append(c.E.PanicsSeen, p.Msg)
						res = c.St.True()
						return
					}
					panic(r)
				}
			}()
			c.callClosure(cl, nil, nil)
		}()
		return res
	}
	tab[M+"Is"] = func(c *Ctx, fn *ssa.Function, a []Value) Value {
		return c.St.BoolC(c.errorsIs(a[1], a[2], 0))
	}
	tab[F+"Register"] = func(c *Ctx, fn *ssa.Function, a []Value) Value { return nil }
	assertTensor := func(numeric bool) intrinsicFn {
		return func(c *Ctx, fn *ssa.Function, a []Value) Value {
			label := c.str(a[1])
			got := c.asShadow(a[2])
			wantShape := c.intsOf(a[3], "AssertTensor shape")
			wv, ok := a[4].(IfaceV)
			if !ok || wv.T == nil {
				panic(c.abort("AssertTensor: want is nil"))
			}
			ws := wv.V.(SliceV)
			eb := wv.T.Underlying().(*types.Slice).Elem().Underlying().(*types.Basic)
			wd, _ := dtypeOfBasic(eb)
			if got == nil {
				c.assertCond(label, c.St.False(), "result tensor is nil")
				return nil
			}
			if !sameInts(got.ids.Shape(), wantShape) {
				c.assertCond(label, c.St.False(), fmt.Sprintf("shape %v, want %v", got.ids.Shape(), wantShape))
				return nil
			}
			if got.dt != wd {
				c.assertCond(label, c.St.False(), fmt.Sprintf("dtype %v, want %v", got.dt, wd))
				return nil
			}
			gt := c.logicalTerms(got)
			if len(gt) != ws.Len {
				c.assertCond(label, c.St.False(), fmt.Sprintf("%d elements, want %d", len(gt), ws.Len))
				return nil
			}
			cond := c.St.True()
			for i, g := range gt {
				w := ws.B.Load(c, ws.Off+i).(*smt.Term)
				if numeric && g.Sort.IsFP() && g.Sort == w.Sort {
					cond = c.St.And(cond, c.St.Or(c.St.FPEq(g, w), c.St.And(c.St.FPIsNaN(g), c.St.FPIsNaN(w))))
				} else {
					cond = c.St.And(cond, c.elemEq(g, w))
				}
			}
			c.assertCond(label, cond, "")
			return nil
		}
	}
	tab[M+"AssertTensor"] = assertTensor(false)
	tab[M+"AssertTensorNum"] = assertTensor(true)
	tab[M+"AssertSameTensor"] = func(c *Ctx, fn *ssa.Function, a []Value) Value {
		label := c.str(a[1])
		got, want := c.asShadow(a[2]), c.asShadow(a[3])
		if got == nil || want == nil {
			c.assertCond(label, c.St.BoolC(got == nil && want == nil), "one tensor is nil")
			return nil
		}
		if !sameInts(got.ids.Shape(), want.ids.Shape()) || got.dt != want.dt {
			c.assertCond(label, c.St.False(), fmt.Sprintf("shape/dtype %v %v vs %v %v", got.ids.Shape(), got.dt, want.ids.Shape(), want.dt))
			return nil
		}
		gt, wt := c.logicalTerms(got), c.logicalTerms(want)
		cond := c.St.True()
		for i := range gt {
			cond = c.St.And(cond, c.elemEq(gt[i], wt[i]))
		}
		c.assertCond(label, cond, "")
		return nil
	}
	tab[M+"Snapshot"] = func(c *Ctx, fn *ssa.Function, a []Value) Value {
		s := c.asShadow(a[1])
		slot := new(Value)
		if s == nil {
			*slot = &snapV{nilT: true}
		} else {
			*slot = &snapV{shape: append([]int{}, s.ids.Shape()...), strides: append([]int{}, s.ids.Strides()...), dt: s.dt, terms: c.logicalTerms(s)}
		}
		return slot
	}
	tab[M+"AssertUnchanged"] = func(c *Ctx, fn *ssa.Function, a []Value) Value {
		label := c.str(a[1])
		s := c.asShadow(a[2])
		sn := (*(a[3].(*Value))).(*snapV)
		if sn.nilT {
			c.assertCond(label, c.St.True(), "")
			return nil
		}
		if !sameInts(s.ids.Shape(), sn.shape) || !sameInts(s.ids.Strides(), sn.strides) || s.dt != sn.dt {
			c.assertCond(label, c.St.False(), fmt.Sprintf("shape %v strides %v, before: shape %v strides %v", s.ids.Shape(), s.ids.Strides(), sn.shape, sn.strides))
			return nil
		}
		ts := c.logicalTerms(s)
		cond := c.St.True()
		for i := range ts {
			cond = c.St.And(cond, c.elemEq(ts[i], sn.terms[i]))
		}
		c.assertCond(label, cond, "")
		return nil
	}
	tab[M+"ShapeTensor"] = func(c *Ctx, fn *ssa.Function, a []Value) Value {
		dims := a[2].(SliceV)
		s := &Shadow{abs: true, dt: tensor.Float32, name: c.str(a[1])}
		for k := 0; k < dims.Len; k++ {
			s.absShape = append(s.absShape, dims.B.Load(c, dims.Off+k).(*smt.Term))
		}
		return c.tensorVal(s)
	}
	tab[M+"DtypeTensor"] = func(c *Ctx, fn *ssa.Function, a []Value) Value {
		name := c.str(a[1])
		T := types.Typ[types.Int]
		var x *smt.Term
		if c.E.Concrete != nil {
			if _, ok := c.E.Concrete[name+".dtype"]; ok {
				x = c.symOfType(name+".dtype", T)
			} else {
				c.symOfType(name+".dtype", T)
				x = c.St.BVC(64, 0)
			}
		} else {
			x = c.symOfType(name+".dtype", T)
		}
		c.E.SymRanges[name+".dtype"] = [2]int64{0, 13}
		c.doAssume(c.St.And(c.St.BVSLe(c.St.BVC(64, 0), x), c.St.BVSLe(x, c.St.BVC(64, 13))))
		s := &Shadow{abs: true, name: name, dtSym: c.St.Extract(x, 7, 0), absShape: []*smt.Term{c.St.BVC(64, 1)}}
		return c.tensorVal(s)
	}
	tab[M+"Fingerprint"] = func(c *Ctx, fn *ssa.Function, a []Value) Value {
		return c.fingerprint(a[1], 0, map[*Value]bool{})
	}
	tab[M+"Concrete"] = func(c *Ctx, fn *ssa.Function, a []Value) Value {
		return c.concretize(a[1].(*smt.Term), "harness: Concrete")
	}
	tab[M+"StopAtBoundary"] = func(c *Ctx, fn *ssa.Function, a []Value) Value {
		c.stopAtBoundary = true
		return nil
	}
	tab[M+"Protect"] = func(c *Ctx, fn *ssa.Function, a []Value) Value {
		if s := c.asShadow(a[2]); s != nil {
			c.protected[s] = c.str(a[1])
		}
		return nil
	}
	tab[M+"ProtectAll"] = func(c *Ctx, fn *ssa.Function, a []Value) Value {
		c.protectReachable(c.str(a[1]), a[2])
		return nil
	}
	tab[M+"ProtectPackageState"] = func(c *Ctx, fn *ssa.Function, a []Value) Value {
		c.protectGlobals()
		return nil
	}
	tab[M+"AssertNoWrites"] = func(c *Ctx, fn *ssa.Function, a []Value) Value {
		d := strings.Join(c.writes, "; ")
		if c.E.Concrete != nil && len(c.writes) > 0 {
			// the native run cannot see transient writes: recorded separately for cross-validation
			c.E.Observed = append(c.E.Observed, "MONITOR "+c.str(a[1]))
			c.E.AssertsTotal++
			c.E.Reached[c.str(a[1])]++
			c.writes = nil
			return nil
		}
		c.assertCond(c.str(a[1]), c.St.BoolC(len(c.writes) == 0), d)
		c.writes = nil
		return nil
	}
}

// doAssume adds an assumption and ends the path when it makes it infeasible.
func (c *Ctx) doAssume(cond *smt.Term) {
	if cond.IsConst() {
		if !cond.BoolVal() {
			if c.E.Concrete != nil {
				c.E.Observed = append(c.E.Observed, "ASSUME-FAIL")
			}
			panic(pathEnd{})
		}
		return
	}
	if c.E.Concrete != nil {
		panic(c.abort("non-constant assumption in concrete mode"))
	}
	c.assume(cond)
	if c.dpos >= len(c.prefix) {
		if c.check() == smt.Unsat {
			panic(pathEnd{})
		}
	}
}

// fingerprint renders the state reachable from a value (pointers followed).
func (c *Ctx) fingerprint(v Value, depth int, seen map[*Value]bool) string {
	if depth > 12 {
		return "..."
	}
	switch x := v.(type) {
	case nil:
		return "nil"
	case *smt.Term:
		if !x.IsConst() {
			panic(c.abort("Fingerprint of symbolic state"))
		}
		switch x.Sort.K {
		case smt.KBool:
			return fmt.Sprint(x.BoolVal())
		case smt.KBV:
			return fmt.Sprint(x.SVal())
		case smt.KFP32:
			return fmt.Sprint(float64(x.F32Val()))
		case smt.KFP64:
			return fmt.Sprint(x.F64Val())
		default:
			f, _ := x.R.Float64()
			return fmt.Sprint(f)
		}
	case string:
		return strconv.Quote(x)
	case StructV:
		var p []string
		for _, f := range x {
			p = append(p, c.fingerprint(f, depth+1, seen))
		}
		return "{" + strings.Join(p, " ") + "}"
	case ArrayV:
		var p []string
		for _, f := range x {
			p = append(p, c.fingerprint(f, depth+1, seen))
		}
		return "[" + strings.Join(p, " ") + "]"
	case ScalarArr:
		var p []string
		for i := range x.A.ids {
			p = append(p, c.fingerprint(x.A.Load(c, i), depth+1, seen))
		}
		return "[" + strings.Join(p, " ") + "]"
	case SliceV:
		if x.B == nil {
			return "[]"
		}
		var p []string
		for i := 0; i < x.Len; i++ {
			p = append(p, c.fingerprint(x.B.Load(c, x.Off+i), depth+1, seen))
		}
		return "[" + strings.Join(p, " ") + "]"
	case *Value:
		if x == nil {
			return "nil"
		}
		if seen[x] {
			return "&cycle"
		}
		seen[x] = true
		return "&" + c.fingerprint(*x, depth+1, seen)
	case IfaceV:
		if x.T == nil {
			return "nil"
		}
		return c.fingerprint(x.V, depth+1, seen)
	case *MapV:
		if x == nil {
			return "map[]"
		}
		var p []string
		for _, k := range x.Order {
			e := x.M[k]
			p = append(p, c.fingerprint(e.K, depth+1, seen)+":"+c.fingerprint(e.V, depth+1, seen))
		}
		sort.Strings(p)
		return "map[" + strings.Join(p, " ") + "]"
	case *Closure:
		if x == nil {
			return "func:nil"
		}
		return "func"
	case DtypeV:
		if x.Idx >= 0 {
			return dtypeNames[x.Idx]
		}
		return "dtype?"
	case *Shadow:
		if x == nil {
			return "nil"
		}
		return "tensor" + fmt.Sprint(x.ids.Shape())
	}
	return fmt.Sprintf("<%T>", v)
}
