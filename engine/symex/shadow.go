package symex

import (
	"fmt"
	"go/types"
	"reflect"

	"verif/engine/smt"

	"gorgonia.org/tensor"
)

// Shadow is the interpreter's view of a gorgonia *Dense: the real gorgonia runs
// natively on two tensors — ids (int64 term ids: placement, aliasing, views)
// and twin (declared dtype, benign values: errors, panics, result dtype).
type Shadow struct {
	ids  *tensor.Dense
	twin *tensor.Dense
	dt   tensor.Dtype
	name string
	// abstract tensor: only its (possibly symbolic) shape exists
	abs      bool
	absShape []*smt.Term
	dtSym    *smt.Term // symbolic dtype (index into the dtype universe), abstract tensors only
}

func (c *Ctx) absMethod(s *Shadow, name string) Value {
	switch name {
	case "Shape":
		b := &idArr{ids: make([]int64, len(s.absShape)), sort: smt.BV(64)}
		for i, t := range s.absShape {
			b.ids[i] = t.ID
		}
		if len(s.absShape) == 0 {
			return SliceV{B: b}
		}
		return SliceV{B: b, Len: len(s.absShape), Cap: len(s.absShape)}
	case "Dtype":
		if s.dtSym != nil {
			if s.dtSym.IsConst() {
				return DtypeV{Idx: int(s.dtSym.U)}
			}
			return DtypeV{Idx: -1, Sym: s.dtSym}
		}
		return DtypeV{Idx: dtypeIndex(s.dt)}
	case "Dims":
		return c.St.BVC(64, uint64(len(s.absShape)))
	case "Size", "DataSize":
		// a freshly made contiguous tensor: as many stored elements as its shape says
		n := c.St.BVC(64, 1)
		for _, d := range s.absShape {
			n = c.St.BVMul(n, d)
		}
		return n
	case "IsScalar":
		return c.St.BoolC(len(s.absShape) == 0)
	}
	panic(c.abort("abstract (shape-only) tensor %s: call of %s touches more than its shape", s.name, name))
}

type IterV struct {
	it tensor.Iterator
}

var dtypeUniverse = []tensor.Dtype{
	tensor.Uint8, tensor.Uint16, tensor.Uint32, tensor.Uint64,
	tensor.Int8, tensor.Int16, tensor.Int32, tensor.Int64,
	tensor.Float32, tensor.Float64,
	tensor.Complex64, tensor.Complex128,
	tensor.String, tensor.Bool,
	tensor.Int, tensor.Uint, tensor.Uintptr, tensor.UnsafePointer,
}

var dtypeNames = []string{"Uint8", "Uint16", "Uint32", "Uint64", "Int8", "Int16", "Int32", "Int64",
	"Float32", "Float64", "Complex64", "Complex128", "String", "Bool", "Int", "Uint", "Uintptr", "UnsafePointer"}

func dtypeIndex(d tensor.Dtype) int {
	for i, u := range dtypeUniverse {
		if u == d {
			return i
		}
	}
	return -2
}

func (c *Ctx) dtypeEq(a, b DtypeV) *smt.Term {
	st := c.St
	if a.Idx != -1 && b.Idx != -1 {
		return st.BoolC(a.Idx == b.Idx)
	}
	ta, tb := a.Sym, b.Sym
	if a.Idx != -1 {
		ta = st.BVC(8, uint64(a.Idx))
	}
	if b.Idx != -1 {
		tb = st.BVC(8, uint64(b.Idx))
	}
	return st.Eq(ta, tb)
}

func (c *Ctx) lookupSymDtype(m *MapV, d DtypeV, valT types.Type, commaOk bool) Value {
	st := c.St
	found := st.False()
	var val Value = c.zero(valT)
	if m != nil {
		for _, k := range m.Order {
			e := m.M[k]
			kd, ok := e.K.(DtypeV)
			if !ok || kd.Idx < 0 {
				panic(c.abort("symbolic dtype lookup in a map with non-dtype keys"))
			}
			eq := st.Eq(d.Sym, st.BVC(8, uint64(kd.Idx)))
			found = st.Or(found, eq)
			if vt, ok := val.(*smt.Term); ok {
				val = st.Ite(eq, e.V.(*smt.Term), vt)
			} else {
				panic(c.abort("symbolic dtype lookup with non-scalar map values"))
			}
		}
	}
	if commaOk {
		return TupleV{val, found}
	}
	return val
}

// goTypeOf returns the reflect type and SMT sort of a dtype's elements.
func (c *Ctx) elemSort(d tensor.Dtype) (smt.Sort, bool) {
	switch d {
	case tensor.Bool:
		return smt.Bool, true
	case tensor.Int8, tensor.Uint8:
		return smt.BV(8), true
	case tensor.Int16, tensor.Uint16:
		return smt.BV(16), true
	case tensor.Int32, tensor.Uint32:
		return smt.BV(32), true
	case tensor.Int64, tensor.Uint64, tensor.Int, tensor.Uint:
		return smt.BV(64), true
	case tensor.Float32:
		if c.Ring {
			return smt.Real, true
		}
		return smt.FP32, true
	case tensor.Float64:
		if c.Ring {
			return smt.Real, true
		}
		return smt.FP64, true
	}
	return smt.Sort{}, false
}

func dtypeSigned(d tensor.Dtype) bool {
	switch d {
	case tensor.Int8, tensor.Int16, tensor.Int32, tensor.Int64, tensor.Int:
		return true
	}
	return false
}

func dtypeIsFloat(d tensor.Dtype) bool { return d == tensor.Float32 || d == tensor.Float64 }
func dtypeIsInt(d tensor.Dtype) bool {
	switch d {
	case tensor.Int8, tensor.Int16, tensor.Int32, tensor.Int64, tensor.Int,
		tensor.Uint8, tensor.Uint16, tensor.Uint32, tensor.Uint64, tensor.Uint:
		return true
	}
	return false
}

// dtypeOfGoType maps a Go basic type to the gorgonia dtype.
func dtypeOfBasic(b *types.Basic) (tensor.Dtype, bool) {
	switch b.Kind() {
	case types.Bool:
		return tensor.Bool, true
	case types.Int8:
		return tensor.Int8, true
	case types.Int16:
		return tensor.Int16, true
	case types.Int32:
		return tensor.Int32, true
	case types.Int64:
		return tensor.Int64, true
	case types.Int:
		return tensor.Int, true
	case types.Uint8:
		return tensor.Uint8, true
	case types.Uint16:
		return tensor.Uint16, true
	case types.Uint32:
		return tensor.Uint32, true
	case types.Uint64:
		return tensor.Uint64, true
	case types.Uint:
		return tensor.Uint, true
	case types.Float32:
		return tensor.Float32, true
	case types.Float64:
		return tensor.Float64, true
	case types.String:
		return tensor.String, true
	case types.Complex64:
		return tensor.Complex64, true
	case types.Complex128:
		return tensor.Complex128, true
	}
	return tensor.Dtype{}, false
}

// basicOfDtype returns the go/types basic type for a dtype.
func basicOfDtype(d tensor.Dtype) *types.Basic {
	switch d {
	case tensor.Bool:
		return types.Typ[types.Bool]
	case tensor.Int8:
		return types.Typ[types.Int8]
	case tensor.Int16:
		return types.Typ[types.Int16]
	case tensor.Int32:
		return types.Typ[types.Int32]
	case tensor.Int64:
		return types.Typ[types.Int64]
	case tensor.Int:
		return types.Typ[types.Int]
	case tensor.Uint8:
		return types.Typ[types.Uint8]
	case tensor.Uint16:
		return types.Typ[types.Uint16]
	case tensor.Uint32:
		return types.Typ[types.Uint32]
	case tensor.Uint64:
		return types.Typ[types.Uint64]
	case tensor.Uint:
		return types.Typ[types.Uint]
	case tensor.Float32:
		return types.Typ[types.Float32]
	case tensor.Float64:
		return types.Typ[types.Float64]
	case tensor.String:
		return types.Typ[types.String]
	case tensor.Complex64:
		return types.Typ[types.Complex64]
	case tensor.Complex128:
		return types.Typ[types.Complex128]
	}
	return nil
}

// benignScalar returns a native "1"/true of the dtype's Go type.
func benignScalar(d tensor.Dtype) interface{} {
	v := reflect.New(d.Type).Elem()
	switch d.Type.Kind() {
	case reflect.Bool:
		v.SetBool(true)
	case reflect.Int, reflect.Int8, reflect.Int16, reflect.Int32, reflect.Int64:
		v.SetInt(1)
	case reflect.Uint, reflect.Uint8, reflect.Uint16, reflect.Uint32, reflect.Uint64, reflect.Uintptr:
		v.SetUint(1)
	case reflect.Float32, reflect.Float64:
		v.SetFloat(1)
	case reflect.Complex64, reflect.Complex128:
		v.SetComplex(1)
	case reflect.String:
		v.SetString("s")
	}
	return v.Interface()
}

func benignSlice(d tensor.Dtype, n int) interface{} {
	s := reflect.MakeSlice(reflect.SliceOf(d.Type), n, n)
	one := reflect.ValueOf(benignScalar(d))
	for i := 0; i < n; i++ {
		s.Index(i).Set(one)
	}
	return s.Interface()
}

// nativeCall runs f, turning a gorgonia panic into a PanicV.
func (c *Ctx) nativeCall(what string, f func()) (p *PanicV) {
	defer func() {
		if r := recover(); r != nil {
			switch r.(type) {
			case *Abort, *PanicV, pathEnd, specFail:
				panic(r)
			}
			p = &PanicV{Msg: fmt.Sprintf("panic inside gorgonia %s: %v", what, r), Site: c.where()}
		}
	}()
	f()
	return nil
}

// dual runs a structural operation on ids and twin and checks they agree.
func (c *Ctx) dual(what string, onIDs, onTwin func() error) error {
	var e1, e2 error
	p1 := c.nativeCall(what, func() { e1 = onIDs() })
	p2 := c.nativeCall(what, func() { e2 = onTwin() })
	if (p1 == nil) != (p2 == nil) {
		panic(c.abort("shadow self-check: %s panics on one of ids/twin only (%v / %v)", what, p1, p2))
	}
	if p2 != nil {
		panic(p2)
	}
	if (e1 == nil) != (e2 == nil) {
		panic(c.abort("shadow self-check: %s errs on one of ids/twin only (%v / %v)", what, e1, e2))
	}
	return e2
}

func (c *Ctx) checkShadow(s *Shadow, what string) {
	if !s.ids.Shape().Eq(s.twin.Shape()) {
		panic(c.abort("shadow self-check: shapes diverge after %s: %v vs %v", what, s.ids.Shape(), s.twin.Shape()))
	}
}

func (c *Ctx) natErr(e error) Value {
	if e == nil {
		return IfaceV{}
	}
	return IfaceV{T: c.errStringT(), V: &ErrV{Msg: "gorgonia: " + e.Error(), Nat: e}}
}

// newShadowZero creates a zero tensor.
func (c *Ctx) newShadowZero(d tensor.Dtype, shape []int) *Shadow {
	if _, ok := c.elemSort(d); !ok {
		panic(c.abort("tensor of dtype %v is outside the model", d))
	}
	var s *Shadow
	p := c.nativeCall("New", func() {
		s = &Shadow{
			ids:  tensor.New(tensor.Of(tensor.Int64), tensor.WithShape(shape...)),
			twin: tensor.New(tensor.Of(d), tensor.WithShape(shape...)),
			dt:   d,
		}
	})
	if p != nil {
		panic(p)
	}
	return s
}

// newShadowFromTerms builds a contiguous tensor from terms in row-major order.
func (c *Ctx) newShadowFromTerms(d tensor.Dtype, shape []int, ts []*smt.Term) *Shadow {
	s := c.newShadowZero(d, shape)
	if s.ids.IsScalar() {
		if len(ts) != 1 {
			panic(c.abort("scalar tensor from %d terms", len(ts)))
		}
		s.ids = tensor.New(tensor.FromScalar(ts[0].ID))
		return s
	}
	data := s.ids.Data().([]int64)
	if len(data) != len(ts) {
		panic(c.abort("tensor of %d elements from %d terms", len(data), len(ts)))
	}
	for i, t := range ts {
		data[i] = t.ID
	}
	return s
}

func coordsOf(shape []int) [][]int {
	n := 1
	for _, s := range shape {
		n *= s
	}
	out := make([][]int, 0, n)
	if n == 0 {
		return out
	}
	cur := make([]int, len(shape))
	for {
		out = append(out, append([]int(nil), cur...))
		i := len(shape) - 1
		for ; i >= 0; i-- {
			cur[i]++
			if cur[i] < shape[i] {
				break
			}
			cur[i] = 0
		}
		if i < 0 {
			break
		}
	}
	return out
}

// logicalIDs returns the element ids in row-major logical order.
func (c *Ctx) logicalIDs(d *tensor.Dense) []int64 {
	if d.IsScalar() {
		return []int64{d.ScalarValue().(int64)}
	}
	shape := d.Shape()
	cs := coordsOf(shape)
	out := make([]int64, len(cs))
	for i, co := range cs {
		v, err := d.At(co...)
		if err != nil {
			panic(c.abort("logicalIDs: At%v on shape %v: %v", co, shape, err))
		}
		out[i] = v.(int64)
	}
	return out
}

func (c *Ctx) logicalTerms(s *Shadow) []*smt.Term {
	so, _ := c.elemSort(s.dt)
	ids := c.logicalIDs(s.ids)
	out := make([]*smt.Term, len(ids))
	for i, id := range ids {
		out[i] = c.termOfID(id, so)
	}
	return out
}

// writeLogical stores terms into dst in logical order.
func (c *Ctx) writeLogical(dst *Shadow, ts []*smt.Term) {
	c.noteDataWrite(dst, "elementwise write")
	if dst.ids.IsScalar() {
		dst.ids.Set(0, ts[0].ID)
		return
	}
	cs := coordsOf(dst.ids.Shape())
	if len(cs) != len(ts) {
		panic(c.abort("writeLogical: %d coords, %d terms", len(cs), len(ts)))
	}
	for i, co := range cs {
		if err := dst.ids.SetAt(ts[i].ID, co...); err != nil {
			panic(c.abort("writeLogical: %v", err))
		}
	}
}

// asShadow extracts a tensor from an interpreter value (nil when nil).
func (c *Ctx) asShadow(v Value) *Shadow {
	switch x := v.(type) {
	case *Shadow:
		return x
	case IfaceV:
		if x.T == nil {
			return nil
		}
		if s, ok := x.V.(*Shadow); ok {
			return s
		}
	}
	return nil
}

// tensorVal wraps a shadow as an interface value of dynamic type *tensor.Dense.
func (c *Ctx) tensorVal(s *Shadow) Value {
	if s == nil {
		return IfaceV{}
	}
	return IfaceV{T: c.denseT(), V: s}
}

// ---- frame monitor hooks

func (c *Ctx) noteWrite(ids []int64, i int) {
	if len(c.protected) == 0 || len(ids) == 0 {
		return
	}
	for s, name := range c.protected {
		if s.ids.IsScalar() {
			continue
		}
		d, ok := s.ids.Data().([]int64)
		if !ok || len(d) == 0 {
			continue
		}
		// same underlying array? compare address ranges
		if uintptrOf(&ids[i]) >= uintptrOf(&d[0]) && uintptrOf(&ids[i]) <= uintptrOf(&d[len(d)-1]) {
			c.writes = append(c.writes, fmt.Sprintf("%s: interpreted store into data @ %s", name, c.where()))
		}
	}
}

func (c *Ctx) noteSlotWrite(p *Value) {
	if c.watchSlots != nil {
		if name, ok := c.watchSlots[p]; ok {
			c.writes = append(c.writes, fmt.Sprintf("%s: store @ %s", name, c.where()))
		}
	}
}

func (c *Ctx) noteMetaWrite(s *Shadow, what string) {
	if name, ok := c.protected[s]; ok {
		c.writes = append(c.writes, fmt.Sprintf("%s: %s @ %s", name, what, c.where()))
	}
}

func (c *Ctx) noteDataWrite(s *Shadow, what string) {
	// a tensor laid over a watched array (package-level data, a field of the Model): the write reaches that array
	if len(c.watchArrs) > 0 && !s.ids.IsScalar() {
		if sd, ok := s.ids.Data().([]int64); ok && len(sd) > 0 {
			for a, name := range c.watchArrs {
				if len(a.ids) > 0 && uintptrOf(&sd[0]) >= uintptrOf(&a.ids[0]) && uintptrOf(&sd[0]) <= uintptrOf(&a.ids[len(a.ids)-1]) {
					c.writes = append(c.writes, fmt.Sprintf("%s (through a tensor laid over it): %s @ %s", name, what, c.where()))
				}
			}
		}
	}
	if len(c.protected) == 0 {
		return
	}
	if name, ok := c.protected[s]; ok {
		c.writes = append(c.writes, fmt.Sprintf("%s: %s @ %s", name, what, c.where()))
		return
	}
	// a view of a protected tensor shares its array
	if s.ids.IsScalar() {
		return
	}
	sd, ok := s.ids.Data().([]int64)
	if !ok || len(sd) == 0 {
		return
	}
	for p, name := range c.protected {
		if p.ids.IsScalar() {
			continue
		}
		pd, ok := p.ids.Data().([]int64)
		if !ok || len(pd) == 0 {
			continue
		}
		if uintptrOf(&sd[0]) >= uintptrOf(&pd[0]) && uintptrOf(&sd[0]) <= uintptrOf(&pd[len(pd)-1]) {
			c.writes = append(c.writes, fmt.Sprintf("%s (through a view): %s @ %s", name, what, c.where()))
		}
	}
}

// protectReachable arms the frame monitor on everything reachable from root.
func (c *Ctx) protectReachable(name string, root Value) {
	if c.watchSlots == nil {
		c.watchSlots = map[*Value]string{}
		c.watchMaps = map[*MapV]string{}
		c.watchArrs = map[*idArr]string{}
	}
	seenSlot := map[*Value]bool{}
	var rec func(v Value, depth int)
	addSlot := func(p *Value, depth int) {
		if p == nil || seenSlot[p] {
			return
		}
		seenSlot[p] = true
		c.watchSlots[p] = name
		rec(*p, depth+1)
	}
	rec = func(v Value, depth int) {
		if depth > 40 {
			return
		}
		switch x := v.(type) {
		case *Value:
			addSlot(x, depth)
		case StructV:
			for i := range x {
				addSlot(&x[i], depth)
			}
		case ArrayV:
			for i := range x {
				addSlot(&x[i], depth)
			}
		case ScalarArr:
			c.watchArrs[x.A] = name
		case SliceV:
			switch b := x.B.(type) {
			case *boxArr:
				for i := range b.a {
					addSlot(&b.a[i], depth)
				}
			case *idArr:
				c.watchArrs[b] = name
			}
		case *MapV:
			if x == nil {
				return
			}
			if _, ok := c.watchMaps[x]; ok {
				return
			}
			c.watchMaps[x] = name
			for _, k := range x.Order {
				e := x.M[k]
				rec(e.K, depth+1)
				rec(e.V, depth+1)
			}
		case IfaceV:
			rec(x.V, depth+1)
		case *Shadow:
			if x != nil {
				c.protected[x] = name
			}
		case *Closure:
			if x != nil {
				for _, e := range x.Env {
					rec(e, depth+1)
				}
			}
		}
	}
	rec(root, 0)
}

// protectGlobals arms the monitor on the package-level state of the gonnx packages.
func (c *Ctx) protectGlobals() {
	for g, slot := range c.globals {
		if g.Pkg == nil {
			continue
		}
		p := g.Pkg.Pkg.Path()
		if len(p) >= len(gonnxPath) && p[:len(gonnxPath)] == gonnxPath && p != zzPath {
			c.protectReachable("package variable "+g.Pkg.Pkg.Name()+"."+g.Name(), slot)
		}
	}
}
