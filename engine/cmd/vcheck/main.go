package main

import (
	"flag"
	"fmt"
	"os"
	"strconv"
	"time"

	"verif/engine/drive"
	"verif/engine/symex"
)

func main() {
	tier := flag.String("tier", "", "quick|thorough")
	only := flag.String("only", "", "substring filter on case keys")
	maxJobs := flag.Int("max", 0, "limit the number of cases")
	workers := flag.Int("workers", 16, "parallel workers")
	solver := flag.String("solver", "z3", "z3|z3-new|cvc5")
	noReplay := flag.Bool("noreplay", false, "do not replay counterexamples natively (debugging)")
	timeout := flag.Int("timeout", 0, "per-query solver timeout in ms")
	repo := flag.String("repo", "/repo", "repository under test")
	verif := flag.String("verif", "/verif", "verif directory")
	replay := flag.String("replay", "", "replay a violation file natively")
	verbose := flag.Bool("v", false, "per-job output")
	flag.Parse()
	if *replay != "" {
		os.Exit(drive.ReplayFileCmd(*repo, *verif, *replay))
	}
	if flag.NArg() < 1 {
		fmt.Fprintln(os.Stderr, "usage: vcheck [flags] <property>")
		os.Exit(2)
	}
	prop := flag.Arg(0)
	if *tier == "" {
		*tier = os.Getenv("VERIF_TIER")
	}
	if *tier == "" {
		*tier = "quick"
	}
	seed, _ := strconv.ParseInt(os.Getenv("VERIF_SEED"), 10, 64)
	opt := drive.Options{Property: prop, Tier: *tier, Seed: seed, Workers: *workers, RepoDir: *repo, VerifDir: *verif,
		Solver: *solver, OnlyCase: *only, MaxJobs: *maxJobs, NoReplay: *noReplay, TimeoutMs: *timeout, Verbose: *verbose}
	if opt.TimeoutMs == 0 {
		opt.TimeoutMs = 8000 // (queries of the unchanged tree take milliseconds; the slack is for a loaded machine)
		if *tier == "thorough" {
			opt.TimeoutMs = 20000
		}
	}
	opt.OneShotMs = 30000
	opt.OneShotBudget = 90 * time.Second
	opt.ExploreBudget = 6 * time.Minute // the unchanged tree needs about one minute for its slowest quick check
	if *tier == "thorough" {
		opt.OneShotMs = 240000
		opt.OneShotBudget = 30 * time.Minute
		opt.ExploreBudget = 0
	}
	mk, ok := drive.Plans[prop]
	if !ok {
		fmt.Fprintf(os.Stderr, "no check for property %s\n", prop)
		os.Exit(2)
	}
	w, err := symex.Load(*repo, *verif+"/harness")
	if err != nil {
		fmt.Fprintln(os.Stderr, "load:", err)
		os.Exit(2)
	}
	plan := mk(opt)
	drive.AddSharedJobs(plan)
	os.Exit(drive.Check(w, plan, opt))
}
