package drive

func init() {
	Plans["C03"] = func(o Options) *Plan {
		p := &Plan{Property: "C03", Exhaustive: true}
		arith := []string{"Add", "Sub", "Mul", "Div"}
		cmp := []string{"Equal", "Greater", "GreaterOrEqual", "Less", "LessOrEqual"}
		logic := []string{"And", "Or", "Xor"}
		shapes := shapesUpTo(2, []int{1, 2})
		extra := [][2][]int{{{2, 1, 2}, {2, 1}}, {{1, 2, 1, 2}, {2, 1, 1}}, {{3}, {2, 3}}, {{2, 3}, {3, 1}}, {{2}, {4}}, {{2, 3}, {4, 3}}, {{3, 1}, {3}}, {{3}, {3, 1}}}
		if o.Tier == "thorough" {
			shapes = shapesUpTo(3, []int{1, 2, 3})
			extra = append(extra, [2][]int{{2, 1, 2, 1}, {1, 2, 1, 2}}, [2][]int{{1, 1, 1, 3}, {2, 1, 3, 1}})
		}
		var pairs [][2][]int
		for _, a := range shapes {
			for _, b := range shapes {
				pairs = append(pairs, [2][]int{a, b})
			}
		}
		pairs = append(pairs, extra...)
		// ranks 5..7 with several non-unit leading axes (beyond small-rank fast paths)
		pairs = append(pairs, [2][]int{{2, 2, 1, 1, 1, 2}, {2, 1, 1, 1, 1, 2}}, [2][]int{{2, 1, 2, 1, 1, 1, 2}, {2, 1}}, [2][]int{{2, 2, 1, 2, 1}, {1, 2, 1, 1, 2}}, [2][]int{{2, 3, 1, 1, 1, 2}, {3, 1, 1, 1, 1}})
		add := func(op string, pr [2][]int, dt string, same bool) {
			p.Jobs = append(p.Jobs, Job{Harness: "opset13.H_C03", Case: map[string]interface{}{"op": op, "a": pr[0], "b": pr[1], "dtype": dt, "same": same}})
		}
		for i, pr := range pairs {
			for _, op := range arith {
				add(op, pr, "float32", false)
				add(op, pr, []string{"int64", "int32", "float64"}[i%3], false)
			}
			for _, op := range cmp {
				add(op, pr, "float32", false)
				add(op, pr, []string{"int32", "int64", "float64"}[i%3], false)
			}
			for _, op := range logic {
				add(op, pr, "bool", false)
			}
		}
		// several thousand elements on a fixed pattern (sizes that are not a multiple of small worker counts; the last
		// element of the logical results is true): chunked / parallel kernels and their remainders
		for _, op := range []string{"And", "Or"} {
			p.Jobs = append(p.Jobs, Job{Harness: "opset13.H_C03", Case: map[string]interface{}{"op": op, "a": []int{8197}, "b": []int{8197}, "dtype": "bool", "same": false, "concrete": true}})
			p.Jobs = append(p.Jobs, Job{Harness: "opset13.H_C03", Case: map[string]interface{}{"op": op, "a": []int{3, 2803}, "b": []int{2803}, "dtype": "bool", "same": false, "concrete": true}})
		}
		p.Jobs = append(p.Jobs, Job{Harness: "opset13.H_C03", Case: map[string]interface{}{"op": "Add", "a": []int{3, 2803}, "b": []int{2803}, "dtype": "float32", "same": false, "concrete": true}})
		p.Jobs = append(p.Jobs, Job{Harness: "opset13.H_C03", Case: map[string]interface{}{"op": "Less", "a": []int{8197}, "b": []int{1}, "dtype": "int32", "same": false, "concrete": true}})
		// other accepted element types, and one tensor wired to both inputs
		few := [][2][]int{{{2}, {2}}, {{2, 1}, {1, 2}}, {{}, {2}}, {{2}, {3}}}
		for _, pr := range few {
			for _, op := range arith {
				for _, dt := range []string{"uint32", "uint64"} {
					add(op, pr, dt, false)
				}
			}
			for _, op := range cmp {
				for _, dt := range []string{"uint32", "uint64", "int8", "int16", "uint8", "uint16", "bool"} {
					if dt == "bool" && op != "Equal" {
						continue
					}
					add(op, pr, dt, false)
				}
			}
		}
		for _, op := range append(append(append([]string{}, arith...), cmp...), logic...) {
			dts := []string{"float32", "int64"}
			if op == "And" || op == "Or" || op == "Xor" {
				dts = []string{"bool"}
			}
			for _, dt := range dts {
				add(op, [2][]int{{2}, {2}}, dt, true)
				add(op, [2][]int{{2, 2}, {2, 2}}, dt, true)
			}
		}
		p.Bounds = []string{
			"12 operators x all ordered shape pairs of rank 0..2 with extents {1,2} (thorough: rank 0..3, extents {1,2,3}) plus listed pairs up to rank 4 and incompatible pairs with multiples (2 vs 4, 3 vs ... )",
			"element types: float32 and one of int32/int64/float64 on every pair; uint32/uint64/int8/int16/uint8/uint16/bool (comparisons) on 4 pairs; logic on bool",
			"every element symbolic: IEEE-754 float semantics (NaN, infinities, signed zero) via the FloatingPoint theory, integers as bit-vectors (wrap-around, truncating division)",
			"the same tensor object wired to both inputs",
		}
		p.Outside = []string{"integer division by zero (assumed away)", "string/complex element types", "extents > 3, rank > 4"}
		p.Explanation = "operator Init/ValidateInputs/Apply, ApplyBinaryOperation, broadcasting helpers executed symbolically; gorgonia arithmetic kernels as term builders with shapes/dtypes/errors from the real gorgonia on twin tensors"
		return p
	}
}
