package drive

func init() {
	Plans["C09"] = func(o Options) *Plan {
		p := &Plan{Property: "C09"}
		th := o.Tier == "thorough"
		k := 0
		dts := []string{"float32", "int64", "float32", "float64", "float32", "uint8", "int32"}
		// ArgMax
		ashapes := [][]int{{3}, {2, 2}, {1, 3}, {2, 1, 2}}
		if th {
			ashapes = append(ashapes, []int{2, 3}, []int{3, 2}, []int{2, 2, 2}, []int{1, 2, 1, 2})
		}
		for _, s := range ashapes {
			for _, kd := range []int{-1, 0, 1} {
				k++
				p.Jobs = append(p.Jobs, Job{Harness: "opset13.H_C09_argmax", Case: map[string]interface{}{"shape": s, "dtype": dts[k%len(dts)], "keepdims": kd, "default": false, "nanfree": true}})
			}
			p.Jobs = append(p.Jobs, Job{Harness: "opset13.H_C09_argmax", Case: map[string]interface{}{"shape": s, "dtype": "float32", "keepdims": 0, "default": true, "nanfree": true}})
			p.Jobs = append(p.Jobs, Job{Harness: "opset13.H_C09_argmax", Case: map[string]interface{}{"shape": s, "dtype": "float32", "keepdims": 1, "default": false, "nanfree": false}})
		}
		// ReduceMax / ReduceMin
		rshapes := [][]int{{3}, {2, 2}, {2, 1, 2}}
		if th {
			rshapes = append(rshapes, []int{2, 3}, []int{1, 3}, []int{2, 2, 2}, []int{2, 1, 1, 2})
		}
		for _, op := range []string{"ReduceMax", "ReduceMin"} {
			for _, s := range rshapes {
				for _, na := range []int{-1, 0, 1, 2} {
					if na == 2 && len(s) < 2 {
						continue
					}
					for _, kd := range []int{-1, 0, 1} {
						k++
						p.Jobs = append(p.Jobs, Job{Harness: "opset13.H_C09_reduce", Case: map[string]interface{}{"op": op, "shape": s, "dtype": dts[k%len(dts)], "naxes": na, "keepdims": kd}})
					}
				}
			}
		}
		// Softmax / LogSoftmax
		sshapes := [][]int{{2}, {2, 2}}
		gridRows := [][]int{{8}, {9}}
		if th {
			gridRows = append(gridRows, []int{17}) // (its Boolean queries take seconds each: past the quick tier's per-query limit on a loaded machine)
		}
		rshapes2 := [][]int{{2}, {3}, {2, 2}, {2, 3}, {3, 2}, {2, 2, 2}}
		if th {
			rshapes2 = append(rshapes2, []int{1, 2, 3}, []int{2, 1, 2, 2})
		}
		for _, op := range []string{"Softmax", "LogSoftmax"} {
			for _, s := range sshapes {
				if !th {
					break // the IEEE overflow proofs take ~1 min per assertion: thorough tier only
				}
				p.Jobs = append(p.Jobs, Job{Harness: "opset13.H_C09_softmax", Case: map[string]interface{}{"op": op, "shape": s, "dtype": "float32", "default": true, "best_effort": true}})
			}
			// IEEE on the grid {-200,0,200}: long rows (a slip in the row maximum of a long row shows as an overflow)
			for _, s := range gridRows {
				p.Jobs = append(p.Jobs, Job{Harness: "opset13.H_C09_softmax", Case: map[string]interface{}{"op": op, "shape": s, "dtype": "float32", "default": true, "grid": true, "axis": -1}})
			}
			// ... and slices along an inner or leading axis, several slices per tensor
			p.Jobs = append(p.Jobs,
				Job{Harness: "opset13.H_C09_softmax", Case: map[string]interface{}{"op": op, "shape": []int{2, 3, 2}, "dtype": "float32", "default": false, "grid": true, "axis": 1}},
				Job{Harness: "opset13.H_C09_softmax", Case: map[string]interface{}{"op": op, "shape": []int{3, 2}, "dtype": "float64", "default": false, "grid": true, "axis": -2}},
				Job{Harness: "opset13.H_C09_softmax", Case: map[string]interface{}{"op": op, "shape": []int{2, 5}, "dtype": "float32", "default": false, "grid": true, "axis": 1}})
			for _, s := range rshapes2 {
				p.Jobs = append(p.Jobs, Job{Harness: "opset13.H_C09_softmax_ring", Case: map[string]interface{}{"op": op, "shape": s, "default": false}})
				p.Jobs = append(p.Jobs, Job{Harness: "opset13.H_C09_softmax_ring", Case: map[string]interface{}{"op": op, "shape": s, "default": true}})
			}
		}
		for i := range p.Jobs {
			if dt, _ := p.Jobs[i].Case["dtype"].(string); dt == "uint8" {
				p.Jobs[i].Case["mayrefuse"] = true
			}
		}
		p.Bounds = []string{
			"ArgMax: shapes of rank 1..3 (4 thorough) with extents <= 3, axis symbolic in [-rank-1, rank] or absent, keepdims 0/1/absent, element types float32/float64/int64/int32/uint8, every element symbolic (IEEE floats incl. +-Inf, ties); slices with NaN: only the index range is asserted",
			"ReduceMax/ReduceMin: same shapes, 0..2 symbolic axes or no axes attribute, keepdims 0/1/absent, NaN-free elements",
			"Softmax/LogSoftmax, IEEE float32 over ALL finite inputs, THOROUGH TIER ONLY and BEST EFFORT: shapes (2) and (2,2), default axis: results not NaN, Softmax in [0,1], LogSoftmax <= 0, under stated bracketing facts about exp/log. These floating-point queries sit at the edge of what z3/cvc5 finish (minutes to more than an hour each, depending on the machine's load); each case gets 6 minutes of escalated solver time, and a query that is not decided is listed under best_effort_undecided and printed as UNDECIDED - it is then not part of what the run covered (the grid cases below and the exact-arithmetic cases do not depend on it)",
			"Softmax/LogSoftmax, IEEE on a saturating grid: every element in {-200, 0, 200} (float64 {-1000, 0, 1000}; each exponential of a difference is exactly 0, 1 or +Inf), rows of 8, 9 (thorough: and 17) along the default axis, shapes (2,3,2) axis 1, (3,2) axis -2, (2,5) axis 1: not NaN, Softmax in [0,1] and equal to 1/(number of maxima) at a maximum and 0 elsewhere, LogSoftmax <= 0; all 3^n grid points in one Boolean query per assertion (finite-domain lifting of the float terms)",
			"Softmax/LogSoftmax, exact arithmetic: shapes up to (2,2,2): outputs equal exp(x-m)/sum resp. (x-m)-log(sum) along the requested axis only, each Softmax slice sums to 1 (exp, log uninterpreted with exp > 0)",
		}
		p.Outside = []string{"IEEE behaviour of Softmax/LogSoftmax for rows of more than 3 elements on inputs OFF the saturating grid (the solvers do not finish the general floating-point query; over the reals rows of any small length are covered, and on the grid {-200,0,200} rows of 8, 9 and (thorough) 17 are decided in IEEE arithmetic)", "ordering of NaN in ReduceMax/ReduceMin and ArgMax", "repeated reduction axes", "accuracy of exp/log", "extents > 3", "LogSoftmax finiteness for inputs whose difference overflows float32 (no implementation can represent the result)"}
		p.Explanation = "ArgMax/ReduceMax/ReduceMin/Softmax/LogSoftmax Apply paths executed symbolically; gorgonia's Argmax, Max/Min and the two softmax kernels are line-by-line ports (including their quirks) validated against native runs"
		return p
	}
}
