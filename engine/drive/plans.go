package drive

// Plans maps a property id to its plan builder.
var Plans = map[string]func(Options) *Plan{}

func ReplayFileCmd(repo, verif, path string) int { return replayFile(repo, verif, path) }

func init() {
	Plans["SMOKE"] = func(o Options) *Plan {
		return &Plan{Property: "SMOKE", Jobs: []Job{{Harness: "ops.H_smoke", Case: map[string]interface{}{"n": 3}}}}
	}
}
