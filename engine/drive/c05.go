package drive

func init() {
	Plans["C05"] = func(o Options) *Plan {
		p := &Plan{Property: "C05"}
		th := o.Tier == "thorough"
		add := func(c map[string]interface{}) {
			def := map[string]interface{}{"nd": 2, "N": 1, "C": 1, "M": 1, "strides": []int{}, "dilations": []int{}, "pads": []int{}, "auto_pad": "", "kernel_shape": false, "bias": false, "dtype": "float32"}
			for k, v := range c {
				def[k] = v
			}
			p.Jobs = append(p.Jobs, Job{Harness: "opset13.H_C05", Case: def})
		}
		geos := [][2][]int{{{3, 5}, {2, 3}}, {{5, 3}, {3, 2}}, {{2, 6}, {1, 1}}, {{4, 4}, {2, 2}}, {{3, 4}, {2, 1}}}
		if th {
			geos = append(geos, [2][]int{{6, 2}, {3, 1}}, [2][]int{{4, 5}, {3, 3}}, [2][]int{{2, 2}, {2, 2}}, [2][]int{{5, 5}, {1, 3}})
		}
		for gi, g := range geos {
			in, k := g[0], g[1]
			// batch / channels / kernels / bias
			add(map[string]interface{}{"in": in, "k": k})
			add(map[string]interface{}{"in": in, "k": k, "N": 2, "C": 2, "M": 2, "bias": true, "kernel_shape": true})
			add(map[string]interface{}{"in": in, "k": k, "M": 2, "bias": true, "dtype": "float64"})
			// strides
			for _, s := range [][]int{{2, 1}, {1, 2}, {2, 3}, {3, 2}} {
				add(map[string]interface{}{"in": in, "k": k, "strides": s, "C": 1 + gi%2})
			}
			// dilations
			for _, d := range [][]int{{2, 1}, {1, 2}, {2, 2}} {
				add(map[string]interface{}{"in": in, "k": k, "dilations": d})
			}
			// explicit pads (begin_h, begin_w, end_h, end_w), asymmetric
			for _, pd := range [][]int{{1, 0, 0, 0}, {0, 2, 0, 0}, {0, 0, 1, 0}, {0, 0, 0, 2}, {1, 2, 0, 1}, {2, 1, 1, 2}} {
				add(map[string]interface{}{"in": in, "k": k, "pads": pd, "bias": gi%2 == 0})
			}
			// auto_pad
			for _, ap := range []string{"NOTSET", "SAME_UPPER", "SAME_LOWER", "VALID"} {
				add(map[string]interface{}{"in": in, "k": k, "auto_pad": ap})
				add(map[string]interface{}{"in": in, "k": k, "auto_pad": ap, "strides": []int{2, 1}, "N": 2})
				add(map[string]interface{}{"in": in, "k": k, "auto_pad": ap, "strides": []int{1, 2}, "dilations": []int{1, 2}, "C": 2})
			}
			// combinations
			add(map[string]interface{}{"in": in, "k": k, "strides": []int{2, 2}, "dilations": []int{2, 1}, "pads": []int{1, 1, 2, 0}, "N": 2, "M": 2, "bias": true})
		}
		// 1-D convolution
		for _, g := range [][2]int{{5, 2}, {4, 3}, {3, 1}, {6, 2}} {
			in, k := []int{g[0]}, []int{g[1]}
			add(map[string]interface{}{"nd": 1, "in": in, "k": k, "C": 2, "M": 2, "bias": true})
			add(map[string]interface{}{"nd": 1, "in": in, "k": k, "strides": []int{2}, "pads": []int{1, 2}, "N": 2})
			add(map[string]interface{}{"nd": 1, "in": in, "k": k, "dilations": []int{2}, "kernel_shape": true})
			for _, ap := range []string{"SAME_UPPER", "SAME_LOWER", "VALID"} {
				add(map[string]interface{}{"nd": 1, "in": in, "k": k, "auto_pad": ap, "strides": []int{2}})
			}
		}
		add(map[string]interface{}{"nd": 1, "in": []int{3}, "k": []int{1}, "N": 2, "M": 2, "bias": true})
		add(map[string]interface{}{"in": []int{2, 3}, "k": []int{1, 1}, "N": 2, "M": 2, "bias": true, "strides": []int{1, 2}})
		// as many kernels as output positions per kernel (the bias must still go per kernel, not per position)
		add(map[string]interface{}{"in": []int{3, 3}, "k": []int{2, 2}, "M": 4, "bias": true})
		add(map[string]interface{}{"in": []int{2, 3}, "k": []int{2, 2}, "M": 2, "N": 2, "bias": true})
		add(map[string]interface{}{"nd": 1, "in": []int{4}, "k": []int{2}, "M": 3, "bias": true})
		// a kernel larger than the unpadded input along one axis: it fits (or not) only through the pads of THAT axis
		add(map[string]interface{}{"in": []int{2, 5}, "k": []int{3, 2}, "pads": []int{0, 0, 1, 0}})
		add(map[string]interface{}{"in": []int{1, 4}, "k": []int{3, 2}, "pads": []int{0, 2, 0, 0}})
		add(map[string]interface{}{"in": []int{1, 4}, "k": []int{3, 2}, "pads": []int{1, 0, 1, 0}})
		add(map[string]interface{}{"in": []int{4, 1}, "k": []int{2, 3}, "pads": []int{0, 2, 0, 0}})
		add(map[string]interface{}{"in": []int{4, 1}, "k": []int{2, 3}, "pads": []int{2, 0, 0, 0}})
		add(map[string]interface{}{"in": []int{1, 4}, "k": []int{3, 2}, "auto_pad": "SAME_UPPER"})
		add(map[string]interface{}{"in": []int{1, 4}, "k": []int{3, 2}, "auto_pad": "SAME_LOWER"})
		// ... combined with strides and dilations (the first window already reaches into the end padding)
		add(map[string]interface{}{"in": []int{2, 5}, "k": []int{3, 2}, "pads": []int{0, 0, 1, 0}, "strides": []int{2, 1}})
		add(map[string]interface{}{"in": []int{2, 5}, "k": []int{3, 2}, "pads": []int{0, 0, 2, 1}, "strides": []int{3, 2}, "bias": true})
		add(map[string]interface{}{"in": []int{4, 2}, "k": []int{2, 2}, "pads": []int{0, 0, 0, 1}, "strides": []int{1, 2}, "dilations": []int{1, 2}})
		add(map[string]interface{}{"in": []int{3, 4}, "k": []int{2, 3}, "pads": []int{0, 0, 0, 2}, "strides": []int{2, 3}, "dilations": []int{1, 2}, "M": 2})
		add(map[string]interface{}{"in": []int{1, 4}, "k": []int{2, 2}, "auto_pad": "SAME_UPPER", "strides": []int{2, 1}})
		add(map[string]interface{}{"in": []int{4, 1}, "k": []int{2, 2}, "auto_pad": "SAME_UPPER", "strides": []int{2, 2}, "bias": true})
		add(map[string]interface{}{"nd": 1, "in": []int{2}, "k": []int{3}, "pads": []int{0, 1}, "strides": []int{2}})
		add(map[string]interface{}{"nd": 1, "in": []int{3}, "k": []int{2}, "pads": []int{0, 2}, "strides": []int{3}, "dilations": []int{3}})
		// batches of 5 and 6 samples
		add(map[string]interface{}{"in": []int{2, 3}, "k": []int{2, 2}, "N": 5, "bias": true})
		add(map[string]interface{}{"nd": 1, "in": []int{3}, "k": []int{2}, "N": 6, "M": 2, "bias": true})
		// refused configurations
		add(map[string]interface{}{"in": []int{3, 3}, "k": []int{2, 2}, "group": 2, "C": 2, "M": 2})
		add(map[string]interface{}{"in": []int{3, 3}, "k": []int{2, 2}, "group": 1})
		add(map[string]interface{}{"nd": 3, "in": []int{2, 2, 2}, "k": []int{1, 1, 1}})
		add(map[string]interface{}{"in": []int{2, 2}, "k": []int{3, 3}})
		p.Bounds = []string{
			"exact real arithmetic; every input, weight and bias element is a solver variable",
			"2-D: 5 (9 thorough) non-square (H,W)/(kh,kw) geometries x {batch/channel/kernel counts 1..2, bias, kernel_shape given/inferred, float64} + strides {(2,1),(1,2),(2,3),(3,2)} + dilations {(2,1),(1,2),(2,2)} + 6 asymmetric pads + auto_pad in {NOTSET, SAME_UPPER, SAME_LOWER, VALID} (alone, with strides, with strides+dilations) + one combination; 1-D: 4 geometries with the same families",
			"refused configurations: group 2, 3-D convolution, kernel larger than the padded input",
			"every case applies the same operator instance to the same tensors twice",
		}
		p.Outside = []string{"rounding", "extents > 6, more than 2 batch/channel/kernel entries", "the geometry lemmas with fully symbolic extents (DESIGN section 4 C05 layer 1) are not part of this check"}
		p.Explanation = "Conv Init/Apply incl. setDefault*, setPaddingWithAutoPad, getDilatedKernel, padInput, getSubImage, applyConv1D/2D, addBias executed symbolically; reference: direct convolution over the zero-padded input"
		return p
	}
}
