package drive

func init() {
	Plans["C08"] = func(o Options) *Plan {
		p := &Plan{Property: "C08"}
		th := o.Tier == "thorough"
		dts := []string{"float32", "int64", "float32", "bool"}
		k := 0
		add := func(c map[string]interface{}) {
			k++
			if c["op"] == "Slice" {
				c["margin"] = 1
				if th {
					c["margin"] = 2
				}
				if n, _ := c["n"].(int); n == 2 && !th {
					c["margin"] = 0
				}
			}
			if _, ok := c["dtype"]; !ok {
				c["dtype"] = dts[k%len(dts)]
			}
			p.Jobs = append(p.Jobs, Job{Harness: "opset13.H_C08", Case: c})
		}
		// Transpose
		tshapes := [][]int{{3}, {2, 3}, {1, 2}, {2, 1, 3}, {2, 2, 2}, {2, 1, 2}, {1, 3, 3}} // incl. a unit axis next to two axes of EQUAL extent
		if th {
			tshapes = append(tshapes, []int{1, 2, 3}, []int{3, 1, 2}, []int{2, 1, 2, 3})
		}
		for _, s := range tshapes {
			add(map[string]interface{}{"op": "Transpose", "shape": s})
		}
		for _, s := range [][]int{{5, 6}, {5, 5}, {7, 9}} {
			add(map[string]interface{}{"op": "Transpose", "shape": s, "dtype": "float32"})
		}
		add(map[string]interface{}{"op": "Transpose", "shape": []int{6, 5}, "dtype": "int64"})
		// Concat
		for _, c := range []struct {
			shape []int
			ta    int
			ext   []int
		}{
			{[]int{2}, 0, []int{2}}, {[]int{2}, 0, []int{1, 2}}, {[]int{2, 3}, 0, []int{1, 2}}, {[]int{2, 3}, 1, []int{1, 2}},
			{[]int{2, 3}, 1, []int{2, 1, 1}}, {[]int{2, 2}, 0, []int{2, 2}}, {[]int{1, 2, 2}, 2, []int{1, 3}}, {[]int{1, 2, 2}, 1, []int{2, 1}},
			{[]int{2, 1, 2, 1}, 3, []int{1, 2}},
		} {
			add(map[string]interface{}{"op": "Concat", "shape": c.shape, "ta": c.ta, "ext": c.ext})
		}
		// a result of 65536 and of 69000 elements on a fixed pattern (block-wise / parallel copies)
		add(map[string]interface{}{"op": "Concat", "shape": []int{128, 512}, "ta": 0, "ext": []int{64, 64}, "concrete": true})
		add(map[string]interface{}{"op": "Concat", "shape": []int{300, 230}, "ta": 1, "ext": []int{100, 30, 100}, "concrete": true})
		// Slice
		sshapes := [][]int{{3}, {2, 3}, {3, 1}}
		if th {
			sshapes = append(sshapes, []int{4}, []int{2, 2, 3}, []int{1, 3, 2})
		}
		for _, s := range sshapes {
			add(map[string]interface{}{"op": "Slice", "shape": s, "n": 1, "axes": false, "steps": false, "extremes": true})
			add(map[string]interface{}{"op": "Slice", "shape": s, "n": 1, "axes": true, "steps": false, "extremes": false})
			if len(s) == 1 || th {
				add(map[string]interface{}{"op": "Slice", "shape": s, "n": 1, "axes": false, "steps": true, "extremes": false})
			}
			if len(s) >= 2 && zprod(s) <= 6 && th {
				add(map[string]interface{}{"op": "Slice", "shape": s, "n": 2, "axes": false, "steps": false, "extremes": false})
			}
		}
		add(map[string]interface{}{"op": "Slice", "shape": []int{2, 2}, "n": 2, "axes": false, "steps": false, "extremes": false})
		add(map[string]interface{}{"op": "Slice", "shape": []int{2}, "n": 1, "axes": true, "steps": true, "extremes": false})
		// two sliced axes named explicitly, in any order (each range belongs to the axis listed at its position)
		for _, ax := range [][]int{{1, 0}, {-1, 0}, {0, 1}, {-1, -2}} {
			add(map[string]interface{}{"op": "Slice", "shape": []int{2, 3}, "n": 2, "axes": true, "steps": false, "extremes": false, "axes_given": ax})
		}
		// Gather
		for _, c := range []struct {
			shape, ishape []int
		}{
			{[]int{3}, []int{}}, {[]int{3}, []int{2}}, {[]int{2, 3}, []int{}}, {[]int{2, 3}, []int{2}}, {[]int{3, 2}, []int{1, 2}}, {[]int{2, 2}, []int{2, 2}},
			{[]int{2, 1, 3}, []int{2}}, {[]int{2, 2, 2}, []int{1}},
		} {
			if zprod(c.ishape) > 2 && !th && len(c.shape) > 1 {
				continue
			}
			add(map[string]interface{}{"op": "Gather", "shape": c.shape, "ishape": c.ishape, "default": false, "i32": k%2 == 0})
		}
		add(map[string]interface{}{"op": "Gather", "shape": []int{3, 2}, "ishape": []int{2}, "default": true, "i32": false})
		// every operator on the other element types (the data movers have per-type code paths)
		for _, dt := range []string{"float64", "int32", "uint8", "bool", "int64"} {
			add(map[string]interface{}{"op": "Gather", "shape": []int{2, 3}, "ishape": []int{2}, "default": false, "i32": false, "dtype": dt})
			add(map[string]interface{}{"op": "Transpose", "shape": []int{2, 3}, "dtype": dt})
			add(map[string]interface{}{"op": "Concat", "shape": []int{2, 2}, "ta": 1, "ext": []int{1, 2}, "dtype": dt})
			add(map[string]interface{}{"op": "Expand", "shape": []int{2, 1}, "n": 2, "dtype": dt})
			add(map[string]interface{}{"op": "Slice", "shape": []int{3}, "n": 1, "axes": true, "steps": false, "extremes": false, "dtype": dt})
		}
		add(map[string]interface{}{"op": "Gather", "shape": []int{2, 2}, "ishape": []int{2, 2}, "default": true, "i32": true, "dtype": "float32"})
		// Expand
		// ((1,1), (1,1,1): one element, yet a higher rank than a short target)
		for _, s := range [][]int{{}, {1}, {3}, {2, 1}, {1, 3}, {2, 3}, {2, 1, 2}, {1, 1}, {1, 1, 1}} {
			for _, n := range []int{1, 2, 3} {
				if n == 3 && !th && len(s) > 1 && s[0] != 1 {
					continue
				}
				add(map[string]interface{}{"op": "Expand", "shape": s, "n": n})
			}
		}
		p.Bounds = []string{
			"Transpose: shapes of rank 1..3 (4 thorough), every perm entry symbolic in [-1, rank] (all permutations and all non-permutations decided by the solver)",
			"Concat: 1..3 inputs differing along one axis, axis attribute symbolic in [-rank-1, rank]",
			"Slice: shapes of rank 1..2 (3), 1..2 sliced axes, starts/ends symbolic in [-dim-m, dim+m] (m = 1 quick, 2 thorough; 0 for two sliced axes in quick) plus INT64_MIN/MAX, steps in [-dim-1, dim+1] without 0, axes in [-rank-1, rank], axes/steps inputs present or absent",
			"Gather: data rank 1..3, index tensors of rank 0..2, axis in [-rank-1, rank] or default, every index symbolic in [-dim-1, dim], int32 and int64 indices",
			"Expand: inputs of rank 0..3 against target shapes of length 1..3 with entries in [0,3]",
			"all data elements symbolic (float32 / int64 / bool rotated)",
		}
		p.Outside = []string{"extents > 3 (Slice 4)", "rank > 4", "empty slices (not representable by the tensor library)", "element types other than float32/int64/bool"}
		p.Explanation = "operator Apply paths (constructSlices, gather, insertWithReplace, Expand loop, ...) executed symbolically; Slice/Transpose/Concat/Repeat/Materialize by the real gorgonia on term-id tensors; ONNX index formulas as reference loops"
		return p
	}
}

func zprod(xs []int) int {
	p := 1
	for _, x := range xs {
		p *= x
	}
	return p
}
