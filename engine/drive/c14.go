package drive

func shapesUpTo(maxRank int, extents []int) [][]int {
	out := [][]int{{}}
	var rec func(cur []int, n int)
	rec = func(cur []int, n int) {
		if len(cur) == n {
			out = append(out, append([]int{}, cur...))
			return
		}
		for _, e := range extents {
			rec(append(cur, e), n)
		}
	}
	for r := 1; r <= maxRank; r++ {
		rec(nil, r)
	}
	return out
}

func init() {
	Plans["C14"] = func(o Options) *Plan {
		p := &Plan{Property: "C14", Exhaustive: true}
		shapes := shapesUpTo(3, []int{1, 2})
		if o.Tier == "thorough" {
			shapes = shapesUpTo(4, []int{1, 2, 3})
		}
		i := 0
		for _, a := range shapes {
			for _, b := range shapes {
				for _, mode := range []string{"multi", "uni"} {
					dt := "float32"
					switch i % 7 {
					case 3:
						dt = "int64"
					case 5:
						dt = "bool"
					case 6:
						dt = "uint8"
					}
					i++
					p.Jobs = append(p.Jobs, Job{Harness: "ops.H_C14", Case: map[string]interface{}{"a": a, "b": b, "mode": mode, "dtype": dt}})
				}
			}
		}
		// every element type against one-element operands (rank 0, (1), (1,1)) and a plain stretch, both orders
		for _, dt := range []string{"float32", "float64", "int64", "int32", "uint8", "bool"} {
			for _, pr := range [][2][]int{{{}, {2}}, {{1}, {2, 2}}, {{1, 1}, {2}}, {{2, 1}, {1, 2}}, {{}, {}}, {{1}, {1, 1}}} {
				for _, mode := range []string{"multi", "uni"} {
					p.Jobs = append(p.Jobs, Job{Harness: "ops.H_C14", Case: map[string]interface{}{"a": pr[0], "b": pr[1], "mode": mode, "dtype": dt}})
					p.Jobs = append(p.Jobs, Job{Harness: "ops.H_C14", Case: map[string]interface{}{"a": pr[1], "b": pr[0], "mode": mode, "dtype": dt}})
				}
			}
		}
		// ranks that differ by five and six
		for _, pr := range [][2][]int{{{}, {2, 1, 1, 1, 2}}, {{2}, {1, 2, 1, 1, 1, 2}}, {{2}, {2, 1, 1, 1, 1, 1, 2}}} {
			for _, mode := range []string{"multi", "uni"} {
				p.Jobs = append(p.Jobs, Job{Harness: "ops.H_C14", Case: map[string]interface{}{"a": pr[0], "b": pr[1], "mode": mode, "dtype": "float32"}})
				p.Jobs = append(p.Jobs, Job{Harness: "ops.H_C14", Case: map[string]interface{}{"a": pr[1], "b": pr[0], "mode": mode, "dtype": "float32"}})
			}
		}
		// rank 4 (quick tier: every rank-4 shape over {1,2} as the operand that is broadcast TO, against every shape of
		// rank 0..4 over {1,2}; the thorough tier has all ordered pairs anyway)
		if o.Tier != "thorough" {
			all4 := shapesUpTo(4, []int{1, 2})
			for _, a := range all4 {
				if len(a) != 4 {
					continue
				}
				for k, b := range all4 {
					mode := []string{"uni", "multi"}[k%2]
					p.Jobs = append(p.Jobs, Job{Harness: "ops.H_C14", Case: map[string]interface{}{"a": a, "b": b, "mode": mode, "dtype": "float32"}})
					if len(b) == 4 {
						p.Jobs = append(p.Jobs, Job{Harness: "ops.H_C14", Case: map[string]interface{}{"a": a, "b": b, "mode": []string{"multi", "uni"}[k%2], "dtype": "float32"}})
					}
				}
			}
		}
		// a matrix handed over lazily transposed, as the lower-rank, the equal-rank and the higher-rank operand
		for _, pr := range []struct {
			a, b []int
			lazy string
		}{{[]int{2, 2, 3}, []int{2, 3}, "b"}, {[]int{3, 2}, []int{2, 3, 2}, "a"}, {[]int{2, 3}, []int{2, 3}, "a"}, {[]int{2, 3}, []int{1, 3}, "b"}, {[]int{3, 1}, []int{3, 2}, "a"}, {[]int{2, 3}, []int{3}, "a"}} {
			for _, mode := range []string{"multi", "uni"} {
				p.Jobs = append(p.Jobs, Job{Harness: "ops.H_C14", Case: map[string]interface{}{"a": pr.a, "b": pr.b, "mode": mode, "dtype": "float32", "lazy": pr.lazy}})
			}
		}
		// operands of different element types, either one stretched
		for i, pr := range [][2][]int{{{3, 1}, {1, 4}}, {{2, 1, 2}, {3, 1}}, {{2}, {2, 2}}, {{2, 2}, {2}}, {{1}, {2}}, {{2, 2}, {2, 2}}, {{2}, {3}}} {
			p.Jobs = append(p.Jobs, Job{Harness: "ops.H_C14_mixed", Case: map[string]interface{}{"a": pr[0], "b": pr[1], "dtypeB": []string{"bool", "int64", "float64", "uint8"}[i%4]}})
			p.Jobs = append(p.Jobs, Job{Harness: "ops.H_C14_mixed", Case: map[string]interface{}{"a": pr[1], "b": pr[0], "dtypeB": []string{"int64", "bool", "uint8", "float64"}[i%4]}})
		}
		// a few larger extents
		for _, pr := range [][2][]int{{{4, 1}, {1, 4}}, {{3, 1, 4}, {4}}, {{4}, {4, 4}}, {{2, 4}, {4, 2}}, {{1, 4, 1}, {3, 1, 2}}, {{4}, {2}}, {{2, 3}, {4, 3}}, {{9}, {3}}} {
			for _, mode := range []string{"multi", "uni"} {
				p.Jobs = append(p.Jobs, Job{Harness: "ops.H_C14", Case: map[string]interface{}{"a": pr[0], "b": pr[1], "mode": mode, "dtype": "float32"}})
			}
		}
		p.Bounds = []string{"all ordered pairs of shapes of rank 0..3 with extents {1,2} (thorough: rank 0..4, extents {1,2,3}), both helpers, in the quick tier also every rank-4 shape over {1,2} against every shape of rank 0..4 (helpers alternating, both for rank 4 against rank 4), plus selected pairs with extents 4 and 9", "all element values symbolic (float32, int64, bool, uint8 rotated over the pairs; float32/float64/int64/int32/uint8/bool each against one-element operands of rank 0..2)"}
		p.Outside = []string{"extents > 3 beyond the listed pairs; the 'random larger shapes' clause of the quantifier is replaced by the bounded-exhaustive set"}
		p.Explanation = "MultidirectionalBroadcast / UnidirectionalBroadcast and helpers executed symbolically; tensor.Repeat/Reshape/Clone run by the real gorgonia on term-id tensors"
		return p
	}
}
