package drive

func kindStrings(maxRank int) []string {
	var out []string
	var rec func(cur string, n int)
	rec = func(cur string, n int) {
		if len(cur) == n {
			out = append(out, cur)
			return
		}
		for _, k := range "FDU" {
			rec(cur+string(k), n)
		}
	}
	for r := 1; r <= maxRank; r++ {
		rec("", r)
	}
	return out
}

func init() {
	Plans["C13"] = func(o Options) *Plan {
		p := &Plan{Property: "C13"}
		add := func(kinds []string, sup, init []int, extra, mutate int) {
			p.Jobs = append(p.Jobs, Job{Harness: "gonnx.H_C13", Case: map[string]interface{}{"kinds": kinds, "sup": sup, "init": init, "extra": extra, "mutate": mutate, "bare": 0}})
			shadowedUnsupplied := false
			for i := range init {
				if init[i] == 1 && sup[i] < 0 {
					shadowedUnsupplied = true
				}
			}
			if shadowedUnsupplied {
				p.Jobs = append(p.Jobs, Job{Harness: "gonnx.H_C13", Case: map[string]interface{}{"kinds": kinds, "sup": sup, "init": init, "extra": extra, "mutate": mutate, "bare": 1}})
			}
		}
		maxRank1, maxRank2 := 3, 2
		if o.Tier == "thorough" {
			maxRank1, maxRank2 = 4, 3
		}
		// one declared input: every kind string, supplied rank around the declared one, missing, shadowed
		for _, k := range kindStrings(maxRank1) {
			r := len(k)
			for _, s := range []int{r, r - 1, r + 1, -1} {
				if s == 0 {
					s = 0
				}
				for _, in := range []int{0, 1} {
					if o.Tier != "thorough" && r == 3 && in == 1 && s != r {
						continue
					}
					add([]string{k}, []int{s}, []int{in}, 0, 0)
				}
			}
			add([]string{k}, []int{r}, []int{0}, 1, 1)
		}
		// a supplied tensor that is a non-contiguous view (a column window of a larger tensor)
		for _, k := range []string{"DD", "DU", "UD", "FD", "DF"} {
			p.Jobs = append(p.Jobs, Job{Harness: "gonnx.H_C13", Case: map[string]interface{}{"kinds": []string{k}, "sup": []int{2}, "init": []int{0}, "extra": 0, "mutate": 0, "bare": 0, "view": 1}})
		}
		// inputs declared with element types other than FLOAT, supplied with tensors of that type
		for _, el := range []string{"bool", "int64", "float64"} {
			for _, k := range []string{"D", "DD", "UD"} {
				p.Jobs = append(p.Jobs, Job{Harness: "gonnx.H_C13", Case: map[string]interface{}{"kinds": []string{k}, "sup": []int{len(k)}, "init": []int{0}, "extra": 0, "mutate": 0, "bare": 0, "elem": el}})
			}
		}
		// ... and one that is lazily transposed
		for _, k := range []string{"DD", "DU", "FD", "DF", "FF", "DDD", "D"} {
			p.Jobs = append(p.Jobs, Job{Harness: "gonnx.H_C13", Case: map[string]interface{}{"kinds": []string{k}, "sup": []int{2}, "init": []int{0}, "extra": 0, "mutate": 0, "bare": 0, "view": 2}})
		}
		// declarations of rank 9 and 10 with fixed dimensions on the last axes
		for _, k := range []string{"DDDDDDDDF", "FDDDDDDDDF", "DDDDDDDFFF"} {
			add([]string{k}, []int{len(k)}, []int{0}, 0, 0)
		}
		// two declared inputs
		ks := kindStrings(maxRank2)
		for _, a := range ks {
			for _, b := range ks {
				if o.Tier != "thorough" && (len(a)+len(b) > 3) && a != b {
					continue
				}
				ra, rb := len(a), len(b)
				add([]string{a, b}, []int{ra, rb}, []int{0, 0}, 0, 0)
				add([]string{a, b}, []int{ra, -1}, []int{0, 0}, 0, 0)
				add([]string{a, b}, []int{-1, rb}, []int{0, 1}, 0, 1)
				add([]string{a, b}, []int{ra, rb + 1}, []int{0, 0}, 1, 0)
				add([]string{a, b}, []int{ra, -1}, []int{0, 1}, 0, 0)
			}
		}
		// three declared inputs
		trip := [][]string{{"F", "D", "FU"}, {"FF", "F", "D"}, {"DF", "UF", "F"}}
		if o.Tier == "thorough" {
			trip = append(trip, []string{"FFF", "DFD", "FU"}, []string{"FFFF", "D", "UF"})
		}
		for _, t := range trip {
			r := []int{len(t[0]), len(t[1]), len(t[2])}
			add(t, r, []int{0, 0, 0}, 0, 0)
			add(t, []int{r[0], -1, r[2]}, []int{0, 0, 0}, 0, 0)
			add(t, []int{r[0], -1, r[2]}, []int{0, 1, 0}, 1, 1)
			add(t, []int{r[0], r[1], r[2] + 1}, []int{0, 0, 0}, 0, 0)
			add(t, []int{r[0] + 2, r[1], r[2]}, []int{1, 0, 0}, 0, 0)
			// every subset of the declared inputs shadowed by initializers (adjacent ones included), none of the shadowed supplied
			for mask := 1; mask < 8; mask++ {
				in := []int{mask & 1, mask >> 1 & 1, mask >> 2 & 1}
				sup := []int{r[0], r[1], r[2]}
				for k := range sup {
					if in[k] == 1 {
						sup[k] = -1
					}
				}
				add(t, sup, in, 0, 0)
			}
		}
		p.Bounds = []string{
			"declared inputs: 1..3 (for three: every subset shadowed by initializers); declared rank 1..3 (thorough 1..4) for one input, 1..2 (thorough 1..3) for two, fixed triples for three",
			"every dimension fixed / dim_param / unspecified; fixed dim_value symbolic over [1, 2^63-1] (all values decided by the solver)",
			"supplied tensors: missing, rank-1, rank, rank+1; each supplied extent symbolic over [0,6] (empty axes included); extra undeclared tensor; inputs shadowed by initializers",
			"map iteration: forward and reverse order at every range over a Go map",
		}
		p.Outside = []string{"declared rank 0 and value-infos lacking type/shape (the gate skips them)", "dim_value <= 0", "supplied extents > 6 or 0", "more than 3 inputs"}
		p.Explanation = "Model.Run / validateShapes / introspection executed symbolically on identity graphs with shape-only tensors"
		reentrancyJobs(o, p)
		return p
	}
}
