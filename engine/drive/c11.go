package drive

func init() {
	Plans["C11"] = func(o Options) *Plan {
		p := &Plan{Property: "C11", Exhaustive: true}
		th := o.Tier == "thorough"
		num := []string{"float32", "float64", "int8", "int16", "int32", "int64", "uint8", "uint16", "uint32", "uint64"}
		// (1) and (1,1): one element without being a scalar
		shapes := [][]int{{2}, {}, {1}, {1, 1}}
		if th {
			shapes = append(shapes, []int{2, 2}, []int{1, 2, 1}, []int{1, 1, 1})
		}
		for i, from := range num {
			for j, to := range num {
				for k, s := range shapes {
					if !th && k >= 1 && (i+j+k)%3 != 1 {
						continue
					}
					p.Jobs = append(p.Jobs, Job{Harness: "opset13.H_C11_cast", Case: map[string]interface{}{"from": from, "to": to, "shape": s}})
				}
			}
			if i == 0 {
				// 4099 and 64x65 elements (beyond blocking / parallelisation thresholds)
				p.Jobs = append(p.Jobs, Job{Harness: "opset13.H_C11_cast", Case: map[string]interface{}{"from": "float32", "to": "int64", "shape": []int{4099}, "concrete": true}})
				p.Jobs = append(p.Jobs, Job{Harness: "opset13.H_C11_cast", Case: map[string]interface{}{"from": "int32", "to": "float32", "shape": []int{64, 65}, "concrete": true}})
			}
			for _, code := range []int{0, 8, 9, 10, 14, 15, 16, 17, -1} {
				if !th && i%3 != 0 && code != 9 {
					continue
				}
				p.Jobs = append(p.Jobs, Job{Harness: "opset13.H_C11_cast", Case: map[string]interface{}{"from": from, "to": "code", "code": code, "shape": []int{2}}})
			}
			p.Jobs = append(p.Jobs, Job{Harness: "opset13.H_C11_cast", Case: map[string]interface{}{"from": from, "to": "symbolic", "code": 0, "shape": []int{1}}})
		}
		for _, f := range []string{"value_float", "none", "two", "sparse_value", "value_string", "value_strings", "unknown_attribute", "value_int"} {
			p.Jobs = append(p.Jobs, Job{Harness: "opset13.H_C11_constant", Case: map[string]interface{}{"form": f, "n": 1}})
		}
		for _, dt := range []string{"short", "raw5", "float16", "string"} {
			p.Jobs = append(p.Jobs, Job{Harness: "opset13.H_C11_constant", Case: map[string]interface{}{"form": "value_undecodable", "n": 1, "dtype": dt}})
		}
		for _, dt := range []string{"uint32", "uint64", "float64", "int32", "int16", "int8", "uint16", "uint8"} {
			p.Jobs = append(p.Jobs, Job{Harness: "opset13.H_C11_constant", Case: map[string]interface{}{"form": "value_typed", "n": 2, "dtype": dt}})
		}
		for _, dt := range []string{"int8", "uint8", "int16", "uint16", "int32", "uint32", "int64", "uint64"} {
			p.Jobs = append(p.Jobs, Job{Harness: "opset13.H_C11_constant", Case: map[string]interface{}{"form": "value_raw", "n": 3, "dtype": dt}})
		}
		for _, n := range []int{1, 2, 3} {
			p.Jobs = append(p.Jobs, Job{Harness: "opset13.H_C11_constant", Case: map[string]interface{}{"form": "value_floats", "n": n}})
			p.Jobs = append(p.Jobs, Job{Harness: "opset13.H_C11_constant", Case: map[string]interface{}{"form": "value_ints", "n": n}})
		}
		for _, d := range [][]int{{2}, {2, 2}, {1, 3}, {}, {1}} {
			n := 1
			for _, x := range d {
				n *= x
			}
			p.Jobs = append(p.Jobs, Job{Harness: "opset13.H_C11_constant", Case: map[string]interface{}{"form": "value", "n": n, "dims": d}})
			p.Jobs = append(p.Jobs, Job{Harness: "opset13.H_C11_constant", Case: map[string]interface{}{"form": "value_f32tensor", "n": n, "dims": d}})
		}
		for _, dt := range []string{"float32", "float64", "int64", "int32"} {
			for _, n := range []int{1, 2, 3} {
				if n == 3 && !th && dt != "float32" {
					continue
				}
				p.Jobs = append(p.Jobs, Job{Harness: "opset13.H_C11_cos", Case: map[string]interface{}{"dtype": dt, "n": n, "nval": 1, "vshape": []int{1}}})
			}
			p.Jobs = append(p.Jobs, Job{Harness: "opset13.H_C11_cos", Case: map[string]interface{}{"dtype": dt, "n": 2, "nval": 2, "vshape": []int{2}}})
			p.Jobs = append(p.Jobs, Job{Harness: "opset13.H_C11_cos", Case: map[string]interface{}{"dtype": dt, "n": 1, "nval": 1, "vshape": []int{}}})
		}
		p.Jobs = append(p.Jobs, Job{Harness: "opset13.H_C11_cos", Case: map[string]interface{}{"dtype": "float32", "n": 2, "nval": -1, "vshape": []int{1}}})
		p.Jobs = append(p.Jobs, Job{Harness: "opset13.H_C11_cos", Case: map[string]interface{}{"dtype": "float32", "n": 4, "nval": 1, "vshape": []int{1}}})
		p.Bounds = []string{
			"Cast: all 10x10 numeric (source, target) pairs on shape (2), a third of them each on shapes (), (1), (1,1) (all, and more shapes, in thorough), every element symbolic; non-numeric targets by code (0,8,9,10,14,15,16,17,-1) and one symbolic 32-bit code constrained to differ from the ten numeric codes",
			"Constant: every attribute form (value_float(s), value_int(s), value with int64 and float32 tensors of rank 0..2, sparse_value, value_string(s), unknown name, no attribute, two attributes) with symbolic payloads",
			"ConstantOfShape: requested shape of 1..3 (4) entries symbolic in [-1,3], value attribute of float32/float64/int64/int32 with symbolic element, of 2 elements, of rank 0, or absent; the same operator instance applied to two requests in a row",
		}
		p.Outside = []string{"float-to-integer conversions outside the target range (implementation-defined in Go, unspecified in SMT-LIB): both sides use the same conversion", "Cast with `to` outside the int32 range", "shape requests with more than 4 entries or entries > 3"}
		p.Explanation = "Cast/ConvertTensorDtype/convertBacking/createNewBacking (generic instantiations), Constant.Init, ConstantOfShape Init/Apply executed symbolically"
		return p
	}
}
