package drive

import (
	"encoding/json"
	"fmt"
	"os"

	"verif/engine/symex"
)

// replayFile re-runs one recorded violation against the real build.
func replayFile(repo, verif, path string) int {
	b, err := os.ReadFile(path)
	if err != nil {
		fmt.Fprintln(os.Stderr, err)
		return 2
	}
	var rf ReplayFile
	if err := json.Unmarshal(b, &rf); err != nil {
		fmt.Fprintln(os.Stderr, err)
		return 2
	}
	ov, err := symex.BuildOverlay(verif+"/harness", repo)
	if err != nil {
		fmt.Fprintln(os.Stderr, err)
		return 2
	}
	w := &symex.World{Overlay: ov, RepoDir: repo}
	opt := Options{Property: rf.Property, RepoDir: repo, VerifDir: verif}
	res, log, err := RunNative(w, opt, []NativeJob{{ID: "r", Harness: rf.Harness, Case: rf.Case, Asg: rf.Asg}})
	if err != nil {
		fmt.Fprintln(os.Stderr, err, "\n", log)
		return 2
	}
	r := res["r"]
	f := symex.Failure{Label: rf.Label}
	out, _ := json.MarshalIndent(r, "", " ")
	fmt.Println(string(out))
	if Confirmed(f, r) {
		fmt.Printf("VIOLATION property=%s replay=%s\n", rf.Property, path)
		return 1
	}
	if rf.Property == "C17" {
		if race, _ := RunNativeRace(w, opt, []NativeJob{{ID: "race", Harness: "gonnx.H_C17_race", Case: rf.Case, Asg: rf.Asg}}); race {
			fmt.Println("go test -race reports a DATA RACE when 8 goroutines run this model concurrently")
			fmt.Printf("VIOLATION property=%s replay=%s\n", rf.Property, path)
			return 1
		}
	}
	fmt.Println("not reproduced")
	return 0
}
