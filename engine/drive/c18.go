package drive

func init() {
	Plans["C18"] = func(o Options) *Plan {
		p := &Plan{Property: "C18"}
		for _, e := range []string{"bytes", "zip"} {
			for _, c := range []string{"garbage", "truncated", "empty"} {
				p.Jobs = append(p.Jobs, Job{Harness: "gonnx.H_C18_glue", Case: map[string]interface{}{"entry": e, "content": c, "file": ""}})
			}
		}
		// one byte of a small well-formed message replaced by each of these values, at every position
		for _, b := range []int{0x00, 0x01, 0x09, 0x0d, 0x11, 0x12, 0x15, 0x40, 0x7f, 0x80, 0xff} {
			for pos := 0; pos < 24; pos++ {
				p.Jobs = append(p.Jobs, Job{Harness: "gonnx.H_C18_glue", Case: map[string]interface{}{"entry": "bytes", "content": "mutated", "file": "", "byte": b, "pos": pos}})
			}
		}
		for _, f := range []string{"mlp.onnx", "gru.onnx", "scaler.onnx", "does-not-exist.onnx", "mnist-8-opset13.onnx"} {
			p.Jobs = append(p.Jobs, Job{Harness: "gonnx.H_C18_glue", Case: map[string]interface{}{"entry": "file", "content": "", "file": f}})
		}
		for nopset := 0; nopset <= 3; nopset++ {
			for _, graph := range []bool{false, true} {
				if !graph {
					p.Jobs = append(p.Jobs, Job{Harness: "gonnx.H_C18_newmodel", Case: map[string]interface{}{"nopset": nopset, "graph": false, "ninit": 0, "n0": 0, "n1": 0, "raw": false, "rawdt": 6, "ninfo": 0}})
					continue
				}
				for ninit := 0; ninit <= 2; ninit++ {
					for _, n0 := range []int{0, 1, 2} {
						for _, n1 := range []int{0, 3, 4, 8} {
							if ninit < 1 && n0 > 0 || ninit < 2 && n1 > 0 {
								continue
							}
							if o.Tier != "thorough" && nopset == 3 && (n0 == 2 || n1 == 8) {
								continue
							}
							p.Jobs = append(p.Jobs, Job{Harness: "gonnx.H_C18_newmodel", Case: map[string]interface{}{"nopset": nopset, "graph": true, "ninit": ninit, "n0": n0, "n1": n1, "raw": n1 > 0, "rawdt": 6, "ninfo": (n0 + n1) % 4}})
						}
					}
				}
			}
		}
		// typed initializers whose data_type is ANY int32 (only: never a panic, a model or an error)
		for _, n0 := range []int{0, 1, 2} {
			p.Jobs = append(p.Jobs, Job{Harness: "gonnx.H_C18_newmodel", Case: map[string]interface{}{"nopset": 1, "graph": true, "ninit": 1, "n0": n0, "n1": 0, "raw": false, "rawdt": 6, "ninfo": 0, "anydtype": true}})
		}
		// declared extents far beyond the payload (2^62, 2^47, 2^31 x 2^31, 2^33 x 2^33 = overflow)
		for _, hd := range [][]int{{1 << 62}, {1 << 47}, {1 << 31, 1 << 31}, {1 << 33, 1 << 33}, {1 << 50, 3}} {
			for _, rawdt := range []int{1, 7} {
				p.Jobs = append(p.Jobs, Job{Harness: "gonnx.H_C18_newmodel", Case: map[string]interface{}{"nopset": 1, "graph": true, "ninit": 2, "n0": 1, "n1": 8, "raw": true, "rawdt": rawdt, "ninfo": 0, "hugedims": hd}})
			}
		}
		// raw payloads of every element type read from raw_data, lengths around whole elements
		for _, rawdt := range []int{1, 2, 3, 4, 5, 6, 7, 9, 11, 12, 13} {
			for _, n1 := range []int{1, 2, 3, 4, 5, 8, 9, 12} {
				if o.Tier != "thorough" && (n1 == 2 || n1 == 12) {
					continue
				}
				p.Jobs = append(p.Jobs, Job{Harness: "gonnx.H_C18_newmodel", Case: map[string]interface{}{"nopset": 1, "graph": true, "ninit": 2, "n0": 1, "n1": n1, "raw": true, "rawdt": rawdt, "ninfo": 0}})
			}
		}
		// sparse initializers with arbitrary indices
		for _, ninit := range []int{0, 1} {
			p.Jobs = append(p.Jobs, Job{Harness: "gonnx.H_C18_newmodel", Case: map[string]interface{}{"nopset": 1, "graph": true, "ninit": ninit, "n0": 1, "n1": 0, "raw": false, "rawdt": 1, "ninfo": 0, "sparse": true, "anydtype": true}})
		}
		// an initializer that carries BOTH encodings (typed float_data and raw_data), their sizes agreeing or not
		// with each other and with the dimensions
		for _, n1 := range []int{1, 2, 3} {
			for _, rawLen := range []int{4, 8, 12, 5} {
				p.Jobs = append(p.Jobs, Job{Harness: "gonnx.H_C18_newmodel", Case: map[string]interface{}{"nopset": 1, "graph": true, "ninit": 2, "n0": 1, "n1": n1, "raw": false, "rawdt": 1, "ninfo": 0, "bothraw": rawLen}})
			}
		}
		// nodes whose attributes are not what their operator expects (only: never a panic, a model or an error)
		for _, nd := range []string{"constant-value-without-tensor", "constant-value-typed-tensor-absent", "constant-bare", "constant-undecodable-tensor", "odd-attributes"} {
			for _, ninit := range []int{0, 1} {
				p.Jobs = append(p.Jobs, Job{Harness: "gonnx.H_C18_newmodel", Case: map[string]interface{}{"nopset": 1, "graph": true, "ninit": ninit, "n0": 1, "n1": 0, "raw": false, "rawdt": 1, "ninfo": 0, "nodes": nd}})
			}
		}
		for pos := 0; pos <= 2; pos++ {
			for _, dead := range []bool{false, true} {
				for _, name := range []string{"fresh", "FancyNewOperator", "", "relu", "Top%K", "100%", "%s%d"} {
					p.Jobs = append(p.Jobs, Job{Harness: "gonnx.H_C18_unknown_op", Case: map[string]interface{}{"position": pos, "dead": dead, "name": name, "names": "none"}})
					if name == "FancyNewOperator" || name == "relu" {
						for _, nm := range []string{"same", "distinct"} {
							p.Jobs = append(p.Jobs, Job{Harness: "gonnx.H_C18_unknown_op", Case: map[string]interface{}{"position": pos, "dead": dead, "name": name, "names": nm}})
						}
					}
				}
			}
		}
		p.Bounds = []string{
			"constructors: NewModelFromBytes / FromFile / FromZipFile with os.ReadFile, zip.File.Open, io.ReadAll and proto.Unmarshal as nondeterministic stubs (every combination of failure / success explored): an environment failure comes out as an error with a nil model, never a panic",
			"NewModel on an arbitrary decoded message within bounds: 0..3 opset imports whose versions are solver variables over all of int64; graph absent/present; 0..2 initializers with symbolic data_type over {FLOAT, INT64, FLOAT16, UNDEFINED, STRING} (and, for the no-panic assertions alone, over all of int32), one symbolic dim in [-1,3], typed payloads of 0..2 elements and raw payloads of 0/3/4/8 symbolic bytes (INT32) and of 1..12 symbolic bytes for each of the 11 element types read from raw_data; value infos with missing type / tensor type / shape / nil dimension / nil entries: refused iff an initializer is undecodable or the highest version is not 13 (then with the unsupported-opset error), introspection methods do not crash",
			"NewModel on graphs with nodes whose attributes are not what the operator expects (a Constant whose value attribute holds no tensor / an undecodable tensor / no attributes, unnamed and mistyped attributes, an empty node): never a panic, a model or an error",
			"Run on graphs with an operator type outside the opset (an opaque string unequal to every literal, and six concrete names, three with formatting verbs in them) at every position among three nodes, its output used or unused: Run fails with the unsupported-operator error",
		}
		p.Outside = []string{"arbitrary / truncated / adversarial BYTE STRINGS through proto.Unmarshal: the protobuf runtime (reflection, unsafe) is not encodable; its output is modelled as an arbitrary well-typed message within the bounds above, and the native cross-validation runs feed real garbage, truncated and sample files through the real decoder", "zero-element initializers", "more than 2 initializers / 3 opset imports"}
		p.Explanation = "NewModel*, ModelProtoFromBytes, GraphProto.Params/TensorFromProto, ResolveOperatorGetter, Model.Run executed symbolically with environment stubs"
		return p
	}
}
