package drive

func init() {
	Plans["C10"] = func(o Options) *Plan {
		p := &Plan{Property: "C10"}
		th := o.Tier == "thorough"
		shapes := [][]int{{}, {1}, {2, 2}}
		if th {
			shapes = append(shapes, []int{3}, []int{1, 2, 1}, []int{2, 1, 1, 2})
		}
		add := func(op string, shape []int, dt string, slope []int) {
			special := (op == "Sigmoid" || op == "Tanh") && len(shape) <= 1 && (dt == "float32" || th) && (len(shape) == 0 || shape[0] < 10)
			n := 1
			for _, d := range shape {
				n *= d
			}
			// instances of several thousand elements run on a fixed pattern (natively and by the interpreter in
			// concrete mode): their point is their size
			p.Jobs = append(p.Jobs, Job{Harness: "opset13.H_C10", Case: map[string]interface{}{"op": op, "shape": shape, "dtype": dt, "slope": slope, "special": special, "concrete": n > 1000}})
		}
		floatOps := []string{"Abs", "Relu", "Sigmoid", "Tanh", "Sin", "Cos", "Tan", "Asin", "Acos", "Atan", "Sinh", "Cosh", "Asinh", "Acosh", "Atanh"}
		for _, op := range floatOps {
			for _, s := range shapes {
				add(op, s, "float32", nil)
				add(op, s, "float64", nil)
			}
		}
		// sizes beyond the usual blocking / parallelisation thresholds and not a multiple of 2, 4, 64 (67; 4099 = 4096 + 3)
		add("Relu", []int{67}, "float32", nil)
		add("Relu", []int{4099}, "float32", nil)
		add("Relu", []int{1, 3, 37, 37}, "float64", nil)
		add("Abs", []int{67}, "float32", nil)
		add("Abs", []int{4099}, "int32", nil)
		add("PRelu", []int{4099}, "float32", []int{1})
		add("PRelu", []int{1000, 3}, "float32", []int{3})
		add("PRelu", []int{2, 700, 5}, "float32", []int{2, 1, 5})
		add("Not", []int{4099}, "bool", nil)
		for _, dt := range []string{"int8", "int16", "int32", "int64", "uint8", "uint16", "uint32", "uint64"} {
			add("Abs", []int{2}, dt, nil)
			add("Abs", []int{}, dt, nil)
		}
		for _, s := range shapes {
			add("Not", s, "bool", nil)
		}
		// PRelu: slope unidirectionally broadcast to the input
		pr := [][2][]int{{{2}, {2}}, {{2}, {1}}, {{2, 2}, {2}}, {{2, 2}, {2, 1}}, {{2, 2}, {1, 2}}, {{2, 2}, {}}, {{1, 2, 3, 2}, {2}}, {{2, 2, 2}, {1, 2}}, {{2, 2, 2}, {2, 1, 1}}, {{2}, {2, 2}}, {{2}, {1, 2}}, {{2, 3}, {2}}, {{}, {1}},
			// a slope of lower rank under a batch of ONE: the broadcast only adds axes, nothing is repeated
			{{1, 3}, {3}}, {{1, 1, 2}, {2}}, {{1, 2, 2}, {2, 2}}, {{1, 2, 2}, {1, 2}}}
		for i, c := range pr {
			add("PRelu", c[0], "float32", c[1])
			add("PRelu", c[0], []string{"float64", "int32", "int64", "uint32", "uint64"}[i%5], c[1])
		}
		p.Bounds = []string{
			"17 operators; shapes (), (1), (2,2), and (67), (4099), (1,3,37,37) for Relu/PRelu/Not/Abs (Abs: float32 67, int32 4099) (thorough also (3), (1,2,1), (2,1,1,2)); float32 and float64 for all, every accepted integer type for Abs and PRelu, bool for Not",
			"every element symbolic under IEEE-754 (FloatingPoint theory): +-0, subnormals, +-Inf, NaN, out-of-domain arguments are all values of the variable",
			"math wrappers: the result must be the term E(math.F(float64(x))) for the function F the operator is named after (uninterpreted function per routine; constants evaluated with Go's own routine)",
			"Tanh/Sigmoid: built from math32.Tanh/Exp (float32) resp. math.Tanh/Exp (float64) exactly as gorgonia's kernels call them, plus special-value assertions (NaN, +-Inf, range, halves) under stated facts about exp/tanh on the scalar and (1) shapes (float32; float64 in thorough)",
			"PRelu: 17 (input, slope) shape pairs incl. non-broadcastable ones and slopes that align with an inner axis of equal extent",
		}
		p.Outside = []string{"accuracy of the transcendental routines against the correctly rounded function (no SMT theory; Go's math/math32 trusted)", "extents > 3"}
		p.Explanation = "operator Apply paths, ops.ReLU/Sigmoid/Tanh, PRelu kernels and the math wrappers executed symbolically"
		return p
	}
}
