package drive

var c12Types = []string{"FLOAT", "DOUBLE", "INT8", "INT16", "INT32", "INT64", "UINT8", "UINT16", "UINT32", "UINT64", "BOOL"}
var c12Width = map[string]int{"FLOAT": 4, "DOUBLE": 8, "INT8": 1, "INT16": 2, "INT32": 4, "INT64": 8, "UINT8": 1, "UINT16": 2, "UINT32": 4, "UINT64": 8, "BOOL": 1}

func c12Jobs(o Options) []Job {
	var jobs []Job
	// {0}, {2, 0}, {0, 3}: weights without elements (an empty Resize roi, an empty axes list) have an empty payload and are valid
	dimsSets := [][]int{{}, {2}, {2, 2}, {1, 3}, {0}, {2, 0}, {0, 3}, {-1}, {-2}, {-1, -2}, {-2, -2}, {2, -1}}
	if o.Tier == "thorough" {
		dimsSets = [][]int{{}, {1}, {2}, {3}, {4}, {2, 2}, {1, 3}, {3, 1}, {2, 1, 2}, {1, 1, 1, 1}, {1, 2, 1, 2}, {0}, {2, 0}, {0, 3}, {1, 0, 2}, {-1}, {2, -1}, {-2, -2}}
	}
	for _, dt := range c12Types {
		w := c12Width[dt]
		for _, dims := range dimsSets {
			count := 1
			neg := false
			for _, d := range dims {
				count *= d
				if d < 0 {
					neg = true
				}
			}
			if neg {
				// the payload that the product of the dims (negative, or positive from an even number of negative dims) would fit
				if count < 0 {
					count = -count
				}
			}
			// every payload length from nothing to one element too many
			for n := 0; n <= w*count+w; n++ {
				jobs = append(jobs, Job{Harness: "onnx.H_C12", Case: map[string]interface{}{"dtype": dt, "enc": "raw", "dims": dims, "n": n}})
			}
			seen := map[int]bool{}
			for _, n := range []int{count - 1, count, count + 1} {
				if n <= 0 || seen[n] {
					continue
				}
				seen[n] = true
				jobs = append(jobs, Job{Harness: "onnx.H_C12", Case: map[string]interface{}{"dtype": dt, "enc": "typed", "dims": dims, "n": n}})
			}
		}
	}
	fieldSets := [][]string{{}, {"raw"}, {"float"}, {"int32"}, {"int64"}, {"double"}, {"uint64"}, {"float", "int32", "int64", "double", "uint64", "raw"}}
	for _, fs := range fieldSets {
		for _, n := range []int{0, 2} {
			jobs = append(jobs, Job{Harness: "onnx.H_C12_other", Case: map[string]interface{}{"fields": fs, "n": n}})
		}
	}
	for _, p := range [][2][]int{{{4}, {2, 2}}, {{2, 2}, {4}}, {{1, 4}, {4, 1}}, {{2}, {2}}, {{3}, {1, 3}}} {
		for _, dt := range []string{"INT32", "FLOAT"} {
			jobs = append(jobs, Job{Harness: "onnx.H_C12_params", Case: map[string]interface{}{"dimsA": p[0], "dimsB": p[1], "dtypeB": dt}})
		}
	}
	// more than 256 elements, their number no multiple of 256 (raw payloads decoded in blocks)
	for _, dt := range []string{"FLOAT", "INT64", "INT16", "UINT8"} {
		jobs = append(jobs, Job{Harness: "onnx.H_C12", Case: map[string]interface{}{"dtype": dt, "enc": "raw", "dims": []int{5, 4, 13}, "n": c12Width[dt] * 260}})
		jobs = append(jobs, Job{Harness: "onnx.H_C12", Case: map[string]interface{}{"dtype": dt, "enc": "raw", "dims": []int{300}, "n": c12Width[dt] * 300}})
	}
	// raw payloads that are windows of a larger buffer starting at offsets 1, 2, 3 and 5 (not aligned to the element size)
	for i, dt := range []string{"FLOAT", "DOUBLE", "INT64", "INT32", "INT16", "UINT16", "FLOAT", "DOUBLE"} {
		jobs = append(jobs, Job{Harness: "onnx.H_C12", Case: map[string]interface{}{"dtype": dt, "enc": "raw", "dims": []int{3}, "n": c12Width[dt] * 3, "offset": []int{1, 2, 3, 5}[i%4]}})
	}
	// the same description loaded twice through NewModel (package gonnx)
	for _, n := range []int{1, 2} {
		for _, typed := range []bool{false, true} {
			jobs = append(jobs, Job{Harness: "gonnx.H_C12_model", Case: map[string]interface{}{"n": n, "typed": typed}})
			if n == 2 {
				// the float initializer doubles as a declared graph input (a default the caller may override per Run)
				jobs = append(jobs, Job{Harness: "gonnx.H_C12_model", Case: map[string]interface{}{"n": n, "typed": typed, "defaulted": true}})
				jobs = append(jobs, Job{Harness: "gonnx.H_C12_model", Case: map[string]interface{}{"n": n, "typed": typed, "defaulted": true, "noshape": true}})
			}
		}
	}
	return jobs
}

func init() {
	Plans["C12"] = func(o Options) *Plan {
		return &Plan{Property: "C12", Jobs: c12Jobs(o),
			Bounds: []string{
				"11 element types x {raw little-endian bytes, typed repeated field}",
				"declared dims: rank 0..2 (thorough 0..4) with element count <= 4, plus negative dims",
				"raw payload length: EVERY byte length from 0 to expected + one element; typed payload length: expected-1, expected, expected+1 elements; every byte / typed element symbolic (all bit patterns)",
				"GraphProto.Params with three initializers sharing one symbolic payload under different dims / element types", "NewModel twice on one *ModelProto (raw and typed initializers), Params() in between: same weights each time, the description (fingerprint of the whole message) unchanged",
				"other data_type codes: one symbolic int32 constrained only to differ from the 11 supported codes, with each typed field / raw populated or not",
			},
			Outside:     []string{"element counts > 4 (the reader loops are uniform in the count: stated, not proved)", "NaN payload bits (SMT-LIB has a single NaN)", "typed BOOL entries other than 0/1", "both raw and typed populated"},
			Explanation: "TensorFromProto, the get*Data selectors and Read*ArrayFromBytes loops (through the interpreted bytes.Reader and binary.LittleEndian) executed symbolically",
		}
	}
}
