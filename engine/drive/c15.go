package drive

import (
	"sort"

	"github.com/advancedclimatesystems/gonnx/ops/opset13"
)

func init() {
	Plans["C15"] = func(o Options) *Plan {
		p := &Plan{Property: "C15", Exhaustive: true}
		names := opset13.GetOpNames()
		sort.Strings(names)
		for _, name := range names {
			op, err := opset13.GetOperator(name)
			if err != nil {
				continue
			}
			min, max := op.GetMinInputs(), op.GetMaxInputs()
			if name == "Concat" {
				max = 2
			}
			for n := 0; n <= max+2; n++ {
				// nil at every subset of the optional positions that are present
				var opt []int
				for i := min; i < n && i < max; i++ {
					opt = append(opt, i)
				}
				for m := 0; m < 1<<uint(len(opt)); m++ {
					mask := 0
					for k, pos := range opt {
						if (m>>uint(k))&1 == 1 {
							mask |= 1 << uint(pos)
						}
					}
					for _, spare := range []int{0, 1} {
						if o.Tier != "thorough" && spare == 1 && (m != 0 || n > max) {
							continue
						}
						p.Jobs = append(p.Jobs, Job{Harness: "opset13.H_C15_gate", Case: map[string]interface{}{"op": name, "n": n, "nilmask": mask, "spare": spare}})
					}
				}
			}
			// one tensor object supplied at every position; lists that exceed the maximum by nil entries
			for n := 2; n <= max && name != "Concat"; n++ {
				if n >= min {
					p.Jobs = append(p.Jobs, Job{Harness: "opset13.H_C15_gate", Case: map[string]interface{}{"op": name, "n": n, "nilmask": 0, "spare": 0, "alias": true}})
				}
			}
			if name != "Concat" {
				for _, n := range []int{max + 1, max + 2} {
					p.Jobs = append(p.Jobs, Job{Harness: "opset13.H_C15_gate", Case: map[string]interface{}{"op": name, "n": n, "nilmask": 0, "spare": n % 2, "excessnil": true}})
				}
			}
			if name == "Concat" {
				// long input lists of the variadic operator
				for _, n := range []int{7, 8, 9, 16, 17} {
					// (the leading tensors float32, the last two of any element type: a gate that compares types one by
					// one would otherwise branch 14 ways per position)
					p.Jobs = append(p.Jobs, Job{Harness: "opset13.H_C15_gate", Case: map[string]interface{}{"op": name, "n": n, "nilmask": 0, "spare": n % 2, "symfrom": n - 2}})
				}
			}
			p.Jobs = append(p.Jobs, Job{Harness: "opset13.H_C15_registry", Case: map[string]interface{}{"op": name}})
		}
		p.Jobs = append(p.Jobs, Job{Harness: "opset13.H_C15_unknown", Case: map[string]interface{}{}})
		// what the gates are handed inside a Model: an omitted optional input (empty name) stays absent even when an
		// earlier node left an output unnamed (the empty name is not a value)
		for _, g := range [][]gnode{
			{{"GRU", "X,W3,R3", ",yh", "hidden_size=2"}, {"Squeeze", "yh,", "o", ""}},
			{{"LSTM", "X,W4,R4", ",,yc", "hidden_size=2"}, {"Squeeze", "yc,", "s", ""}, {"Gemm", "s,s,", "o", "transB=1"}},
			{{"RNN", "X,W1,R1", ",yh", "hidden_size=2"}, {"RNN", "X,W1,R1,,,yh", "o,oh", "hidden_size=2"}},
		} {
			cm := graphCase(g, []string{"X:2,2,2"}, []string{"W3:1,6,2", "R3:1,6,2", "W4:1,8,2", "R4:1,8,2", "W1:1,2,2", "R1:1,2,2"}, []string{"o"}, []string{"X"})
			cm["evaluates"] = true
			p.Jobs = append(p.Jobs, Job{Harness: "gonnx.H_C01", Case: cm})
		}
		p.Bounds = []string{
			"all registered operators (names and arities read from /repo on this run) x input count 0..max+2 (Concat 0..4 and 7, 8, 9, 16, 17) x nil at every subset of the optional positions x list passed with/without spare capacity holding stale tensors",
			"the element type at every non-nil position is ONE symbolic variable over the 14-type universe: each case decides 14^k type combinations in a single run",
			"registry: per operator, fingerprints of instances before/after Init of another instance with a representative attribute set; unknown names: an opaque string unequal to every literal, plus near-miss spellings",
		}
		p.Outside = []string{"nil at a required position (the property quantifies nil over optional positions only)", "more than max+2 inputs"}
		p.Explanation = "ops.ValidateInputs / checkNInputs / padInputs / checkInputTypes and each operator's ValidateInputs, GetOperator executed symbolically with shape-only tensors of symbolic dtype"
		return p
	}
}
