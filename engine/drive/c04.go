package drive

func init() {
	Plans["C04"] = func(o Options) *Plan {
		p := &Plan{Property: "C04"}
		th := o.Tier == "thorough"
		// MatMul: operand shapes of rank 1..4 (5 thorough)
		mm := [][2][]int{
			{{2}, {2}}, {{3}, {3}}, {{2}, {3}}, {{2}, {2, 3}}, {{2, 3}, {3}}, {{2, 3}, {2}}, {{2, 3}, {3, 2}}, {{1, 2}, {2, 1}}, {{2, 1}, {1, 2}}, {{2, 2}, {3, 2}},
			{{2, 2, 3}, {3, 2}}, {{2, 3}, {2, 3, 2}}, {{2, 2, 3}, {2, 3, 2}}, {{1, 2, 3}, {2, 3, 1}}, {{2, 1, 3}, {1, 3, 2}}, {{2, 2, 3}, {3, 3, 2}},
			{{3}, {2, 3, 2}}, {{2, 2, 3}, {3}}, {{2, 1, 2, 3}, {2, 3, 1}}, {{1, 2, 1, 2}, {2, 1, 2, 2}}, {{2, 1, 1}, {1, 1, 2}}, {{1, 1}, {1, 1}}, {{1}, {1}},
			{{2, 1, 2, 2}, {3, 2, 1}},
			// more than 32 batch matrices, their number no multiple of 4 (33; 5x7)
			{{33, 1, 2}, {2, 2}}, {{5, 7, 1, 2}, {2, 2}},
			// three batch axes with the outer and the middle one both > 1 (the batch odometer carries twice)
			{{2, 3, 2, 1, 2}, {2, 3, 2, 2, 2}}, {{2, 3, 2, 2, 2}, {3, 1, 2, 1}}, {{2, 1, 2, 1, 2, 2}, {2, 1, 2, 2, 1}},
			{{2, 1, 1}, {2, 1, 1}}, {{1, 1, 1}, {1, 1, 3}}, {{2, 2, 1}, {2, 1, 1}}, {{2, 1, 2}, {2, 2, 1}}, {{1}, {1, 2}}, {{3, 1, 1}, {1}},
		}
		if th {
			mm = append(mm, [2][]int{{2, 1, 2, 1, 2}, {2, 1}}, [2][]int{{1, 2, 2, 2, 3}, {2, 1, 1, 3, 1}}, [2][]int{{3, 2, 1}, {3, 1, 2}}, [2][]int{{2, 3, 3}, {1, 3, 3}})
		}
		for _, c := range mm {
			p.Jobs = append(p.Jobs, Job{Harness: "opset13.H_C04_matmul", Case: map[string]interface{}{"a": c[0], "b": c[1]}})
			p.Jobs = append(p.Jobs, Job{Harness: "opset13.H_C04_matmul", Case: map[string]interface{}{"a": c[1], "b": c[0]}})
		}
		for _, dt := range []string{"int64", "int32"} {
			for _, n := range []int{1, 2} {
				p.Jobs = append(p.Jobs, Job{Harness: "opset13.H_C04_matmul_int", Case: map[string]interface{}{"n": n, "dtype": dt}})
			}
		}
		for _, c := range [][2]int{{5, 2}, {7, 3}, {3, 2}, {1, 2}} {
			p.Jobs = append(p.Jobs, Job{Harness: "opset13.H_C04_linreg_ragged", Case: map[string]interface{}{"ncoef": c[0], "targets": c[1]}})
		}
		// Gemm
		type g struct {
			m, k, n int
		}
		dims := []g{{2, 3, 2}, {1, 2, 3}, {2, 2, 2}, {3, 1, 2}}
		if th {
			dims = append(dims, g{3, 3, 3}, g{1, 1, 1}, g{2, 1, 1})
		}
		for _, d := range dims {
			for ta := 0; ta < 2; ta++ {
				for tb := 0; tb < 2; tb++ {
					cs := [][]int{nil, {}, {d.n}, {1, d.n}, {d.m, 1}, {d.m, d.n}, {d.m}, {d.n, d.m, 1}, {1}}
					for ci, c := range cs {
						if !th && (ta+tb)%2 == 1 && ci > 3 && d.m != d.n {
							continue
						}
						cm := map[string]interface{}{"m": d.m, "k": d.k, "n": d.n, "transA": ta, "transB": tb, "c": c, "cabsent": c == nil, "scalars": ci%2 == 0, "explicit": ci%3 == 0}
						if c == nil {
							cm["c"] = []int{}
						}
						p.Jobs = append(p.Jobs, Job{Harness: "opset13.H_C04_gemm", Case: cm})
					}
				}
			}
		}
		p.Jobs = append(p.Jobs, Job{Harness: "opset13.H_C04_gemm", Case: map[string]interface{}{"m": 2, "k": 3, "n": 2, "transA": 0, "transB": 0, "c": []int{}, "cabsent": true, "scalars": false, "explicit": false, "ashape": []int{2, 2}}})
		p.Jobs = append(p.Jobs, Job{Harness: "opset13.H_C04_gemm", Case: map[string]interface{}{"m": 2, "k": 3, "n": 2, "transA": 1, "transB": 0, "c": []int{}, "cabsent": true, "scalars": false, "explicit": false, "ashape": []int{6}}})
		// LinearRegressor, Scaler
		for t := 1; t <= 3; t++ {
			for f := 1; f <= 3; f++ {
				for _, ic := range []bool{true, false} {
					nb := 1 + (t+f)%2
					p.Jobs = append(p.Jobs, Job{Harness: "opset13.H_C04_linreg", Case: map[string]interface{}{"targets": t, "features": f, "batch": nb, "intercepts": ic, "explicit": f == 2}})
				}
			}
		}
		for _, s := range [][]int{{1}, {3}, {1, 2}, {2, 3}, {2, 1}, {2, 2, 2}} {
			c := s[len(s)-1]
			for _, n := range []int{c, 1, c + 1} {
				p.Jobs = append(p.Jobs, Job{Harness: "opset13.H_C04_scaler", Case: map[string]interface{}{"shape": s, "n": n, "ns": n}})
				// one of the two attributes a single value, the other per feature
				if n > 1 {
					p.Jobs = append(p.Jobs, Job{Harness: "opset13.H_C04_scaler", Case: map[string]interface{}{"shape": s, "n": 1, "ns": n}})
					p.Jobs = append(p.Jobs, Job{Harness: "opset13.H_C04_scaler", Case: map[string]interface{}{"shape": s, "n": n, "ns": 1}})
				}
			}
		}
		// Scaler in IEEE float32 arithmetic: exactly (x - offset) * scale, each operation rounded once
		p.Jobs = append(p.Jobs,
			Job{Harness: "opset13.H_C04_scaler", Case: map[string]interface{}{"shape": []int{2}, "n": 2, "ns": 2, "ieee": true}},
			Job{Harness: "opset13.H_C04_scaler", Case: map[string]interface{}{"shape": []int{1, 2}, "n": 1, "ns": 2, "ieee": true}})
		p.Bounds = []string{
			"exact real arithmetic (float elements as reals): every element, alpha, beta, coefficient, intercept, offset and scale is a solver variable; equality with the reference is an identity over the reals (nonlinear real arithmetic)",
			"MatMul: 33 (37 thorough) operand shape pairs of rank 1..6 with extents {1,2,3}, both orders: vector.vector, vector.matrix, matrix.vector, stacks with broadcastable and non-broadcastable batch shapes, inner-dimension mismatches; each case applies the same operator instance to the same tensors twice",
			"Gemm: (M,K,N) in 4 (7) size triples x transA x transB x C in {absent, scalar, (N), (1,N), (M,1), (M,N), (M), rank 3, (1)} x alpha/beta symbolic or default, plus ill-shaped A",
			"MatMul on int64/int32 vectors (every element a solver variable over the full range): the exact wrapping product or a refusal; LinearRegressor with a coefficient count that is no multiple of targets: refused", "LinearRegressor: targets 1..3 x features 1..3 x intercepts present/absent x batch 1..2 (instance applied twice); Scaler: X of rank 1..3, offset/scale of length C, 1 and C+1, alike and mixed (1 with C) (instance applied twice)",
		}
		p.Outside = []string{"floating-point rounding (the identity is over the reals; the size of the rounding error is the standard dot-product bound and is not checked)", "extents > 3, rank > 5", "non-float element types (they must give the same result or an error: not exercised here)"}
		p.Explanation = "MatMul/Gemm/LinearRegressor/Scaler Apply paths incl. broadcastTensors, batchedMatMul, incrementSlices executed symbolically; tensor.MatMul as a dot-product term builder over logical (stride-aware) element access"
		return p
	}
}
