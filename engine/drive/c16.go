package drive

func init() {
	Plans["C16"] = func(o Options) *Plan {
		p := &Plan{Property: "C16"}
		th := o.Tier == "thorough"
		ns := []int{1, 2, 3}
		bigBatch := false
		addSample := func(name string, batched []string, outaxis []int) {
			for _, n := range ns {
				p.Jobs = append(p.Jobs, Job{Harness: "gonnx.H_C16", Case: map[string]interface{}{"sample": name, "batched": batched, "outaxis": outaxis, "n": n,
					"ops": []string{}, "ins": []string{}, "outs": []string{}, "attrs": []string{}, "inputs": []string{}, "inits": []string{}, "outputs": []string{}}})
			}
		}
		addSample("mlp", []string{"data_input:1,3:0"}, []int{0})
		addSample("scaler", []string{"X:1,3:0"}, []int{0})
		addSample("gru", []string{"data_input:1,2,3:0", "init_hidden:1,1,5:1"}, []int{0, 1})
		addSample("gru", []string{"data_input:1,3,3:0", "init_hidden:1,1,5:1"}, []int{0, 1})
		addSample("gru", []string{"data_input:1,1,3:0", "init_hidden:1,1,5:1"}, []int{0, 1})
		addGraph := func(nodes []gnode, inits []string, outputs []string, batched []string, outaxis []int) {
			batchSizes := ns
			if bigBatch {
				batchSizes = []int{5, 6}
			}
			for _, n := range batchSizes {
				var inputs []string
				for _, b := range batched {
					inputs = append(inputs, b)
				}
				cm := graphCase(nodes, inputs, inits, outputs, nil)
				cm["sample"] = ""
				cm["batched"] = batched
				cm["outaxis"] = outaxis
				cm["n"] = n
				// the largest batch also handed over as a view into a larger parent batch
				// (not for Div: gorgonia's contiguous and iterator kernels disagree on x/0 - known finding
				// C03.float-div-by-zero - so a zero divisor in a natively sampled assignment would show as a layout
				// difference)
				cm["views"] = n == batchSizes[len(batchSizes)-1] && nodes[0].op != "Div"
				// ... and lazily transposed (first two axes exchanged), except for models whose first operator is known
				// to answer differently for lazily transposed operands on the unchanged tree (gorgonia's matrix
				// product and softmax kernels, PRelu and the recurrent operators' raw-data access; DESIGN 8.3)
				cm["lazy"] = cm["views"].(bool) && !map[string]bool{"MatMul": true, "PRelu": true, "RNN": true, "GRU": true, "LSTM": true, "Softmax": true, "LogSoftmax": true, "Gemm": true}[nodes[0].op]
				p.Jobs = append(p.Jobs, Job{Harness: "gonnx.H_C16", Case: cm})
			}
		}
		one := func(op, attr, ins string, inits []string, batched string, oa int) {
			addGraph([]gnode{{op, ins, "o", attr}}, inits, []string{"o"}, []string{batched}, []int{oa})
		}
		one("Gemm", "transB=1", "x,w,b", []string{"w:3,2", "b:3"}, "x:1,2:0", 0)
		one("Gemm", "", "x,w", []string{"w:2,3"}, "x:1,2:0", 0)
		// weights that have exactly the shape of a single sample's result (broadcasting hands them through unchanged)
		one("Gemm", "", "x,w,b", []string{"w:2,3", "b:1,3"}, "x:1,2:0", 0)
		one("Gemm", "alpha=2;beta=3;transB=1", "x,w,b", []string{"w:3,2", "b:1,3"}, "x:1,2:0", 0)
		one("Add", "", "x,w", []string{"w:1,2"}, "x:1,2:0", 0)
		one("Mul", "", "w,x", []string{"w:1,2"}, "x:1,2:0", 0)
		one("PRelu", "", "x,s", []string{"s:1,2"}, "x:1,2:0", 0)
		one("MatMul", "", "x,w", []string{"w:2,3"}, "x:1,2:0", 0)
		one("MatMul", "", "x,w", []string{"w:2,3"}, "x:1,2,2:0", 0)
		one("MatMul", "", "w,x", []string{"w:3,2"}, "x:1,2,2:0", 0)
		one("MatMul", "", "w,x", []string{"w:2,2"}, "x:1,2,3:0", 0)
		one("Conv", "", "x,k,b", []string{"k:2,1,2,2", "b:2"}, "x:1,1,3,3:0", 0)
		one("Conv", "strides=2", "x,k", []string{"k:1,2,2"}, "x:1,2,4:0", 0)
		// padding computed from the input's extents: it must come from the spatial ones, not from the batch size
		one("Conv", "auto_pad=SAME_UPPER;strides=2", "x,k", []string{"k:1,1,3"}, "x:1,1,5:0", 0)
		one("Conv", "auto_pad=SAME_LOWER;strides=2", "x,k", []string{"k:1,1,3"}, "x:1,1,6:0", 0)
		one("Conv", "auto_pad=SAME_UPPER;strides=2,3", "x,k,b", []string{"k:1,2,2,3", "b:1"}, "x:1,2,3,4:0", 0)
		one("Conv", "pads=1,0,0,1;strides=2,1;dilations=1,2", "x,k", []string{"k:1,1,2,2"}, "x:1,1,3,4:0", 0)
		// batches of 5 and 6 samples
		bigBatch = true
		one("Conv", "", "x,k,b", []string{"k:2,1,2,2", "b:2"}, "x:1,1,2,3:0", 0)
		one("Conv", "strides=2", "x,k", []string{"k:1,1,2"}, "x:1,1,3:0", 0)
		one("Gemm", "transB=1", "x,w,b", []string{"w:2,2", "b:2"}, "x:1,2:0", 0)
		one("MatMul", "", "x,w", []string{"w:2,2"}, "x:1,1,2:0", 0)
		one("Add", "", "x,w", []string{"w:2"}, "x:1,2:0", 0)
		addGraph([]gnode{{"RNN", "x,W,R", "y,yh", "hidden_size=2"}}, []string{"W:1,2,2", "R:1,2,2"}, []string{"yh"}, []string{"x:2,1,2:1"}, []int{1})
		bigBatch = false
		for _, op := range []string{"Add", "Mul", "Sub", "Div"} {
			one(op, "", "x,w", []string{"w:2"}, "x:1,2:0", 0)
			one(op, "", "w,x", []string{"w:2,1"}, "x:1,2,2:0", 0)
		}
		for _, op := range []string{"Add", "Mul", "Sub"} {
			// a per-feature vector FIRST against a batch of rows (batch 1: shapes (H) and (1,H));
			// a batch of column samples against a vector whose length equals the batch size
			one(op, "", "w,x", []string{"w:2"}, "x:1,2:0", 0)
			one(op, "", "x,w", []string{"w:2"}, "x:1,1:0", 0)
			one(op, "", "w,x", []string{"w:3"}, "x:1,1:0", 0)
		}
		// boolean masks of the samples against a per-feature boolean weight of lower rank, either order
		for _, op := range []string{"And", "Or", "Xor"} {
			addGraph([]gnode{{"Greater", "x,t", "m", ""}, {op, "m,pf", "o", ""}}, []string{"t:2", "pf:2:bool"}, []string{"o"}, []string{"x:1,2:0"}, []int{0})
			addGraph([]gnode{{"Less", "x,t", "m", ""}, {op, "pf,m", "o", ""}}, []string{"t:1", "pf:3:bool"}, []string{"o"}, []string{"x:1,3:0"}, []int{0})
		}
		// per-sample sequence lengths: refused or not, a sample must be treated alike alone and in any batch
		for _, op := range []string{"RNN", "GRU", "LSTM"} {
			g := map[string]int{"RNN": 1, "GRU": 3, "LSTM": 4}[op]
			for _, lens := range []string{"3|2|3", "2|3|1", "3|3|3", "2|2|2"} {
				for _, n := range []int{2, 3} {
					cm := graphCase([]gnode{{op, "x,W,R,,sl", "y,yh", "hidden_size=2"}}, []string{"x:3,1,2:1", "sl:1:0"}, []string{"W:1," + itoa(g*2) + ",2", "R:1," + itoa(g*2) + ",2"}, []string{"yh"}, nil)
					cm["sample"] = ""
					cm["batched"] = []string{"x:3,1,2:1", "sl:1:0:i32=" + lens}
					cm["outaxis"] = []int{1}
					cm["n"] = n
					cm["mayrefuse"] = true
					p.Jobs = append(p.Jobs, Job{Harness: "gonnx.H_C16", Case: cm})
				}
			}
		}
		// values derived from the SHAPE of the batch (they change with the batch size)
		addGraph([]gnode{{"Shape", "x", "s", ""}, {"ConstantOfShape", "s", "c", ""}, {"Add", "x,c", "o", ""}}, nil, []string{"o"}, []string{"x:1,2:0"}, []int{0})
		addGraph([]gnode{{"Shape", "x", "s", ""}, {"Gather", "s,i0", "b", "axis=0"}, {"Concat", "b,two", "t", "axis=0"}, {"Reshape", "x,t", "r", ""}, {"Relu", "r", "o", ""}},
			[]string{"i0:1:i64=0", "two:1:i64=2"}, []string{"o"}, []string{"x:1,2:0"}, []int{0})
		for _, op := range []string{"Relu", "Sigmoid", "Tanh", "Abs", "Sin", "Atan"} {
			one(op, "", "x", nil, "x:1,3:0", 0)
		}
		one("PRelu", "", "x,s", []string{"s:2"}, "x:1,2,2:0", 0)
		// Softmax over a non-batch axis that is not the last one (gorgonia's last-axis kernel seeds each slice's
		// maximum with the first element of the whole batch: equal over the reals, but not provable with exp
		// uninterpreted; its numerical consequences are the C09 known finding)
		one("Softmax", "axis=1", "x", nil, "x:1,3,2:0", 0)
		one("Softmax", "axis=-2", "x", nil, "x:1,2,2:0", 0)
		one("LogSoftmax", "axis=1", "x", nil, "x:1,2,2:0", 0)
		// Softmax along the LAST axis of a batch, IEEE arithmetic on the grid {-200,0,200}^d: known finding
		for _, op := range []string{"Softmax", "LogSoftmax"} {
			for _, n := range []int{2, 3} {
				cm := graphCase([]gnode{{op, "x", "o", "axis=-1"}}, []string{"x:1,2:0"}, nil, []string{"o"}, nil)
				cm["sample"] = ""
				cm["batched"] = []string{"x:1,2:0"}
				cm["outaxis"] = []int{0}
				cm["n"] = n
				cm["grid"] = true
				// quick: one path per grid point; thorough: all 81 points of N=2 in one solver query, N=3 per point
				cm["enumerate"] = n > 2 || !th
				if n > 2 && !th {
					continue
				}
				p.Jobs = append(p.Jobs, Job{Harness: "gonnx.H_C16", Case: cm})
			}
		}
		// two batched inputs joined along the last (feature) axis, several steps per sample
		addGraph([]gnode{{"Concat", "x,y", "c", "axis=-1"}, {"Relu", "c", "o", ""}}, nil, []string{"o"}, []string{"x:1,2,2:0", "y:1,2,3:0"}, []int{0})
		addGraph([]gnode{{"Concat", "x,y", "o", "axis=1"}}, nil, []string{"o"}, []string{"x:1,2,2:0", "y:1,1,2:0"}, []int{0})
		one("Flatten", "axis=1", "x", nil, "x:1,2,2:0", 0)
		one("Reshape", "", "x,s", []string{"s:2:i64=0,-1"}, "x:1,2,2:0", 0)
		one("Reshape", "", "x,s", []string{"s:3:i64=-1,2,2"}, "x:1,4:0", 0)
		one("Squeeze", "", "x,a", []string{"a:1:i64=1"}, "x:1,1,3:0", 0)
		one("Unsqueeze", "", "x,a", []string{"a:1:i64=1"}, "x:1,3:0", 0)
		one("Gather", "axis=1", "x,i", []string{"i:2:i64=2,0"}, "x:1,3:0", 0)
		one("Transpose", "perm=0,2,1", "x", nil, "x:1,2,3:0", 0)
		one("Transpose", "perm=1,0,2", "x", nil, "x:1,2,3:0", 1)
		one("Transpose", "perm=1,0,2", "x", nil, "x:1,3,2:0", 1)
		one("Scaler", "offset=1,2;scale=3,4", "x", nil, "x:1,2:0", 0)
		one("LinearRegressor", "coefficients=1,2,3,4;intercepts=1,2;targets=2", "x", nil, "x:1,2:0", 0)
		// recurrent operators: batch on axis 1
		addGraph([]gnode{{"RNN", "x,W,R,B", "y,yh", "hidden_size=2"}}, []string{"W:1,2,2", "R:1,2,2", "B:1,4"}, []string{"y", "yh"}, []string{"x:2,1,2:1"}, []int{2, 1})
		addGraph([]gnode{{"GRU", "x,W,R,B,,h", "y,yh", "hidden_size=2"}}, []string{"W:1,6,2", "R:1,6,2", "B:1,12"}, []string{"y", "yh"}, []string{"x:2,1,2:1", "h:1,1,2:1"}, []int{2, 1})
		addGraph([]gnode{{"LSTM", "x,W,R,B,,h,c,P", "y,yh,yc", "hidden_size=2"}}, []string{"W:1,8,2", "R:1,8,2", "B:1,16", "P:1,6"}, []string{"y", "yh", "yc"}, []string{"x:2,1,2:1", "h:1,1,2:1", "c:1,1,2:1"}, []int{2, 1, 1})
		// the shape of the gru sample with symbolic weights: Transpose -> GRU -> Squeeze -> Transpose (batch size == sequence length included)
		for _, seq := range []int{1, 2, 3} {
			addGraph([]gnode{{"Transpose", "x", "t", "perm=1,0,2"}, {"GRU", "t,W,R,B,,h", "y,yh", "hidden_size=2;linear_before_reset=1"}, {"Squeeze", "y,ax", "s", ""}, {"Transpose", "s", "o", "perm=1,0,2"}},
				[]string{"W:1,6,2", "R:1,6,2", "B:1,12", "ax:1:i64=1"}, []string{"o", "yh"}, []string{"x:1," + itoa(seq) + ",2:0", "h:1,1,2:1"}, []int{0, 1})
		}
		_ = th
		p.Bounds = []string{
			"exact real arithmetic; every sample's inputs are solver variables; batch sizes N in {1,2,3}, the batch in given and in reversed order, each row compared with the evaluation of that sample alone",
			"models: the repository's sample files mlp.onnx, scaler.onnx and gru.onnx (decoded natively by the real protobuf runtime and mirrored into the interpreter, real weights as exact rationals; gru with sequence lengths 1..3, so batch size == sequence length is included) and 45 generated models with symbolic weights: Gemm/MatMul against weights (data on either side), Conv 1-D/2-D, elementwise operators against weights, activations, PRelu, Softmax/LogSoftmax over a non-batch axis, Flatten/Reshape/Squeeze/Unsqueeze/Gather/Transpose keeping or moving the batch axis, Scaler, LinearRegressor, RNN/GRU/LSTM with batch on axis 1, and the Transpose-GRU-Squeeze-Transpose shape of the gru sample",
		}
		p.Outside = []string{"Softmax/LogSoftmax along the LAST axis with N > 1 over the reals (equal there, but that needs exp(a+b)=exp(a)exp(b), which the uninterpreted exp cannot give); in IEEE arithmetic it is NOT batch independent: decided on the grid {-200,0,200} and reported as a known finding", "N > 3", "ndm.onnx (1.1 MB of weights)", "rounding: the statement is an identity over the reals (gorgonia's softmax seeds a slice maximum with the first element of the whole batch, which only affects rounding/overflow and is reported under C09)"}
		p.Explanation = "NewModel + Model.Run on batches and on single samples executed symbolically"
		reentrancyJobs(o, p)
		return p
	}
}
