package drive

func init() {
	Plans["C07"] = func(o Options) *Plan {
		p := &Plan{Property: "C07"}
		shapes := [][]int{{}, {1}, {3}, {1, 2}, {2, 1}, {2, 3}, {1, 1}, {2, 1, 2}, {1, 2, 1}, {1, 3, 1, 2}}
		if o.Tier == "thorough" {
			shapes = append(shapesUpTo(3, []int{1, 2, 3}), []int{1, 2, 1, 2}, []int{2, 1, 1, 3}, []int{1, 1, 2, 1, 2})
		}
		dts := []string{"float32", "int64", "float32", "bool", "float32", "uint8", "float64"}
		k := 0
		add := func(op string, shape []int, n int, full, dflt bool) {
			k++
			p.Jobs = append(p.Jobs, Job{Harness: "opset13.H_C07", Case: map[string]interface{}{"op": op, "shape": shape, "n": n, "dtype": dts[k%len(dts)], "full": full, "default": dflt}})
		}
		for _, s := range shapes {
			total := 1
			for _, d := range s {
				total *= d
			}
			add("Shape", s, 0, false, false)
			add("Flatten", s, 0, false, false)
			add("Flatten", s, 0, false, true)
			add("Squeeze", s, -1, false, false)
			add("Squeeze", s, 1, false, false)
			add("Unsqueeze", s, 1, false, false)
			add("Reshape", s, 1, false, false)
			if total <= 6 {
				add("Reshape", s, 2, false, false)
			}
			if len(s) <= 3 {
				add("Squeeze", s, 2, false, false)
				add("Unsqueeze", s, 2, false, false)
			}
			if o.Tier == "thorough" && total <= 4 && len(s) <= 2 {
				add("Reshape", s, 3, false, false)
				add("Squeeze", s, 3, false, false)
			}
		}
		// rank 5 and 6, leading and trailing extents different
		for _, s := range [][]int{{2, 1, 1, 1, 3}, {3, 1, 2, 1, 1}, {2, 1, 1, 1, 1, 3}} {
			add("Flatten", s, 0, false, false)
			add("Reshape", s, 2, false, false)
			add("Reshape", s, 1, false, false)
			add("Squeeze", s, 1, false, false)
			add("Shape", s, 0, false, false)
		}
		for _, s := range [][]int{{2, 3}, {1, 2, 1}} {
			add("Reshape", s, 2, true, false)
			add("Flatten", s, 0, true, false)
			add("Squeeze", s, 1, true, false)
			add("Unsqueeze", s, 2, true, false)
		}
		for _, op := range []string{"Reshape", "Flatten", "Squeeze", "Unsqueeze", "Shape"} {
			p.Jobs = append(p.Jobs, Job{Harness: "opset13.H_C07_types", Case: map[string]interface{}{"op": op}})
		}
		p.Bounds = []string{
			"element types: the input gate of each of the five operators with the data input's element type as one solver variable over all 14 tensor element types (integers, floats, complex, string, bool)",
			"input shapes: rank 0..4 from a fixed list (thorough: all shapes of rank 0..3 with extents {1,2,3} plus rank 4/5 samples); element types rotated over float32/int64/bool/uint8/float64; every element symbolic",
			"phase B (solver-enumerated finite domains): Reshape targets of length 1..2 (3 thorough) with entries in [-2, total+1]; Flatten axis in [-rank-2, rank+2] or absent; Squeeze axes tensors of length 1..2 (3) with entries in [-rank-1, rank] or no axes input; Unsqueeze axes of length 1..2 with entries in [-R-1, R]",
			"phase A (full int64 range): the same harnesses with unconstrained int64 entries, followed up to the first gorgonia call: finds panics / missing range checks in gonnx's own arithmetic for any of the 2^64 values",
		}
		p.Outside = []string{"target / axes lists longer than 3", "rank-0 shape/axes tensors", "VALUES of element types other than the five listed (the gate is checked for all 14)", "extents > 3"}
		p.Explanation = "Reshape/Flatten/Squeeze/Unsqueeze/Shape Apply paths with processShape, insertOnes, getNewShape, AllInRange, OffsetArrayIfNegative, HasDuplicates executed symbolically; Clone/Reshape by the real gorgonia"
		return p
	}
}
