package drive

import (
	"fmt"
	"math"
	"strings"
)

type c02op struct {
	op, attr string
	ins      string   // node input names, comma separated ("" = absent)
	outs     string   // node output names
	tensors  []string // specs "name:shape[:kind]" of every tensor the node reads
	weights  []string // names that are weights (initializers) in the "weights" variant
	mode     string
	altB     []string // specs for the second input set (default: same as tensors)
	bad      []string // specs of an input set that passes the signature check but fails inside the node
	feedback string
}

func c02Ops() []c02op {
	f := func(op, attr, ins, outs string, tensors []string, weights ...string) c02op {
		return c02op{op: op, attr: attr, ins: ins, outs: outs, tensors: tensors, weights: weights}
	}
	var o []c02op
	// recurrent operators that start from their default (all-zero) state and default bias
	o = append(o, f("RNN", "hidden_size=2", "x,W,R", "y,yh", []string{"x:2,2,2", "W:1,2,2", "R:1,2,2"}, "W", "R"))
	o = append(o, f("GRU", "hidden_size=2", "x,W,R", "y,yh", []string{"x:2,2,2", "W:1,6,2", "R:1,6,2"}, "W", "R"))
	o = append(o, f("LSTM", "hidden_size=2", "x,W,R", "y,yh,yc", []string{"x:2,2,2", "W:1,8,2", "R:1,8,2"}, "W", "R"))
	for _, op := range []string{"Add", "Sub", "Mul", "Div", "Equal", "Greater", "GreaterOrEqual", "Less", "LessOrEqual"} {
		o = append(o, f(op, "", "x,w", "o", []string{"x:2,2", "w:2"}, "w"))
		o = append(o, f(op, "", "w,x", "o", []string{"x:1,2", "w:2,1"}, "w"))
		o = append(o, f(op, "", "x,w", "o", []string{"x:1,3", "w:2,1"}, "w")) // both stretched: the first on its outer, the second on its inner axis
	}
	// operands that already have the result's shape: broadcasting hands them through unchanged (aliases)
	for _, op := range []string{"Add", "Sub", "Mul", "Div", "Greater", "Equal"} {
		o = append(o, f(op, "", "x,w", "o", []string{"x:2,2", "w:2,2"}, "w"))
	}
	o = append(o, f("And", "", "x,w", "o", []string{"x:2,2:bool", "w:2,2:bool"}, "w"))
	o = append(o, f("PRelu", "", "x,s", "o", []string{"x:2,2", "s:2,2"}, "s"))
	for _, op := range []string{"And", "Or", "Xor"} {
		o = append(o, f(op, "", "x,w", "o", []string{"x:2,2:bool", "w:2:bool"}, "w"))
	}
	o = append(o, f("Not", "", "x", "o", []string{"x:2,2:bool"}, "x"))
	for _, op := range []string{"Abs", "Relu", "Sigmoid", "Tanh", "Sin", "Cos", "Tan", "Asin", "Acos", "Atan", "Sinh", "Cosh", "Asinh", "Acosh", "Atanh"} {
		c := f(op, "", "x", "o", []string{"x:2,2"}, "x")
		c.feedback = "o>x"
		c.altB = []string{"x:3,2"}
		o = append(o, c)
	}
	o = append(o, f("PRelu", "", "x,s", "o", []string{"x:2,2", "s:2"}, "s"))
	mm := f("MatMul", "", "x,w", "o", []string{"x:2,2", "w:2,2"}, "w")
	mm.altB = []string{"x:3,2"}
	mm.feedback = "o>x"
	o = append(o, mm)
	o = append(o, f("MatMul", "", "x,w", "o", []string{"x:2,2,2", "w:2"}, "w"))
	o = append(o, f("MatMul", "", "w,x", "o", []string{"x:2,2,2", "w:2"}, "w"))
	gm := f("Gemm", "transB=1", "x,w,c", "o", []string{"x:2,2", "w:2,2", "c:2"}, "w", "c")
	gm.altB = []string{"x:1,2"}
	o = append(o, gm)
	o = append(o, f("Gemm", "transA=1", "x,w,c", "o", []string{"x:2,2", "w:2,2", "c:2,1"}, "w", "c"))
	// a batch of ONE sample (a single-row matrix) against weights that are not transposed, for the matrix products
	o = append(o, f("Gemm", "", "x,w,c", "o", []string{"x:1,2", "w:2,3", "c:3"}, "w", "c"))
	o = append(o, f("Gemm", "alpha=2", "x,w", "o", []string{"x:1,3", "w:3,2"}, "w"))
	o = append(o, f("MatMul", "", "x,w", "o", []string{"x:1,2", "w:2,3"}, "w"))
	o = append(o, f("MatMul", "", "x,w", "o", []string{"x:2", "w:2,3"}, "w"))
	o = append(o, f("LinearRegressor", "coefficients=1,2,3,4,5,6;intercepts=1,2;targets=2", "x", "o", []string{"x:1,3"}, "x"))
	// the weight as the FIRST operand (y = W^T x)
	o = append(o, f("Gemm", "transA=1", "w,x,c", "o", []string{"x:2,2", "w:2,2", "c:2"}, "w", "c"))
	o = append(o, f("Gemm", "transA=1;transB=1", "w,x", "o", []string{"x:3,2", "w:2,2"}, "w"))
	// scaled operands (alpha, beta other than 1) and a bias that already has the result's shape
	o = append(o, f("Gemm", "alpha=2;beta=3", "x,w,c", "o", []string{"x:2,2", "w:2,2", "c:2,2"}, "w", "c"))
	gb := f("Gemm", "beta=2;transA=1", "x,w,c", "o", []string{"x:2,1", "w:2,2", "c:1,2"}, "w", "c")
	gb.altB = []string{"x:2,2"}
	o = append(o, gb)
	gb = f("Gemm", "alpha=3;beta=2", "x,w,c", "o", []string{"x:2,2", "w:2,2", "c:1,2"}, "w", "c")
	gb.altB = []string{"x:1,2"}
	o = append(o, gb)
	// the identity scalings (default alpha, beta) with a bias that needs no stretching: the full (M,N) matrix, and a (1,N)
	// row against a batch of exactly one - nothing on the way forces a copy of C, so the sum must not land in it
	o = append(o, f("Gemm", "", "x,w,c", "o", []string{"x:2,2", "w:2,2", "c:2,2"}, "w", "c"))
	gb = f("Gemm", "", "x,w,c", "o", []string{"x:1,2", "w:2,3", "c:1,3"}, "w", "c")
	gb.altB = []string{"x:2,2"}
	o = append(o, gb)
	o = append(o, f("Gemm", "transB=1;beta=1;alpha=1", "x,w,c", "o", []string{"x:1,2", "w:1,2", "c:1,1"}, "w", "c"))
	o = append(o, f("Conv", "", "x,k,b", "o", []string{"x:1,1,3,3", "k:2,1,2,2", "b:2"}, "k", "b"))
	o = append(o, f("Conv", "pads=1,0,0,1;strides=2,1", "x,k,b", "o", []string{"x:2,2,3,4", "k:2,2,2,2", "b:2"}, "k", "b"))
	o = append(o, f("Conv", "", "x,k", "o", []string{"x:1,2,4", "k:1,2,2"}, "k"))
	// dilated kernels, kernel_shape given and inferred (the inferred one aliases the weight's shape)
	o = append(o, f("Conv", "dilations=2", "x,k", "o", []string{"x:1,1,4", "k:1,1,2"}, "k"))
	o = append(o, f("Conv", "dilations=2,1;kernel_shape=2,2", "x,k,b", "o", []string{"x:1,1,3,2", "k:1,1,2,2", "b:1"}, "k", "b"))
	o = append(o, f("Conv", "dilations=1,2;auto_pad=SAME_UPPER", "x,k", "o", []string{"x:1,1,2,3", "k:1,1,2,2"}, "k"))
	rn := f("RNN", "hidden_size=2", "x,W,R,B,,h", "y,yh", []string{"x:2,2,2", "W:1,2,2", "R:1,2,2", "B:1,4", "h:1,2,2"}, "W", "R", "B", "h")
	rn.bad = []string{"x:1,3,2"} // batch 3 against a state for batch 2
	o = append(o, rn)
	gr := f("GRU", "hidden_size=2;linear_before_reset=1", "x,W,R,B,,h", "y,yh", []string{"x:2,2,2", "W:1,6,2", "R:1,6,2", "B:1,12", "h:1,2,2"}, "W", "R", "B", "h")
	gr.bad = []string{"x:1,3,2"}
	o = append(o, gr)
	ls := f("LSTM", "hidden_size=2", "x,W,R,,,h,c", "y,yh,yc", []string{"x:1,2,2", "W:1,8,2", "R:1,8,2", "h:1,2,2", "c:1,2,2"}, "W", "R", "h", "c")
	ls.bad = []string{"x:1,1,2"}
	o = append(o, ls)
	o = append(o, f("GRU", "hidden_size=2", "x,W,R,,,h", "y,yh", []string{"x:1,2,2", "W:1,6,2", "R:1,6,2", "h:1,2,2"}, "W", "R", "h"))
	// exactly one of the two initial states of an LSTM
	o = append(o, f("LSTM", "hidden_size=2", "x,W,R,,,h", "y,yh,yc", []string{"x:1,2,2", "W:1,8,2", "R:1,8,2", "h:1,2,2"}, "W", "R", "h"))
	o = append(o, f("LSTM", "hidden_size=2", "x,W,R,,,,c", "y,yh,yc", []string{"x:1,2,2", "W:1,8,2", "R:1,8,2", "c:1,2,2"}, "W", "R", "c"))
	o = append(o, f("LSTM", "hidden_size=2", "x,W,R,B,,h,c,P", "y,yh,yc", []string{"x:2,2,2", "W:1,8,2", "R:1,8,2", "B:1,16", "h:1,2,2", "c:1,2,2", "P:1,6"}, "W", "R", "B", "h", "c", "P"))
	for _, kd := range []string{"keepdims=1", "keepdims=0"} {
		o = append(o, f("ArgMax", "axis=1;"+kd, "x", "o", []string{"x:2,3"}, "x"))
		o = append(o, f("ReduceMax", "axes=1;"+kd, "x", "o", []string{"x:2,3"}, "x"))
		o = append(o, f("ReduceMin", "axes=0,1;"+kd, "x", "o", []string{"x:2,3"}, "x"))
	}
	o = append(o, f("ReduceMax", "", "x", "o", []string{"x:2,2"}, "x"))
	// rank 5 and 6 operands (beyond the usual small-rank fast paths)
	o = append(o, f("ArgMax", "axis=3", "x", "o", []string{"x:1,2,1,2,2"}, "x"))
	o = append(o, f("ArgMax", "axis=-1;keepdims=1", "x", "o", []string{"x:2,1,1,1,1,2"}, "x"))
	o = append(o, f("ReduceMax", "axes=1,4;keepdims=1", "x", "o", []string{"x:1,2,1,1,2"}, "x"))
	o = append(o, f("ReduceMin", "keepdims=1", "x", "o", []string{"x:1,2,1,2,1"}, "x"))
	o = append(o, f("Transpose", "perm=4,3,2,1,0", "x", "o", []string{"x:1,2,1,2,2"}, "x"))
	o = append(o, f("Add", "", "x,w", "o", []string{"x:2,1,2,1,1,2", "w:2"}, "w"))
	o = append(o, f("Softmax", "axis=-1", "x", "o", []string{"x:1,3"}, "x"))
	o = append(o, f("LogSoftmax", "axis=0", "x", "o", []string{"x:2,2"}, "x"))
	o = append(o, f("Reshape", "", "x,s", "o", []string{"x:2,3", "s:2:i64=3,-1"}, "x", "s"))
	o = append(o, f("Flatten", "axis=1", "x", "o", []string{"x:2,1,2"}, "x"))
	o = append(o, f("Squeeze", "", "x,a", "o", []string{"x:2,1,2", "a:1:i64=-2"}, "x", "a"))
	o = append(o, f("Squeeze", "", "x", "o", []string{"x:1,2,1"}, "x"))
	o = append(o, f("Unsqueeze", "", "x,a", "o", []string{"x:2,2", "a:2:i64=-1,0"}, "x", "a"))
	o = append(o, f("Shape", "", "x", "o", []string{"x:2,1,3"}, "x"))
	o = append(o, f("Transpose", "perm=1,0", "x", "o", []string{"x:2,3"}, "x"))
	o = append(o, f("Concat", "axis=1", "x,w", "o", []string{"x:2,1", "w:2,2"}, "w"))
	o = append(o, f("Concat", "axis=0", "x", "o", []string{"x:2,2"}, "x"))
	o = append(o, f("Slice", "", "x,s,e,a", "o", []string{"x:3,3", "s:2:i64=0,1", "e:2:i64=2,3", "a:2:i64=-2,1"}, "x", "s", "e", "a"))
	o = append(o, f("Gather", "axis=0", "x,i", "o", []string{"x:3,2", "i:2:i64=-1,0"}, "x", "i"))
	o = append(o, f("Gather", "axis=1", "x,i", "o", []string{"x:2,3", "i:1,2:i64=-1,-3"}, "x", "i"))
	o = append(o, f("Expand", "", "x,s", "o", []string{"x:2,1", "s:2:i64=2,3"}, "x", "s"))
	o = append(o, f("Expand", "", "x,s", "o", []string{"x:2,2", "s:2:i64=2,2"}, "x", "s"))
	cs := f("Cast", "to=7", "x", "o", []string{"x:2,2"}, "x")
	cs.mode = "ieee"
	o = append(o, cs)
	o = append(o, f("Constant", "value_float=3", "", "o", nil))
	o = append(o, f("ConstantOfShape", "", "s", "o", []string{"s:2:i64=2,3"}, "s"))
	o = append(o, f("LinearRegressor", "coefficients=1,2,3,4;intercepts=1,2;targets=2", "x", "o", []string{"x:2,2"}, "x"))
	o = append(o, f("Scaler", "offset=1,2;scale=3,4", "x", "o", []string{"x:2,2"}, "x"))
	// one sample passed as a plain vector (the attribute vectors already have the operand's shape: nothing to broadcast)
	o = append(o, f("Scaler", "offset=1,2;scale=3,4", "x", "o", []string{"x:2"}, "x"))
	o = append(o, f("Scaler", "offset=5;scale=2", "x", "o", []string{"x:1"}, "x"))
	o = append(o, f("LinearRegressor", "coefficients=1,2,3,4;intercepts=1,2;targets=2", "x", "o", []string{"x:1,2"}, "x"))
	return o
}

func init() {
	Plans["C02"] = func(o Options) *Plan { return c02Plan(o, "C02", "gonnx.H_C02") }
	Plans["C17"] = func(o Options) *Plan {
		p := c02Plan(o, "C17", "gonnx.H_C17")
		kept := p.Jobs[:0]
		for _, j := range p.Jobs {
			if _, ok := j.Case["defaulted"]; ok {
				continue // a history of C02 only
			}
			j.Case["sample"] = ""
			kept = append(kept, j)
		}
		p.Jobs = kept
		for _, s := range []struct {
			name   string
			inputs []string
		}{{"mlp", []string{"data_input:2,3"}}, {"scaler", []string{"X:2,3"}}, {"gru", []string{"data_input:2,2,3", "init_hidden:1,2,5"}}} {
			p.Jobs = append(p.Jobs, Job{Harness: "gonnx.H_C17", Case: map[string]interface{}{"sample": s.name, "inputs": s.inputs, "mode": "",
				"ops": []string{}, "ins": []string{}, "outs": []string{}, "attrs": []string{}, "inits": []string{}, "outputs": []string{}, "inputsB": []string{}, "inputsBad": []string{}, "lazyT": "", "feedback": ""}})
		}
		p.Level = "other"
		p.RaceHarness = "gonnx.H_C17_race"
		p.Bounds = []string{
			"the schedule quantifier is NOT explored: the property is discharged by reduction to a sequential frame condition, which is decided symbolically for every input value: on the C02 model set (single-node graphs for all 55 operators, every weight-capable input as initializer and as caller tensor, three multi-node graphs) and the sample models mlp/scaler/gru, after NewModel everything reachable from the *Model (struct fields, decoded ModelProto, parameter map, weight metadata and data) and every package-level variable of the gonnx packages is put under the interpreter's write monitor; loading a second model, three successful Runs with private inputs and one failing Run must perform no store, map update, in-place tensor operation (Reshape, T, Zero, SetAt, Memset, WithReuse) or Shape()-alias write on any of it",
			"gonnx's SSA contains no go statement, channel operation or select (checked when the code is loaded: such instructions abort the run)",
		}
		p.Outside = []string{"the interleavings themselves (2..16 goroutines): not modelled; the claim follows from the frame condition and the Go memory model (concurrent reads are not a data race)", "gorgonia's read-only API (Shape, Data, Slice, At, Clone, Iterator, arithmetic without WithReuse) is assumed not to write its receiver, and its internal pools to be goroutine safe"}
		p.Explanation = "Reduction: if a single Run, for every input, writes nothing reachable from the Model nor any package-level variable, concurrent Runs with private inputs only read shared memory, hence are race free and each computes what it computes alone. The frame condition is decided by symbolic execution of NewModel/Run with a write monitor over the shared object graph; it is a sequential, per-input-universal statement. What is not checked is the step from the frame condition to all schedules (Go memory model) and gorgonia's internals."
		return p
	}
}

// reentrancyJobs: a few models of the C17 set (frame condition under the write monitor, confirmed by the concurrent
// harness under the race detector) for properties about Run that are also meant for overlapping Runs on one Model.
func reentrancyJobs(o Options, p *Plan) {
	n := 0
	for _, j := range c02Plan(o, "C17", "gonnx.H_C17").Jobs {
		ops, _ := j.Case["ops"].([]string)
		if _, d := j.Case["defaulted"]; d || len(ops) == 0 {
			continue
		}
		first := ops[0]
		if (len(ops) == 1 && (first == "Relu" || first == "Add" || first == "GRU" || first == "Gemm")) || (len(ops) == 3 && first == "Gemm") {
			if lt, _ := j.Case["lazyT"].(string); lt != "" {
				continue
			}
			j.Case["sample"] = ""
			p.Jobs = append(p.Jobs, j)
			n++
		}
		if n >= 8 {
			break
		}
	}
	p.RaceHarness = "gonnx.H_C17_race"
	p.Bounds = append(p.Bounds, "overlapping Runs on one Model: for a few models of the C17 set a Run must write nothing reachable from the Model or package state (the frame condition of C17, under the interpreter's write monitor; a hit is confirmed by the concurrent harness under go test -race before it is reported)")
}

// operators for which the history is also run with a lazily transposed caller tensor
var lazyTOps = map[string]bool{"Reshape": true, "Flatten": true, "Squeeze": true, "Unsqueeze": true, "Transpose": true, "Relu": true, "Abs": true,
	"Add": true, "Mul": true, "MatMul": true, "Gemm": true, "Concat": true, "Slice": true, "Gather": true, "Expand": true, "ReduceMax": true, "ArgMax": true,
	"Scaler": true, "LinearRegressor": true, "Shape": true, "Cast": true}

// manyConstants: ten Constant nodes with tensor values (raw float32 pairs), added up with the input.
func manyConstants() []gnode {
	var g []gnode
	prev := "x"
	for i := 0; i < 10; i++ {
		a, b := math.Float32bits(float32(i+1)), math.Float32bits(float32(2*i+1))
		hex := fmt.Sprintf("%02x%02x%02x%02x%02x%02x%02x%02x", byte(a), byte(a>>8), byte(a>>16), byte(a>>24), byte(b), byte(b>>8), byte(b>>16), byte(b>>24))
		c := "c" + itoa(i)
		out := "s" + itoa(i)
		if i == 9 {
			out = "o"
		}
		g = append(g, gnode{"Constant", "", c, "value_raw=1:2:" + hex}, gnode{"Add", prev + "," + c, out, ""})
		prev = out
	}
	return g
}

func c02Plan(o Options, prop, harness string) *Plan {
	{
		p := &Plan{Property: prop}
		for _, c := range c02Ops() {
			for _, variant := range []string{"caller", "weights"} {
				var inputs, inits, inputsB []string
				isW := map[string]bool{}
				if variant == "weights" {
					for _, w := range c.weights {
						isW[w] = true
					}
					if len(c.weights) == 0 {
						continue
					}
				}
				altB := map[string]string{}
				for _, s := range c.altB {
					altB[strings.SplitN(s, ":", 2)[0]] = s
				}
				for _, s := range c.tensors {
					name := strings.SplitN(s, ":", 2)[0]
					if isW[name] {
						inits = append(inits, s)
					} else {
						inputs = append(inputs, s)
						if a, ok := altB[name]; ok {
							inputsB = append(inputsB, a)
						} else {
							inputsB = append(inputsB, s)
						}
					}
				}
				fb := c.feedback
				if fb != "" && isW[strings.Split(fb, ">")[1]] {
					fb = ""
				}
				var outs []string
				for _, n := range strings.Split(c.outs, ",") {
					if n != "" {
						outs = append(outs, n)
					}
				}
				cm := graphCase([]gnode{{c.op, c.ins, c.outs, c.attr}}, inputs, inits, outs, nil)
				cm["inputsB"] = inputsB
				cm["mode"] = c.mode
				cm["feedback"] = fb
				var bad []string
				if len(c.bad) > 0 {
					// the misfitting tensors replace their namesakes, the other caller inputs stay as they are
					repl := map[string]string{}
					for _, b := range c.bad {
						repl[strings.SplitN(b, ":", 2)[0]] = b
					}
					for _, s := range inputs {
						if r, ok := repl[strings.SplitN(s, ":", 2)[0]]; ok {
							bad = append(bad, r)
						} else {
							bad = append(bad, s)
						}
					}
				}
				cm["inputsBad"] = bad
				cm["lazyT"] = ""
				p.Jobs = append(p.Jobs, Job{Harness: harness, Case: cm})
				// the caller writes new values into the very same tensor objects and runs again
				if variant == "caller" && len(inputs) > 0 && prop == "C02" {
					cm3 := map[string]interface{}{}
					for k, x := range cm {
						cm3[k] = x
					}
					cm3["rewrite"] = true
					p.Jobs = append(p.Jobs, Job{Harness: harness, Case: cm3})
				}
				// the first caller tensor handed over as a lazy transpose (rank-2 float inputs)
				if len(inputs) > 0 && lazyTOps[c.op] && (variant == "caller" || c.op == "MatMul" || c.op == "Gemm" || c.op == "Add" || c.op == "Mul") {
					for k, in := range inputs {
						if k > 1 || (k == 1 && c.op != "MatMul" && c.op != "Gemm" && c.op != "Add") {
							break // (the second caller tensor as well for the matrix products and Add)
						}
						spec := strings.Split(in, ":")
						if len(spec) == 2 && strings.Count(spec[1], ",") == 1 {
							cm2 := map[string]interface{}{}
							for kk, x := range cm {
								cm2[kk] = x
							}
							cm2["lazyT"] = spec[0]
							p.Jobs = append(p.Jobs, Job{Harness: harness, Case: cm2})
						}
					}
				}
			}
		}
		// multi-node graphs from C01 (binding shapes) under the same history
		for _, t := range [][]gnode{
			{{"Gemm", "x,w,b", "a", "transB=1"}, {"Relu", "a", "r", ""}, {"Gemm", "r,w", "o", ""}},
			{{"Transpose", "x", "a", "perm=1,0"}, {"MatMul", "a,w", "b2", ""}, {"Add", "b2,x", "o", ""}},
			{{"Conv", "x4,k,cb", "a", ""}, {"Relu", "a", "o", ""}},
			// a weight passed through an operator that may hand its input on unchanged, as an INTERMEDIATE value
			{{"Expand", "w,s2", "t", ""}, {"Add", "x,t", "o", ""}},
			{{"Concat", "w", "t", "axis=0"}, {"Mul", "t,x", "o", ""}},
			{{"Reshape", "w,s2", "t", ""}, {"Sub", "x,t", "o", ""}},
			{{"Transpose", "w", "t", "perm=0,1"}, {"MatMul", "x,t", "o", ""}},
			{{"Squeeze", "w", "t", ""}, {"Unsqueeze", "t,ax0", "u", ""}, {"Add", "x,t", "o", ""}},
			{{"Cast", "w", "t", "to=1"}, {"Add", "t,x", "o", ""}},
			// constants decoded from raw bytes on every Run (float64, float32, int64 readers)
			{{"Constant", "", "c", "value_raw=11:2:000000000000f03f0000000000000040"}, {"Cast", "c", "t", "to=1"}, {"Add", "x,t", "o", ""}},
			{{"Constant", "", "c", "value_raw=1:2:0000404000008040"}, {"Mul", "x,c", "o", ""}},
			{{"Constant", "", "c", "value_raw=7:2:ffffffffffffffff0000000000000000"}, {"Gather", "x,c", "o", "axis=1"}},
			manyConstants(),
		} {
			inputs, inits := []string{"x:2,2"}, []string{"w:2,2", "b:2"}
			outs := []string{"o"}
			if t[0].in == "w,s2" || t[0].in == "w" {
				inits = []string{"w:2,2", "s2:2:i64=2,2", "ax0:1:i64=0"}
			}
			if t[0].op == "Conv" {
				inputs, inits = []string{"x4:1,1,3,3"}, []string{"k:2,1,2,2", "cb:2"}
			}
			cm := graphCase(t, inputs, inits, outs, nil)
			cm["inputsB"] = inputs
			cm["mode"] = ""
			cm["feedback"] = ""
			cm["inputsBad"] = []string{}
			cm["lazyT"] = ""
			p.Jobs = append(p.Jobs, Job{Harness: harness, Case: cm})
			// the same graph with its float initializers ALSO declared as graph inputs (defaults): one Run overrides
			// them, the next one leaves them to the defaults again
			var defaulted []string
			for _, s := range inits {
				if !strings.Contains(s, ":i64") {
					defaulted = append(defaulted, s)
				}
			}
			if len(defaulted) > 0 {
				cm2 := map[string]interface{}{}
				for k, x := range cm {
					cm2[k] = x
				}
				cm2["defaulted"] = defaulted
				p.Jobs = append(p.Jobs, Job{Harness: harness, Case: cm2})
			}
		}
		p.Bounds = []string{
			"one inductive step plus a concrete history: for each model, Run(A), a failing Run (an input missing), Run(B) (other values, for several operators another batch size) compared with a freshly loaded model, Run(A) again with the very same tensor objects compared with the first result, a Run fed with an output of the first Run, a Run on the very same tensor objects after the caller has written new values into them, and (multi-node graphs) a Run that overrides initializers declared as defaulted graph inputs followed by one that leaves them to the defaults; after every Run the caller's tensors and every weight are compared with snapshots (shape, strides, dtype, elements) and the frame monitor must have seen no write to them",
			"models: single-node graphs for all 55 operators (several attribute/shape variants; every input that can be a weight once supplied by the caller and once as initializer) plus nine multi-node graphs (six pass a weight through an operator that may return its input itself, as an intermediate value); every float/bool element symbolic (exact real arithmetic; IEEE for Cast), integer-typed shape/axes/index tensors concrete",
		}
		p.Outside = []string{"histories longer than five Runs (covered by induction on the frame condition: a Run that writes nothing reachable from the Model or the caller's tensors starts from the state a fresh Model starts from)", "the sample .onnx files (their operators are covered one by one)", "tensor extents > 4"}
		p.Explanation = "NewModel + Model.Run sequences executed symbolically with the frame monitor armed on all parameters and caller tensors"
		return p
	}
}
