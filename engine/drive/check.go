package drive

import (
	"encoding/json"
	"fmt"
	"os"
	"path/filepath"
	"sort"
	"strings"
	"time"

	"verif/engine/symex"
)

type ReplayFile struct {
	Property string                 `json:"property"`
	Harness  string                 `json:"harness"`
	Case     map[string]interface{} `json:"case"`
	Label    string                 `json:"label"`
	Site     string                 `json:"site"`
	Detail   string                 `json:"detail,omitempty"`
	Regions  []string               `json:"regions,omitempty"`
	Asg      map[string]string      `json:"asg"`
	Native   *NativeResult          `json:"native_result,omitempty"`
}

type sample struct {
	Harness string                 `json:"harness"`
	Case    map[string]interface{} `json:"case"`
	Paths   int                    `json:"paths"`
	Queries int                    `json:"queries"`
	Asserts int                    `json:"assertions"`
	Verdict string                 `json:"verdict"`
}

// Check runs a plan; returns the process exit code.
func Check(w *symex.World, plan *Plan, opt Options) int {
	t0 := time.Now()
	known, knownWhat := loadKnown(opt.VerifDir, plan.Property)
	jobs := plan.Jobs
	if opt.OnlyCase != "" {
		var f []Job
		for _, j := range jobs {
			if strings.Contains(j.Key(), opt.OnlyCase) {
				f = append(f, j)
			}
		}
		jobs = f
	}
	if opt.MaxJobs > 0 && len(jobs) > opt.MaxJobs {
		jobs = jobs[:opt.MaxJobs]
	}
	if len(jobs) == 0 {
		fmt.Println("no jobs")
		return 2
	}
	results := RunJobs(w, jobs, opt, known)

	// collect
	type cand struct {
		jr *JobResult
		f  symex.Failure
		id string
	}
	var cands []cand
	var natJobs []NativeJob
	var incon []string
	var undecided []string // best-effort cases whose queries the solvers did not finish (outside what this run covers)
	funcs := map[string]int{}
	stubs := map[string]int{}
	assumptions := map[string]bool{}
	reached := map[string]int{}
	paths, forks, queries, asserts, assertsSMT, triv := 0, 0, 0, 0, 0, 0
	sat, unsat, unk := 0, 0, 0
	var solverT, oneShotT time.Duration
	oneShotQ, oneShotD := 0, 0
	steps := 0
	nontrivial := 0
	var samples []sample
	for i, jr := range results {
		ex := jr.Exp
		if opt.Verbose {
			fmt.Printf("JOB %s: %s panics=%v\n", jr.Job.Key(), ex.Summary(), ex.PanicsSeen)
		}
		be, _ := jr.Job.Case["best_effort"].(bool)
		for _, in := range ex.Incon {
			if be && strings.Contains(in.What, "solver unknown") {
				// a best-effort case (a proof attempt known to sit at the edge of what the solvers finish): an undecided
				// query is reported as not covered by this run, not as a failure of the check
				undecided = append(undecided, fmt.Sprintf("%s: %s", jr.Job.Key(), in.What))
				continue
			}
			incon = append(incon, fmt.Sprintf("%s: %s [%s]", jr.Job.Key(), in.What, in.Site))
		}
		for _, e := range jr.SolverEr {
			incon = append(incon, fmt.Sprintf("%s: solver said %s", jr.Job.Key(), e))
		}
		for k, v := range ex.Funcs {
			funcs[k] += v
		}
		for k, v := range ex.Stubs {
			stubs[k] += v
		}
		for k := range ex.Assumptions {
			assumptions[k] = true
		}
		for k, v := range ex.Reached {
			reached[k] += v
		}
		oneShotQ += ex.OneShotQueries
		oneShotD += ex.OneShotDecided
		oneShotT += ex.OneShotTime
		paths += ex.Paths
		forks += ex.Forks
		queries += jr.SolverQ
		solverT += jr.SolverT
		sat += jr.Sat
		unsat += jr.Unsat
		unk += jr.Unknown
		asserts += ex.AssertsTotal
		assertsSMT += ex.AssertsSMT
		triv += ex.AssertsTriv
		steps += ex.Steps
		if len(ex.SymKinds) > 0 && ex.AssertsTotal > 0 {
			nontrivial++
		}
		if ex.AssertsTotal == 0 && len(ex.Incon) == 0 {
			incon = append(incon, fmt.Sprintf("%s: vacuous: no assertion was reached on any path", jr.Job.Key()))
		}
		verdict := "holds"
		if len(ex.Failures) > 0 {
			verdict = fmt.Sprintf("%d counterexample(s)", len(ex.Failures))
		} else if len(ex.Incon) > 0 {
			verdict = "inconclusive"
		}
		if len(samples) < 6 || (len(ex.Failures) > 0 && len(samples) < 12) {
			samples = append(samples, sample{Harness: jr.Job.Harness, Case: jr.Job.Case, Paths: ex.Paths, Queries: jr.SolverQ, Asserts: ex.AssertsTotal, Verdict: verdict})
		}
		for k, f := range ex.Failures {
			id := fmt.Sprintf("j%d-f%d", i, k)
			cands = append(cands, cand{jr: jr, f: f, id: id})
			natJobs = append(natJobs, NativeJob{ID: id, Harness: jr.Job.Harness, Case: normCase(jr.Job.Case), Asg: f.Model})
		}
	}

	// native replay of every counterexample
	var nat map[string]NativeResult
	natLog := ""
	replayed, reproduced := 0, 0
	perJob := opt.CrossVal
	if perJob == 0 {
		perJob = 2
		if opt.Tier == "thorough" {
			perJob = 4
		}
	}
	tNat := time.Now()
	xvRuns, xvJobs := xvPrepare(results, opt, perJob)
	if len(natJobs)+len(xvJobs) > 0 && !opt.NoReplay {
		var err error
		nat, natLog, err = RunNative(w, opt, append(append([]NativeJob{}, natJobs...), xvJobs...))
		if err != nil {
			incon = append(incon, "native replay: "+err.Error()+"\n"+tail(natLog, 30))
		}
	}
	natDur := time.Since(tNat)
	tXv := time.Now()
	var xv xvOutcome
	if nat != nil {
		xv = xvEvaluate(w, results, xvRuns, nat, known)
		incon = append(incon, xv.incon...)
	}
	if opt.Verbose {
		fmt.Printf("TIMING symbolic=%.1fs native=%.1fs crossval-interp=%.1fs\n", tNat.Sub(t0).Seconds(), natDur.Seconds(), time.Since(tXv).Seconds())
	}
	violations := 0
	knownPrinted := map[string]bool{}
	var unconfirmed []string
	os.MkdirAll(filepath.Join(opt.VerifDir, "replays", plan.Property), 0o755)
	vn := 0
	seenViol := map[string]bool{}
	raceChecked := map[string]bool{}
	for _, cd := range cands {
		r, ok := nat[cd.id]
		if opt.NoReplay {
			ok = false
		}
		if ok {
			replayed++
		}
		conf := ok && Confirmed(cd.f, r)
		if !conf && ok && plan.RaceHarness != "" && !opt.NoReplay && cd.jr.Job.Harness == "gonnx.H_C17" {
			// a transient write leaves no trace in a sequential native run: confirm it as a data race
			ck := compact(cd.jr.Job.Case)
			res, seen := raceChecked[ck]
			if !seen && len(raceChecked) < 10 {
				res, _ = RunNativeRace(w, opt, []NativeJob{{ID: "race", Harness: plan.RaceHarness, Case: normCase(cd.jr.Job.Case), Asg: cd.f.Model}})
				raceChecked[ck] = res
			}
			if res {
				conf = true
				r.Notes = append(r.Notes, "confirmed by go test -race with 8 goroutines on this model: DATA RACE reported, or a goroutine's results differ from what its inputs give on a model of their own")
			}
		}
		if conf {
			reproduced++
		}
		if cd.f.Known != "" {
			if conf && !knownPrinted[cd.f.Known] {
				knownPrinted[cd.f.Known] = true
				fmt.Printf("KNOWN-FINDING: property=%s %s [region %s; witness %s %s]\n", plan.Property, knownWhat[cd.f.Known], cd.f.Known, cd.jr.Job.Harness, compact(cd.jr.Job.Case))
			}
			continue
		}
		if !conf {
			if !opt.NoReplay {
				unconfirmed = append(unconfirmed, fmt.Sprintf("%s label=%s site=%s detail=%s regions=%v native=%+v", cd.jr.Job.Key(), cd.f.Label, cd.f.Site, cd.f.Detail, cd.f.Regions, r))
			}
			continue
		}
		key := cd.jr.Job.Harness + "|" + cd.f.Label + "|" + strings.Join(cd.f.Regions, ",")
		violations++
		if seenViol[key] && vn >= 10 {
			continue
		}
		seenViol[key] = true
		vn++
		rf := ReplayFile{Property: plan.Property, Harness: cd.jr.Job.Harness, Case: normCase(cd.jr.Job.Case), Label: cd.f.Label, Site: cd.f.Site, Detail: cd.f.Detail, Regions: cd.f.Regions, Asg: cd.f.Model, Native: &r}
		p := filepath.Join(opt.VerifDir, "replays", plan.Property, fmt.Sprintf("%s-%d.json", opt.Tier, vn))
		b, _ := json.MarshalIndent(rf, "", " ")
		os.WriteFile(p, b, 0o644)
		fmt.Printf("VIOLATION property=%s replay=%s\n", plan.Property, p)
		fmt.Printf("  harness=%s case=%s label=%s regions=%v\n  site=%s\n  %s\n", cd.jr.Job.Harness, compact(cd.jr.Job.Case), cd.f.Label, cd.f.Regions, cd.f.Site, cd.f.Detail)
	}
	for _, xvv := range xv.violations {
		if xvv.known != "" {
			if !knownPrinted[xvv.known] {
				knownPrinted[xvv.known] = true
				fmt.Printf("KNOWN-FINDING: property=%s %s [region %s; witness %s %s (native run)]\n", plan.Property, knownWhat[xvv.known], xvv.known, xvv.job.Harness, compact(xvv.job.Case))
			}
			continue
		}
		key := xvv.job.Harness + "|" + xvv.label + "|xv"
		violations++
		if seenViol[key] && vn >= 10 {
			continue
		}
		seenViol[key] = true
		vn++
		nr := xvv.native
		rf := ReplayFile{Property: plan.Property, Harness: xvv.job.Harness, Case: normCase(xvv.job.Case), Label: xvv.label, Site: "native cross-validation run (concrete assignment)", Asg: xvv.asg, Native: &nr}
		p := filepath.Join(opt.VerifDir, "replays", plan.Property, fmt.Sprintf("%s-%d.json", opt.Tier, vn))
		b, _ := json.MarshalIndent(rf, "", " ")
		os.WriteFile(p, b, 0o644)
		fmt.Printf("VIOLATION property=%s replay=%s\n", plan.Property, p)
		fmt.Printf("  (native cross-validation run) harness=%s case=%s label=%s panic=%.200s\n", xvv.job.Harness, compact(xvv.job.Case), xvv.label, nr.Uncaught+nr.Panic)
	}
	if opt.NoReplay && len(cands) > 0 {
		type grp struct {
			n  int
			ex string
		}
		groups := map[string]*grp{}
		var order []string
		for _, cd := range cands {
			k := fmt.Sprintf("%s label=%s known=%q regions=%v", cd.jr.Job.Harness, cd.f.Label, cd.f.Known, cd.f.Regions)
			g, ok := groups[k]
			if !ok {
				g = &grp{ex: fmt.Sprintf("case=%s detail=%.200s model=%.300s", compact(cd.jr.Job.Case), cd.f.Detail, fmt.Sprint(cd.f.Model))}
				groups[k] = g
				order = append(order, k)
			}
			g.n++
		}
		for _, k := range order {
			fmt.Printf("CANDIDATE x%d %s\n    e.g. %s\n", groups[k].n, k, groups[k].ex)
		}
	}
	for _, u := range unconfirmed {
		incon = append(incon, "UNCONFIRMED counterexample (did not reproduce natively): "+u)
	}

	wall := time.Since(t0).Seconds()
	// evidence
	ev := map[string]interface{}{
		"property_id": plan.Property,
		"tier":        opt.Tier,
		"seed":        opt.Seed,
		"level":       levelOf(plan),
		"wall_s":      wall,
		"violations":  violations,
		"assumptions": append(append([]string{
			"trusted base: the engine's go/ssa interpreter and its term builders for gorgonia's element arithmetic (cross-validated on every case against native runs of the real build), the SMT solvers, gorgonia's structural operations executed natively on term-id tensors",
			"bounded claim: holds for the structural cases and value domains listed under coverage.bounds; coverage.outside_the_claim lists what is not decided",
		}, sortedKeys(assumptions)...), plan.Assumptions...),
		"coverage": map[string]interface{}{
			"states":                         paths,
			"transitions":                    max1(queries),
			"traces_validated_against_impl":  reproduced + xv.agree,
			"samples":                        samples,
			"evaluations":                    len(jobs),
			"distinct_nontrivial":            nontrivial,
			"rule":                           "one evaluation = one structural case explored symbolically (all feasible paths); non-trivial = the case has at least one solver variable and reached at least one assertion (assertions are decided by the solver, or by term identity when both sides are the same symbolic term); states = feasible paths; transitions = solver queries",
			"exhaustive":                     plan.Exhaustive && len(incon) == 0,
			"technique":                      "symbolic execution of gonnx's go/ssa form (regenerated from /repo on this run) + SMT (z3), gorgonia executed natively on shadow tensors",
			"structural_cases":               len(jobs),
			"paths":                          paths,
			"forks":                          forks,
			"interpreted_instructions":       steps,
			"assertions_reached":             asserts,
			"assertions_by_constant_folding": triv,
			"assertions_by_solver":           assertsSMT,
			"assertion_labels_reached":       reached,
			"solver": map[string]interface{}{"backend": solverName(opt), "queries": queries, "sat": sat, "unsat": unsat, "unknown": unk, "time_s": solverT.Seconds(), "per_query_timeout_ms": opt.TimeoutMs,
				"escalated_one_shot_runs": oneShotQ, "escalated_decided": oneShotD, "escalated_time_s": oneShotT.Seconds(), "escalation_portfolio": "fresh z3 4.8.12, z3 5.1 (z3-new), cvc5 1.0 on the complete script", "escalation_timeout_ms": opt.OneShotMs},
			"native_replays":         map[string]int{"run": replayed, "reproduced": reproduced},
			"cross_validation":       map[string]int{"native_runs_compared_with_concrete_interpretation": xv.runs, "agree": xv.agree},
			"known_findings_printed": sortedKeysB(knownPrinted),
			"inconclusive":           incon,
			"best_effort_undecided":  undecided,
			"bounds":                 plan.Bounds,
			"outside_the_claim":      plan.Outside,
			"functions_encoded":      w.FunctionsEncoded(funcs),
			"stubs_and_native_calls": stubs,
			"explanation":            plan.Explanation,
		},
	}
	os.MkdirAll(filepath.Join(opt.VerifDir, "evidence"), 0o755)
	eb, _ := json.MarshalIndent(ev, "", " ")
	os.WriteFile(filepath.Join(opt.VerifDir, "evidence", plan.Property+".json"), eb, 0o644)

	fmt.Printf("%s %s: cases=%d paths=%d queries=%d (sat %d unsat %d unknown %d) solver=%.1fs assertions=%d (solver %d) counterexamples=%d replayed=%d reproduced=%d violations=%d known=%d inconclusive=%d wall=%.1fs\n",
		plan.Property, opt.Tier, len(jobs), paths, queries, sat, unsat, unk, solverT.Seconds(), asserts, assertsSMT, len(cands), replayed, reproduced, violations, len(knownPrinted), len(incon), wall)
	for _, u := range undecided {
		fmt.Printf("UNDECIDED (best-effort case, not covered by this run): %.300s\n", u)
	}
	if violations > 0 {
		return 1
	}
	if len(incon) > 0 {
		groups := map[string]int{}
		first := map[string]string{}
		var order []string
		for _, s := range incon {
			k := s
			if j := strings.Index(s, "}: "); j >= 0 && j < 300 {
				k = s[j+3:]
			}
			if len(k) > 160 {
				k = k[:160]
			}
			if groups[k] == 0 {
				order = append(order, k)
				first[k] = s
			}
			groups[k]++
		}
		for i, k := range order {
			if i >= 12 {
				fmt.Printf("  ... %d more kinds\n", len(order)-i)
				break
			}
			fmt.Printf("INCONCLUSIVE x%d: %.900s\n", groups[k], first[k])
		}
		return 2
	}
	return 0
}

func solverName(opt Options) string {
	if opt.Solver == "" {
		return "z3"
	}
	return opt.Solver
}

func max1(n int) int {
	if n < 1 {
		return 1
	}
	return n
}

func tail(s string, n int) string {
	l := strings.Split(s, "\n")
	if len(l) > n {
		l = l[len(l)-n:]
	}
	return strings.Join(l, "\n")
}

func compact(c map[string]interface{}) string {
	b, _ := json.Marshal(c)
	return string(b)
}

func sortedKeys(m map[string]bool) []string {
	var out []string
	for k := range m {
		out = append(out, k)
	}
	sort.Strings(out)
	return out
}
func sortedKeysB(m map[string]bool) []string { return sortedKeys(m) }

func levelOf(p *Plan) string {
	if p.Level != "" {
		return p.Level
	}
	return "model_checking"
}
