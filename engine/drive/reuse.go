package drive

// reuseCase: one operator instance applied to input set a, then b, then a again (harness opset13.H_reuse).
type reuseCase struct {
	op, attrs string
	a, b      []string
}

var reuseTable = map[string][]reuseCase{
	"C03": {
		{"Add", "", []string{"2,2", "2"}, []string{"3", "1"}},
		{"Mul", "", []string{"2", "2"}, []string{"2:f64", "2:f64"}},
		{"Less", "", []string{"2:f64", "2:f64"}, []string{"2", "1"}},
		{"Sub", "", []string{"2", "2,2"}, []string{"2,1,2", "2"}},
		{"Mul", "", []string{"2,2", "2,2"}, []string{"", "2"}},
		{"Div", "", []string{"2,2", "2"}, []string{"2", "2"}},
		{"Greater", "", []string{"2,2", "2"}, []string{"3", "1"}},
		{"Equal", "", []string{"2", "2,1"}, []string{"2,2", "2,2"}},
		{"And", "", []string{"2,2:bool", "2:bool"}, []string{"2:bool", "2,1:bool"}},
		{"Xor", "", []string{"2:bool", "2:bool"}, []string{"2,2:bool", "2:bool"}},
	},
	"C04": {
		{"MatMul", "", []string{"2,3", "3,2"}, []string{"2,2,3", "3"}},
		{"MatMul", "", []string{"2,2", "2,2"}, []string{"2,2:f64", "2,2:f64"}},
		{"Gemm", "", []string{"2,2:f64", "2,2:f64", "2:f64"}, []string{"2,2", "2,2", "2"}},
		{"MatMul", "", []string{"3", "3"}, []string{"2,3", "2,3,2"}},
		{"Gemm", "transB=1", []string{"2,3", "2,3", "2"}, []string{"1,3", "2,3", "1,2"}},
		{"Gemm", "alpha=2;beta=3", []string{"2,2", "2,2", "2,2"}, []string{"1,2", "2,2", "2"}},
		{"Gemm", "transA=1", []string{"2,2", "2,3"}, []string{"2,1", "2,2", "1,2"}},
		{"LinearRegressor", "coefficients=1,2,3,4;intercepts=1,2;targets=2", []string{"2,2"}, []string{"1,2"}},
		{"Scaler", "offset=1,2;scale=3,4", []string{"2,2"}, []string{"3,2"}},
	},
	"C05": {
		{"Conv", "", []string{"1,1,3,3", "1,1,2,2"}, []string{"1,1,4", "1,1,2"}},
		{"Conv", "dilations=2", []string{"1,1,4", "1,1,2"}, []string{"2,1,5", "1,1,3"}},
		{"Conv", "dilations=2,1;auto_pad=SAME_UPPER", []string{"1,1,3,3", "1,1,2,2"}, []string{"1,2,4,3", "2,2,2,2", "2"}},
		{"Conv", "strides=2;pads=1,0", []string{"1,1,4", "1,1,2", "1"}, []string{"2,2,3", "1,2,2"}},
	},
	"C06": {
		{"RNN", "hidden_size=2", []string{"2,1,2", "1,2,2", "1,2,2", "1,4", "-", "1,1,2"}, []string{"1,2,2", "1,2,2", "1,2,2", "-", "-", "1,2,2"}},
		{"GRU", "hidden_size=2;linear_before_reset=1", []string{"2,1,2", "1,6,2", "1,6,2", "1,12", "-", "1,1,2"}, []string{"1,2,2", "1,6,2", "1,6,2"}},
		{"LSTM", "hidden_size=2", []string{"2,1,2", "1,8,2", "1,8,2", "1,16", "-", "1,1,2", "1,1,2", "1,6"}, []string{"1,2,2", "1,8,2", "1,8,2", "-", "-", "-", "1,2,2"}},
	},
	"C07": {
		{"Reshape", "", []string{"2,3", "2:i64=3,-1"}, []string{"2,2,2", "2:i64=0,-1"}},
		{"Flatten", "axis=-1", []string{"2,3"}, []string{"2,3,2"}},
		{"Squeeze", "", []string{"2,1", "1:i64=-1"}, []string{"1,2,1", "1:i64=-1"}},
		{"Squeeze", "", []string{"1,2,1"}, []string{"2,1"}},
		{"Unsqueeze", "", []string{"2", "1:i64=-1"}, []string{"2,2", "1:i64=-1"}},
		{"Shape", "", []string{"2,3"}, []string{"2,1,2"}},
	},
	"C08": {
		{"Transpose", "perm=", []string{"2,3"}, []string{"2,3,2"}},
		{"Transpose", "perm=1,0", []string{"2,3"}, []string{"3,2"}},
		{"Concat", "axis=-1", []string{"2,2", "2,2"}, []string{"2,2,2", "2,2,2"}},
		{"Concat", "axis=-3", []string{"2,2", "2,2"}, []string{"2,2", "2,2"}},
		{"Concat", "axis=0", []string{"2,2", "1,2", "2,2"}, []string{"2,2", "1,2"}},
		{"Slice", "", []string{"3,3", "1:i64=1", "1:i64=3", "1:i64=-1"}, []string{"2,3,3", "1:i64=1", "1:i64=3", "1:i64=-1"}},
		{"Gather", "axis=-1", []string{"2,3", "2:i64=0,-1"}, []string{"2,2,3", "2:i64=0,-1"}},
		{"Expand", "", []string{"2,1", "2:i64=2,3"}, []string{"1", "3:i64=2,1,2"}},
	},
	"C09": {
		{"ArgMax", "axis=-1;keepdims=1", []string{"2,3"}, []string{"2,2,3"}},
		{"ArgMax", "axis=-2;keepdims=0", []string{"2,3"}, []string{"2,3,2"}},
		{"ReduceMax", "axes=-1;keepdims=0", []string{"2,3"}, []string{"2,3,2"}},
		{"ReduceMin", "keepdims=1", []string{"2,2"}, []string{"2,2,2"}},
		{"Softmax", "axis=-1", []string{"1,3"}, []string{"1,1,3"}},
		{"LogSoftmax", "axis=-2", []string{"2,2"}, []string{"2,2,1"}},
	},
	"C10": {
		// the other float type on the same instance
		{"Cosh", "", []string{"2"}, []string{"2:f64"}}, {"Sinh", "", []string{"2:f64"}, []string{"2"}}, {"Sin", "", []string{"2"}, []string{"2:f64"}},
		{"Cos", "", []string{"2:f64"}, []string{"2"}}, {"Tan", "", []string{"2"}, []string{"2:f64"}}, {"Asin", "", []string{"2"}, []string{"2:f64"}},
		{"Acos", "", []string{"2:f64"}, []string{"2"}}, {"Atan", "", []string{"2"}, []string{"2:f64"}}, {"Asinh", "", []string{"2:f64"}, []string{"2"}},
		{"Acosh", "", []string{"2"}, []string{"2:f64"}}, {"Atanh", "", []string{"2"}, []string{"2:f64"}}, {"Tanh", "", []string{"2"}, []string{"2:f64"}},
		{"Sigmoid", "", []string{"2:f64"}, []string{"2"}}, {"Relu", "", []string{"2"}, []string{"2:f64"}}, {"Abs", "", []string{"2:f64"}, []string{"2"}},
		{"PRelu", "", []string{"2", "2"}, []string{"2:f64", "2:f64"}},
		{"Relu", "", []string{"2,2"}, []string{"3"}},
		{"PRelu", "", []string{"2,2", "2"}, []string{"3", "1"}},
		{"Sigmoid", "", []string{"2"}, []string{"2,2"}},
		{"Tanh", "", []string{"2,2"}, []string{""}},
		{"Abs", "", []string{""}, []string{"2,1"}},
		{"Not", "", []string{"2,2:bool"}, []string{"2:bool"}},
	},
	"C11": {
		{"ConstantOfShape", "", []string{"1:i64=2"}, []string{"2:i64=2,3"}},
		{"Constant", "value_float=3", nil, nil},
		{"Cast", "to=11", []string{"2"}, []string{"2,2"}},
	},
	"C15": {
		{"Concat", "axis=0", []string{"2,2", "1,2", "2,2"}, []string{"2,2", "1,2"}},
		{"Concat", "axis=1", []string{"2,1"}, []string{"2,1", "2,2", "2,1", "2,3"}},
		{"PRelu", "", []string{"2,2", "2"}, []string{"2,2", "2"}},
	},
}

// reuseJobs returns the operator-instance-memory jobs of one property.
func reuseJobs(prop string) []Job {
	var jobs []Job
	for _, c := range reuseTable[prop] {
		a, b := c.a, c.b
		if a == nil {
			a = []string{}
		}
		if b == nil {
			b = []string{}
		}
		jobs = append(jobs, Job{Harness: "opset13.H_reuse", Case: map[string]interface{}{"prop": prop, "op": c.op, "attrs": c.attrs, "a": a, "b": b}})
	}
	return jobs
}

const reuseBound = "operator instances have no memory: one initialised instance applied to input set A, then B (another rank / geometry), then A again, and twice to the same tensor objects; every result compared with a fresh instance's (errors included), all float/bool elements symbolic (exact real arithmetic)"

// operators with optional attributes: some of their jobs are repeated with the attribute list re-spelled
var respellOps = map[string]bool{"ArgMax": true, "ReduceMax": true, "ReduceMin": true, "Gemm": true, "Conv": true, "GRU": true, "LSTM": true,
	"Flatten": true, "Softmax": true, "LogSoftmax": true, "Gather": true}

// respellJobs: for each such operator, the first few jobs of the plan are repeated with "attr_order" set.
func respellJobs(p *Plan) []Job {
	var out []Job
	count := map[string]int{}
	for _, j := range p.Jobs {
		if len(j.Harness) < 10 || j.Harness[:10] != "opset13.H_" || j.Harness == "opset13.H_reuse" {
			continue
		}
		op, _ := j.Case["op"].(string)
		switch j.Harness {
		case "opset13.H_C05":
			op = "Conv"
		case "opset13.H_C04_gemm":
			op = "Gemm"
		case "opset13.H_C09_argmax":
			op = "ArgMax"
		}
		if !respellOps[op] || count[op] >= 6 {
			continue
		}
		count[op]++
		for _, mode := range []string{"reversed", "defaults-first"} {
			c := map[string]interface{}{}
			for k, x := range j.Case {
				c[k] = x
			}
			c["attr_order"] = mode
			out = append(out, Job{Harness: j.Harness, Case: c, Ring: j.Ring})
		}
	}
	return out
}

// AddSharedJobs appends the job families shared by several properties to a plan.
func AddSharedJobs(p *Plan) {
	if js := respellJobs(p); len(js) > 0 {
		p.Jobs = append(p.Jobs, js...)
		p.Bounds = append(p.Bounds, "attribute spelling: for operators with optional attributes, the first six cases of each are repeated with the attribute list reversed and with the omitted attributes spelled out (default values) in front")
	}
	if js := reuseJobs(p.Property); len(js) > 0 {
		p.Jobs = append(p.Jobs, js...)
		p.Bounds = append(p.Bounds, reuseBound)
	}
}
