package drive

import "strings"

// reuseCase: one operator instance applied to input set a, then b, then a again (harness opset13.H_reuse).
type reuseCase struct {
	op, attrs string
	a, b      []string
}

// twoInstCase: a second instance (op2, attrs2) is initialised before the first (op, attrs) is applied to a.
type twoInstCase struct {
	op, attrs, op2, attrs2 string
	a                      []string
}

var twoInstTable = map[string][]twoInstCase{
	"C09": {
		{"ReduceMax", "axes=0", "ReduceMin", "axes=1", []string{"2,3"}},
		{"ReduceMin", "axes=1;keepdims=0", "ReduceMin", "axes=0;keepdims=1", []string{"2,3"}},
		{"ReduceMax", "axes=0,1", "ReduceMax", "keepdims=0", []string{"2,3"}},
		{"ArgMax", "axis=1;keepdims=0", "ArgMax", "axis=0", []string{"2,3"}},
		{"Softmax", "axis=0", "Softmax", "", []string{"2,2"}},
		{"LogSoftmax", "axis=0", "Softmax", "axis=1", []string{"2,2"}},
	},
	"C07": {
		{"Flatten", "axis=0", "Flatten", "", []string{"2,1,2"}},
		{"Flatten", "", "Flatten", "axis=2", []string{"2,1,2"}},
	},
	"C04": {
		{"Gemm", "alpha=2;transB=1", "Gemm", "", []string{"2,2", "2,2"}},
		{"Scaler", "offset=1,2;scale=3,4", "Scaler", "offset=5,6;scale=7,8", []string{"1,2"}},
		{"LinearRegressor", "coefficients=1,2;targets=1", "LinearRegressor", "coefficients=3,4;intercepts=5;targets=1", []string{"1,2"}},
	},
	"C06": {
		{"GRU", "hidden_size=2;activations=tanh,sigmoid", "GRU", "hidden_size=2", []string{"2,1,2", "1,6,2", "1,6,2"}},
		{"RNN", "hidden_size=2", "LSTM", "hidden_size=2;activations=relu,relu,relu", []string{"2,1,2", "1,2,2", "1,2,2"}},
	},
	"C05": {
		{"Conv", "dilations=2;strides=2", "Conv", "", []string{"1,1,5", "1,1,2"}},
	},
	"C08": {
		{"Concat", "axis=0", "Concat", "axis=1", []string{"2,2", "2,2"}},
		{"Transpose", "perm=1,0", "Transpose", "perm=", []string{"2,3"}},
		{"Gather", "axis=1", "Gather", "", []string{"2,3", "1:i64=-1"}},
	},
	"C15": {
		{"Concat", "axis=0", "Add", "", []string{"2,2", "2,2"}},
	},
}

var reuseTable = map[string][]reuseCase{
	"C03": {
		{"Add", "", []string{"2,2", "2"}, []string{"3", "1"}},
		{"Mul", "", []string{"2", "2"}, []string{"2:f64", "2:f64"}},
		{"Less", "", []string{"2:f64", "2:f64"}, []string{"2", "1"}},
		{"Sub", "", []string{"2", "2,2"}, []string{"2,1,2", "2"}},
		{"Mul", "", []string{"2,2", "2,2"}, []string{"", "2"}},
		{"Div", "", []string{"2,2", "2"}, []string{"2", "2"}},
		{"Greater", "", []string{"2,2", "2"}, []string{"3", "1"}},
		{"Equal", "", []string{"2", "2,1"}, []string{"2,2", "2,2"}},
		{"And", "", []string{"2,2:bool", "2:bool"}, []string{"2:bool", "2,1:bool"}},
		{"Xor", "", []string{"2:bool", "2:bool"}, []string{"2,2:bool", "2:bool"}},
		// a matrix against a stack of matrices (the lower-rank operand is the one that gets leading axes added)
		{"Add", "", []string{"2,3", "2,2,3"}, []string{"2,2,3", "2,3"}},
		{"Sub", "", []string{"2,1,3", "2,3"}, []string{"3,2", "2,3,2"}},
		{"Or", "", []string{"2,3:bool", "2,2,3:bool"}, []string{"2,2,3:bool", "2,3:bool"}},
		{"LessOrEqual", "", []string{"3,2", "2,3,2"}, []string{"2,3,2", "3,2"}},
	},
	"C04": {
		{"MatMul", "", []string{"2,3", "3,2"}, []string{"2,2,3", "3"}},
		{"MatMul", "", []string{"2,2", "2,2"}, []string{"2,2:f64", "2,2:f64"}},
		{"Gemm", "", []string{"2,2:f64", "2,2:f64", "2:f64"}, []string{"2,2", "2,2", "2"}},
		{"MatMul", "", []string{"3", "3"}, []string{"2,3", "2,3,2"}},
		{"Gemm", "transB=1", []string{"2,3", "2,3", "2"}, []string{"1,3", "2,3", "1,2"}},
		{"Gemm", "alpha=2;beta=3", []string{"2,2", "2,2", "2,2"}, []string{"1,2", "2,2", "2"}},
		{"Gemm", "transA=1", []string{"2,2", "2,3"}, []string{"2,1", "2,2", "1,2"}},
		{"LinearRegressor", "coefficients=1,2,3,4;intercepts=1,2;targets=2", []string{"2,2"}, []string{"1,2"}},
		{"Scaler", "offset=1,2;scale=3,4", []string{"2,2"}, []string{"3,2"}},
	},
	"C05": {
		{"Conv", "", []string{"1,1,3,3", "1,1,2,2"}, []string{"1,1,4", "1,1,2"}},
		{"Conv", "dilations=2", []string{"1,1,4", "1,1,2"}, []string{"2,1,5", "1,1,3"}},
		{"Conv", "dilations=2,1;auto_pad=SAME_UPPER", []string{"1,1,3,3", "1,1,2,2"}, []string{"1,2,4,3", "2,2,2,2", "2"}},
		{"Conv", "strides=2;pads=1,0", []string{"1,1,4", "1,1,2", "1"}, []string{"2,2,3", "1,2,2"}},
		// a REFUSED call (channel counts / bias length that do not fit) between two valid ones, with auto_pad and a
		// stride: what the refused call derived from its operands must not stay behind
		{"Conv", "auto_pad=SAME_UPPER;strides=2,2", []string{"1,1,4,4", "1,1,2,2"}, []string{"1,2,5,5", "1,1,2,2"}},
		{"Conv", "auto_pad=SAME_LOWER;strides=2", []string{"1,1,4", "1,1,3"}, []string{"1,1,5", "1,1,3", "3"}},
		{"Conv", "auto_pad=SAME_UPPER;strides=2,2", []string{"1,1,5,5", "1,1,2,2"}, []string{"1,1,4,4", "1,2,2,2"}},
		{"Conv", "auto_pad=SAME_LOWER;strides=2", []string{"1,1,5", "1,1,3"}, []string{"1,1,4", "1,2,3"}},
		{"Conv", "auto_pad=SAME_UPPER;strides=3,2", []string{"1,2,7,5", "2,2,2,2", "2"}, []string{"1,3,6,4", "2,2,2,2", "2"}},
	},
	"C06": {
		{"RNN", "hidden_size=2", []string{"2,1,2", "1,2,2", "1,2,2", "1,4", "-", "1,1,2"}, []string{"1,2,2", "1,2,2", "1,2,2", "-", "-", "1,2,2"}},
		{"GRU", "hidden_size=2;linear_before_reset=1", []string{"2,1,2", "1,6,2", "1,6,2", "1,12", "-", "1,1,2"}, []string{"1,2,2", "1,6,2", "1,6,2"}},
		{"LSTM", "hidden_size=2", []string{"2,1,2", "1,8,2", "1,8,2", "1,16", "-", "1,1,2", "1,1,2", "1,6"}, []string{"1,2,2", "1,8,2", "1,8,2", "-", "-", "-", "1,2,2"}},
		// the second input set with biases / an initial state as its LAST operand (exchanged and left out in turn)
		{"RNN", "hidden_size=2", []string{"2,1,2", "1,2,2", "1,2,2"}, []string{"1,2,2", "1,2,2", "1,2,2", "1,4"}},
		{"GRU", "hidden_size=2", []string{"2,1,2", "1,6,2", "1,6,2"}, []string{"1,2,2", "1,6,2", "1,6,2", "1,12"}},
		{"LSTM", "hidden_size=2", []string{"2,1,2", "1,8,2", "1,8,2"}, []string{"1,1,2", "1,8,2", "1,8,2", "1,16", "-", "1,1,2"}},
		// two time steps of two samples (the layout jobs cut X out of a longer sequence / a wider batch)
		{"RNN", "hidden_size=2", []string{"2,2,2", "1,2,2", "1,2,2"}, []string{"3,2,2", "1,2,2", "1,2,2"}},
		{"GRU", "hidden_size=2", []string{"2,2,2", "1,6,2", "1,6,2"}, []string{"3,2,2", "1,6,2", "1,6,2"}},
		{"LSTM", "hidden_size=2", []string{"2,2,2", "1,8,2", "1,8,2"}, []string{"3,2,2", "1,8,2", "1,8,2"}},
	},
	"C07": {
		{"Reshape", "", []string{"2,3", "2:i64=3,-1"}, []string{"2,2,2", "2:i64=0,-1"}},
		{"Flatten", "axis=-1", []string{"2,3"}, []string{"2,3,2"}},
		{"Squeeze", "", []string{"2,1", "1:i64=-1"}, []string{"1,2,1", "1:i64=-1"}},
		{"Squeeze", "", []string{"1,2,1"}, []string{"2,1"}},
		{"Unsqueeze", "", []string{"2", "1:i64=-1"}, []string{"2,2", "1:i64=-1"}},
		{"Shape", "", []string{"2,3"}, []string{"2,1,2"}},
	},
	"C08": {
		{"Transpose", "perm=", []string{"2,3"}, []string{"2,3,2"}},
		{"Transpose", "perm=1,0", []string{"2,3"}, []string{"3,2"}},
		{"Concat", "axis=-1", []string{"2,2", "2,2"}, []string{"2,2,2", "2,2,2"}},
		{"Concat", "axis=-3", []string{"2,2", "2,2"}, []string{"2,2", "2,2"}},
		{"Concat", "axis=0", []string{"2,2", "1,2", "2,2"}, []string{"2,2", "1,2"}},
		{"Slice", "", []string{"3,3", "1:i64=1", "1:i64=3", "1:i64=-1"}, []string{"2,3,3", "1:i64=1", "1:i64=3", "1:i64=-1"}},
		{"Gather", "axis=-1", []string{"2,3", "2:i64=0,-1"}, []string{"2,2,3", "2:i64=0,-1"}},
		{"Expand", "", []string{"2,1", "2:i64=2,3"}, []string{"1", "3:i64=2,1,2"}},
	},
	"C09": {
		{"ArgMax", "axis=-1;keepdims=1", []string{"2,3"}, []string{"2,2,3"}},
		{"ArgMax", "axis=-2;keepdims=0", []string{"2,3"}, []string{"2,3,2"}},
		{"ReduceMax", "axes=-1;keepdims=0", []string{"2,3"}, []string{"2,3,2"}},
		{"ReduceMin", "keepdims=1", []string{"2,2"}, []string{"2,2,2"}},
		{"Softmax", "axis=-1", []string{"1,3"}, []string{"1,1,3"}},
		{"LogSoftmax", "axis=-2", []string{"2,2"}, []string{"2,2,1"}},
		// vectors (the layout jobs hand them over as a column of a matrix)
		{"ArgMax", "axis=0;keepdims=1", []string{"3"}, []string{"4"}},
		{"ArgMax", "axis=-1;keepdims=1", []string{"3"}, []string{"2,3"}},
		{"ReduceMax", "axes=0;keepdims=1", []string{"3"}, []string{"4"}},
		{"ReduceMin", "axes=-1;keepdims=1", []string{"3"}, []string{"2"}},
		{"Softmax", "axis=0", []string{"3"}, []string{"2"}},
	},
	"C10": {
		// the other float type on the same instance
		{"Cosh", "", []string{"2"}, []string{"2:f64"}}, {"Sinh", "", []string{"2:f64"}, []string{"2"}}, {"Sin", "", []string{"2"}, []string{"2:f64"}},
		{"Cos", "", []string{"2:f64"}, []string{"2"}}, {"Tan", "", []string{"2"}, []string{"2:f64"}}, {"Asin", "", []string{"2"}, []string{"2:f64"}},
		{"Acos", "", []string{"2:f64"}, []string{"2"}}, {"Atan", "", []string{"2"}, []string{"2:f64"}}, {"Asinh", "", []string{"2:f64"}, []string{"2"}},
		{"Acosh", "", []string{"2"}, []string{"2:f64"}}, {"Atanh", "", []string{"2"}, []string{"2:f64"}}, {"Tanh", "", []string{"2"}, []string{"2:f64"}},
		{"Sigmoid", "", []string{"2:f64"}, []string{"2"}}, {"Relu", "", []string{"2"}, []string{"2:f64"}}, {"Abs", "", []string{"2:f64"}, []string{"2"}},
		{"PRelu", "", []string{"2", "2"}, []string{"2:f64", "2:f64"}},
		{"Relu", "", []string{"2,2"}, []string{"3"}},
		{"PRelu", "", []string{"2,2", "2"}, []string{"3", "1"}},
		{"Sigmoid", "", []string{"2"}, []string{"2,2"}},
		{"Tanh", "", []string{"2,2"}, []string{""}},
		{"Abs", "", []string{""}, []string{"2,1"}},
		{"Not", "", []string{"2,2:bool"}, []string{"2:bool"}},
	},
	"C11": {
		{"ConstantOfShape", "", []string{"1:i64=2"}, []string{"2:i64=2,3"}},
		{"Constant", "value_float=3", nil, nil},
		{"Cast", "to=11", []string{"2"}, []string{"2,2"}},
	},
	"C15": {
		{"Concat", "axis=0", []string{"2,2", "1,2", "2,2"}, []string{"2,2", "1,2"}},
		{"Concat", "axis=1", []string{"2,1"}, []string{"2,1", "2,2", "2,1", "2,3"}},
		{"PRelu", "", []string{"2,2", "2"}, []string{"2,2", "2"}},
	},
}

// reuseJobs returns the operator-instance-memory jobs of one property.
func reuseJobs(prop string) []Job {
	var jobs []Job
	for _, c := range reuseTable[prop] {
		a, b := c.a, c.b
		if a == nil {
			a = []string{}
		}
		if b == nil {
			b = []string{}
		}
		jobs = append(jobs, Job{Harness: "opset13.H_reuse", Case: map[string]interface{}{"prop": prop, "op": c.op, "attrs": c.attrs, "a": a, "b": b}})
	}
	for _, c := range twoInstTable[prop] {
		jobs = append(jobs, Job{Harness: "opset13.H_reuse", Case: map[string]interface{}{"prop": prop, "op": c.op, "attrs": c.attrs, "a": c.a, "b": c.a, "op2": c.op2, "attrs2": c.attrs2}})
	}
	return jobs
}

const reuseBound = "operator instances have no memory and do not share state (two instances initialised before either is applied): one initialised instance applied to input set A, then B (another rank / geometry), then A again, and twice to the same tensor objects; every result compared with a fresh instance's (errors included), all float/bool elements symbolic (exact real arithmetic)"

// operators with optional attributes: some of their jobs are repeated with the attribute list re-spelled
var respellOps = map[string]bool{"ArgMax": true, "ReduceMax": true, "ReduceMin": true, "Gemm": true, "Conv": true, "GRU": true, "LSTM": true,
	"Flatten": true, "Softmax": true, "LogSoftmax": true, "Gather": true}

// respellJobs: for each such operator, the first few jobs of the plan are repeated with "attr_order" set.
func respellJobs(p *Plan) []Job {
	var out []Job
	count := map[string]int{}
	for _, j := range p.Jobs {
		if len(j.Harness) < 10 || j.Harness[:10] != "opset13.H_" || j.Harness == "opset13.H_reuse" || j.Harness == "opset13.H_C09_softmax" {
			continue // (the IEEE softmax proofs take minutes each: their ring-arithmetic twins are re-spelled instead)
		}
		op, _ := j.Case["op"].(string)
		switch j.Harness {
		case "opset13.H_C05":
			op = "Conv"
		case "opset13.H_C04_gemm":
			op = "Gemm"
		case "opset13.H_C09_argmax":
			op = "ArgMax"
		}
		if !respellOps[op] || count[op] >= 6 {
			continue
		}
		count[op]++
		for _, mode := range []string{"reversed", "defaults-first"} {
			c := map[string]interface{}{}
			for k, x := range j.Case {
				c[k] = x
			}
			c["attr_order"] = mode
			out = append(out, Job{Harness: j.Harness, Case: c, Ring: j.Ring})
		}
	}
	return out
}

// twinJobs: two look-alike Models in one process (harness gonnx.H_twins), per property.
var twinTable = map[string][]map[string]interface{}{
	"C01": {{"kind": "constant", "enc": "typed"}, {"kind": "constant", "enc": "floats"}, {"kind": "initializer", "enc": "typed"}},
	"C11": {{"kind": "constant", "enc": "typed"}, {"kind": "constant", "enc": "floats"}},
	"C12": {{"kind": "initializer", "enc": "typed"}},
	"C04": {{"kind": "linreg"},
		{"kind": "attribute", "op": "Gemm", "attrsA": "alpha=2;transB=1", "attrsB": "", "shape": []int{2, 2}, "inits": []string{"w:2,2"}},
		{"kind": "attribute", "op": "Scaler", "attrsA": "offset=1,2;scale=3,4", "attrsB": "offset=5,6;scale=7,8", "shape": []int{1, 2}, "inits": []string{}}},
	"C13": {{"kind": "signature"}},
	// a request one operator refuses (one-directional broadcasting), then another operator on the same operands
	"C03": {{"kind": "attribute", "op": "PRelu", "opB": "Sub", "attrsA": "", "attrsB": "", "shape": []int{1, 2}, "inits": []string{"w:2,2"}, "order": "ABAB", "refusedA": true},
		{"kind": "attribute", "op": "PRelu", "opB": "Less", "attrsA": "", "attrsB": "", "shape": []int{2, 1}, "inits": []string{"w:1,2"}, "order": "ABAB", "refusedA": true},
		{"kind": "attribute", "op": "Add", "opB": "PRelu", "attrsA": "", "attrsB": "", "shape": []int{2, 2}, "inits": []string{"w:2"}}},
	"C14": {{"kind": "attribute", "op": "PRelu", "opB": "Mul", "attrsA": "", "attrsB": "", "shape": []int{1, 2}, "inits": []string{"w:2,2"}, "order": "ABAB", "refusedA": true}},
	"C07": {{"kind": "attribute", "op": "Flatten", "attrsA": "axis=0", "attrsB": "", "shape": []int{2, 1, 2}, "inits": []string{}},
		{"kind": "attribute", "op": "Flatten", "attrsA": "axis=2", "attrsB": "axis=-1", "shape": []int{2, 1, 2}, "inits": []string{}}},
	"C09": {{"kind": "attribute", "op": "ReduceMax", "attrsA": "axes=0;keepdims=0", "attrsB": "", "shape": []int{2, 3}, "inits": []string{}},
		{"kind": "attribute", "op": "ArgMax", "attrsA": "axis=1;keepdims=0", "attrsB": "", "shape": []int{2, 3}, "inits": []string{}},
		{"kind": "attribute", "op": "Softmax", "attrsA": "axis=0", "attrsB": "", "shape": []int{2, 1}, "inits": []string{}}},
	"C06": {{"kind": "attribute", "op": "GRU", "attrsA": "hidden_size=2;activations=tanh,sigmoid", "attrsB": "hidden_size=2", "shape": []int{2, 1, 2}, "inits": []string{"W:1,6,2", "R:1,6,2"}},
		{"kind": "attribute", "op": "RNN", "attrsA": "hidden_size=2;activations=relu", "attrsB": "hidden_size=2", "shape": []int{2, 1, 2}, "inits": []string{"W:1,2,2", "R:1,2,2"}},
		{"kind": "attribute", "op": "LSTM", "attrsA": "hidden_size=2;activations=tanh,sigmoid,relu", "attrsB": "hidden_size=2", "shape": []int{2, 1, 2}, "inits": []string{"W:1,8,2", "R:1,8,2"}}},
	"C02": {{"kind": "attribute", "op": "RNN", "attrsA": "hidden_size=2;activations=relu", "attrsB": "hidden_size=2", "shape": []int{2, 1, 2}, "inits": []string{"W:1,2,2", "R:1,2,2"}},
		{"kind": "constant", "enc": "typed"}},
	"C05": {{"kind": "attribute", "op": "Conv", "attrsA": "dilations=2;strides=2", "attrsB": "", "shape": []int{1, 1, 4}, "inits": []string{"k:1,1,2"}}},
	"C08": {{"kind": "attribute", "op": "Concat", "attrsA": "axis=0", "attrsB": "axis=-1", "shape": []int{2, 2}, "inits": []string{"w:2,2"}},
		{"kind": "attribute", "op": "Transpose", "attrsA": "perm=1,0,2", "attrsB": "perm=", "shape": []int{2, 1, 2}, "inits": []string{}}},
	"C17": {{"kind": "constant", "enc": "typed"}, {"kind": "linreg"}},
	"C18": {{"kind": "signature"}, {"kind": "constant", "enc": "typed"}},
}

func twinJobs(prop string) []Job {
	var jobs []Job
	for _, c := range twinTable[prop] {
		cm := map[string]interface{}{"prop": prop, "evaluates": true}
		for k, x := range c {
			cm[k] = x
		}
		jobs = append(jobs, Job{Harness: "gonnx.H_twins", Case: cm})
	}
	return jobs
}

// graphJobs: small graphs in which the property's operators meet other nodes (evaluated by Model.Run and
// compared with the node-by-node reference of harness gonnx.H_C01; every intermediate is also a graph output).
func graphJobs(prop string) []Job {
	in, inits, sup := []string{"x:2,2", "y:2,2"}, []string{"w:2,2", "b:2", "ax:1:i64=-1", "ax0:1:i64=0", "s:2"}, []string{"x", "y"}
	var gs [][]gnode
	switch prop {
	case "C10":
		gs = [][]gnode{
			{{"Tanh", "x", "h", ""}, {"Relu", "h", "o", ""}},
			{{"Sigmoid", "x", "h", ""}, {"Abs", "h", "a", ""}, {"PRelu", "h,s", "o", ""}},
			{{"Relu", "x", "h", ""}, {"Relu", "h", "a", ""}, {"Sinh", "h", "o", ""}},
			{{"Abs", "x", "h", ""}, {"Tanh", "h", "a", ""}, {"Relu", "x", "o", ""}},
		}
	case "C14", "C03":
		gs = [][]gnode{
			{{"Unsqueeze", "b,ax", "u", ""}, {"Add", "x,u", "a", ""}, {"Sub", "a,b", "o", ""}},
			{{"Unsqueeze", "b,ax0", "u", ""}, {"Mul", "u,y", "a", ""}, {"Sub", "a,b", "o", ""}},
			{{"PRelu", "x,b", "p", ""}, {"Sub", "p,b", "a", ""}, {"Less", "a,x", "o", ""}},
			{{"Gemm", "x,w,b", "g", ""}, {"Add", "g,b", "a", ""}, {"Greater", "b,a", "o", ""}},
		}
	case "C05":
		in, inits = []string{"x:1,1,3,3"}, []string{"k:1,1,2,2", "k2:2,1,2,2", "cb:2"}
		sup = []string{"x"}
		gs = [][]gnode{
			{{"Conv", "x,k", "a", ""}, {"Conv", "x,k2,cb", "o", ""}},
			{{"Conv", "x,k", "a", ""}, {"Relu", "x", "r", ""}, {"Conv", "r,k2", "o", "pads=1,1,1,1"}},
		}
	case "C08":
		inits = append(inits, "idx:1:i64=-1")
		gs = [][]gnode{
			{{"Gather", "x,idx", "g", "axis=0"}, {"Slice", "y,ax0,idx2,idx", "o", ""}},
			{{"Gather", "x,idx", "g", "axis=1"}, {"Unsqueeze", "y,idx", "o", ""}},
		}
		inits = append(inits, "idx2:1:i64=2")
	}
	var jobs []Job
	for _, g := range gs {
		var outs []string
		for _, n := range g {
			outs = append(outs, n.out)
		}
		for _, o := range [][]string{outs, outs[len(outs)-1:]} {
			cm := graphCase(g, in, inits, o, sup)
			cm["evaluates"] = true
			jobs = append(jobs, Job{Harness: "gonnx.H_C01", Case: cm})
		}
	}
	return jobs
}

// AddSharedJobs appends the job families shared by several properties to a plan.
func AddSharedJobs(p *Plan) {
	if js := graphJobs(p.Property); len(js) > 0 {
		p.Jobs = append(p.Jobs, js...)
		p.Bounds = append(p.Bounds, "the property's operators inside small graphs next to other nodes (shared initializers, intermediates that are also outputs), evaluated by Model.Run against the node-by-node reference")
	}
	if js := twinJobs(p.Property); len(js) > 0 {
		p.Jobs = append(p.Jobs, js...)
		p.Bounds = append(p.Bounds, "two look-alike Models in one process (same graph, node and value names; they differ in a constant, an initializer, an attribute or a declared dimension): B, A, B again, A again - each returns what its own description means (closed form for constants, initializers, LinearRegressor, the signature) and the same as before the other one ran")
	}
	if js := respellJobs(p); len(js) > 0 {
		p.Jobs = append(p.Jobs, js...)
		p.Bounds = append(p.Bounds, "attribute spelling: for operators with optional attributes, the first six cases of each are repeated with the attribute list reversed and with the omitted attributes spelled out (default values) in front")
	}
	if js := reuseJobs(p.Property); len(js) > 0 {
		p.Jobs = append(p.Jobs, js...)
		p.Bounds = append(p.Bounds, reuseBound)
	}
	if js := layoutJobs(p.Property); len(js) > 0 {
		p.Jobs = append(p.Jobs, js...)
		p.Bounds = append(p.Bounds, layoutBound)
	}
}

const layoutBound = "memory layout: the operators of the instance-memory table applied to the same logical operands handed over as one operand at a time as a view into a larger tensor (at an offset; with gaps along the last or the second axis; a column of a matrix) and as a lazily transposed matrix: same results as for plain operands or a refusal, never a panic, operands left as they were (all float/bool elements symbolic, exact real arithmetic); 46 (operator, operand, layout) triples and Div for which the unchanged tree already answers differently are left out (listed in DESIGN 8.3)"

// layoutSensitive: (operator, layout) pairs for which the UNCHANGED tree already answers differently than for plain
// operands (wrong values or a panic; mostly gorgonia routines that read a view's backing array without regard to
// its strides and offset). They are left out of the layout jobs: the interpreter models gorgonia's routines by
// their logical meaning and does not reproduce that behaviour, so these pairs cannot be decided here; they are
// listed in DESIGN.md (section 8.3) as observations.
var layoutSensitive = map[string]bool{
	// Div: gorgonia's contiguous and iterator kernels disagree on x/0 (known finding C03.float-div-by-zero)
	"Div:0:offset": true, "Div:0:gaps": true, "Div:0:mid": true, "Div:0:lazyT": true, "Div:0:column": true,
	"Div:1:offset": true, "Div:1:gaps": true, "Div:1:mid": true, "Div:1:lazyT": true, "Div:1:column": true,
	"Concat:0:gaps": true, "Concat:1:gaps": true, "Concat:2:gaps": true,
	"ReduceMax:0:column": true, "ReduceMin:0:column": true, "Softmax:0:column": true, "LogSoftmax:0:column": true,
	"Sub:0:gaps": true, "Add:0:gaps": true, "Add:1:gaps": true, "Sub:1:gaps": true,
	"Conv:1:mid": true, "ReduceMax:0:mid": true, "ReduceMin:0:mid": true, "Shape:0:mid": true, "Softmax:0:mid": true, "Sub:0:mid": true, "LogSoftmax:0:mid": true,
	"Abs:0:gaps": true, "And:1:gaps": true, "Cast:0:column": true, "Cast:0:gaps": true, "Cast:0:lazyT": true,
	"Conv:1:offset": true, "Conv:2:offset": true, "Equal:1:gaps": true, "GRU:0:gaps": true, "Gemm:0:gaps": true,
	"Gemm:1:gaps": true, "Gemm:2:column": true, "LinearRegressor:0:gaps": true, "LogSoftmax:0:gaps": true, "LogSoftmax:0:lazyT": true,
	"MatMul:0:gaps": true, "MatMul:1:gaps": true, "PRelu:0:column": true, "PRelu:0:gaps": true, "PRelu:0:lazyT": true,
	"RNN:0:gaps": true, "ReduceMax:0:gaps": true, "ReduceMax:0:lazyT": true, "ReduceMin:0:gaps": true, "Softmax:0:gaps": true,
	"Softmax:0:lazyT": true, "Softmax:0:offset": true, "Squeeze:0:offset": true,
}

// layoutJobs: every (operator, attributes, input set) of the instance-memory table in three memory layouts
// (harness opset13.H_layout).
func layoutJobs(prop string) []Job {
	var jobs []Job
	seen := map[string]bool{}
	for _, c := range reuseTable[prop] {
		for _, set := range [][]string{c.a, c.b} {
			for k, spec := range set {
				if spec == "-" || strings.Contains(spec, "i64") {
					continue
				}
				rank := 0
				if dims := strings.SplitN(spec, ":", 2)[0]; dims != "" {
					rank = strings.Count(dims, ",") + 1
				}
				// (column-major storage - tensor.AsFortran, variant "colmajor" of the harness - is not among them: the
				// unchanged tree answers differently for it in nearly every operator, see DESIGN 8.3)
				for _, variant := range []string{"offset", "gaps", "mid", "lazyT", "column"} {
					if rank == 0 || variant == "colmajor" && rank < 2 || variant == "lazyT" && rank != 2 || variant == "gaps" && rank < 2 || variant == "column" && rank != 1 || variant == "mid" && rank < 3 {
						continue
					}
					if layoutSensitive[c.op+":"+itoa(k)+":"+variant] {
						continue
					}
					key := c.op + "|" + c.attrs + "|" + strings.Join(set, ";") + "|" + variant + "|" + itoa(k)
					if seen[key] {
						continue
					}
					seen[key] = true
					jobs = append(jobs, Job{Harness: "opset13.H_layout", Case: map[string]interface{}{"prop": prop, "op": c.op, "attrs": c.attrs, "a": set, "variant": variant, "which": k}})
				}
			}
		}
	}
	return jobs
}
