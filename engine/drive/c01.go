package drive

import "strings"

type gnode struct {
	op, in, out, attr string
}

func graphCase(nodes []gnode, inputs, inits, outputs, supplied []string) map[string]interface{} {
	var ops, ins, outs, attrs []string
	for _, n := range nodes {
		ops = append(ops, n.op)
		ins = append(ins, n.in)
		outs = append(outs, n.out)
		attrs = append(attrs, n.attr)
	}
	return map[string]interface{}{"ops": ops, "ins": ins, "outs": outs, "attrs": attrs, "inputs": inputs, "inits": inits, "outputs": outputs, "supplied": supplied}
}

// c01Programs enumerates small dataflow graphs over (2,2) float tensors.
func c01Programs(th bool) []map[string]interface{} {
	var out []map[string]interface{}
	inputs := []string{"x:2,2", "y:2,2"}
	inits := []string{"w:2,2", "b:2"}
	sup := []string{"x", "y"}
	type opv struct {
		op, attr string
		arity    int
	}
	opsv := []opv{{"Add", "", 2}, {"Sub", "", 2}, {"Mul", "", 2}, {"Relu", "", 1}, {"Transpose", "perm=1,0", 1}, {"MatMul", "", 2}, {"Gemm", "", 2}, {"Gemm", "transB=1", 2}, {"Gemm", "transA=1;alpha=2", 3}}
	names := []string{"x", "y", "w"}
	pick := func(o opv, a, b string) string {
		switch o.arity {
		case 1:
			return a
		case 3:
			return a + "," + b + ",b"
		}
		return a + "," + b
	}
	// one node
	for _, o := range opsv {
		for _, a := range names {
			for _, b := range names {
				if o.arity == 1 && b != "x" {
					continue
				}
				out = append(out, graphCase([]gnode{{o.op, pick(o, a, b), "o1", o.attr}}, inputs, inits, []string{"o1"}, sup))
			}
		}
	}
	// two nodes: the second consumes the first (chain / fan-out / fan-in), every intermediate is also an output
	for i, o1 := range opsv {
		for j, o2 := range opsv {
			if !th && (i+j)%2 == 1 {
				continue
			}
			n1 := gnode{o1.op, pick(o1, "x", "w"), "t", o1.attr}
			out = append(out, graphCase([]gnode{n1, {o2.op, pick(o2, "t", "y"), "o", o2.attr}}, inputs, inits, []string{"t", "o"}, sup))
			out = append(out, graphCase([]gnode{n1, {o2.op, pick(o2, "y", "t"), "o", o2.attr}}, inputs, inits, []string{"o", "t"}, sup))
			out = append(out, graphCase([]gnode{n1, {o2.op, pick(o2, "t", "t"), "o", o2.attr}}, inputs, inits, []string{"o"}, sup))
		}
	}
	// three nodes: diamond, chain, shared input, same operator type with different attributes
	tri := [][]gnode{
		{{"Relu", "x", "a", ""}, {"Transpose", "x", "b", "perm=1,0"}, {"Add", "a,b", "o", ""}},
		{{"Gemm", "x,w", "a", "transB=1"}, {"Gemm", "a,w", "b", ""}, {"Gemm", "b,w,b0", "o", "transA=1"}},
		{{"Gemm", "x,w", "a", ""}, {"Gemm", "a,w", "b", "transB=1"}, {"Sub", "a,b", "o", ""}},
		{{"Transpose", "x", "a", "perm=1,0"}, {"Transpose", "a", "b", "perm=0,1"}, {"MatMul", "b,a", "o", ""}},
		{{"Mul", "x,y", "a", ""}, {"Mul", "a,a", "b", ""}, {"Add", "b,x", "o", ""}},
		{{"Add", "x,w", "a", ""}, {"Relu", "a", "b", ""}, {"Concat", "a,b,x", "o", "axis=1"}},
		{{"Concat", "x,y", "a", "axis=0"}, {"Concat", "x,y", "b", "axis=1"}, {"MatMul", "b,a", "o", ""}},
		{{"Sub", "x,y", "a", ""}, {"Sub", "y,x", "b", ""}, {"Add", "a,b", "o", ""}},
	}
	for _, t := range tri {
		for k := range t {
			t[k].in = strings.ReplaceAll(t[k].in, "b0", "b")
		}
		out = append(out, graphCase(t, inputs, inits, []string{"a", "b", "o"}, sup))
		out = append(out, graphCase(t, inputs, inits, []string{"o"}, sup))
	}
	// an initializer that is also a graph input: supplied by the caller or not
	shadow := []gnode{{"Add", "x,w", "o", ""}}
	out = append(out, graphCase(shadow, []string{"x:2,2", "w:2,2"}, inits, []string{"o"}, []string{"x", "w"}))
	out = append(out, graphCase(shadow, []string{"x:2,2", "w:2,2"}, inits, []string{"o", "w"}, []string{"x"}))
	out = append(out, graphCase([]gnode{{"Gemm", "x,w,b", "o", ""}}, []string{"x:2,2", "b:2"}, inits, []string{"o", "b"}, []string{"x", "b"}))
	// ... and two Runs on one Model: the default overridden, then left alone again (and the other way round)
	for _, pair := range [][2][]string{{{"x", "w"}, {"x"}}, {{"x"}, {"x", "w"}}} {
		cm := graphCase(shadow, []string{"x:2,2", "w:2,2"}, inits, []string{"o", "w"}, pair[0])
		cm["supplied2"] = pair[1]
		out = append(out, cm)
	}
	// the default replaced by a tensor of ANOTHER extent along a dimension the declaration leaves open
	for _, pair := range [][2][]string{{{"x", "w"}, {"x"}}, {{"x"}, {"x", "w"}}} {
		cm := graphCase(shadow, []string{"x:3,2", "w:3,2"}, []string{"w:1,2"}, []string{"o", "w"}, pair[0])
		cm["supplied2"] = pair[1]
		cm["dyninputs"] = true
		out = append(out, cm)
	}
	cm2 := graphCase([]gnode{{"Gemm", "x,w,b", "o", ""}}, []string{"x:2,2", "b:2"}, inits, []string{"o"}, []string{"x", "b"})
	cm2["supplied2"] = []string{"x"}
	out = append(out, cm2)
	// outputs that are graph inputs / initializers / never produced; a node reading a name that does not exist
	out = append(out, graphCase(shadow, inputs, inits, []string{"x", "w", "o"}, sup))
	out = append(out, graphCase(shadow, inputs, inits, []string{"o", "nowhere"}, sup))
	out = append(out, graphCase([]gnode{{"Add", "x,ghost", "o", ""}}, inputs, inits, []string{"o"}, sup))
	out = append(out, graphCase([]gnode{{"Add", "x,late", "o", ""}, {"Relu", "x", "late", ""}}, inputs, inits, []string{"o"}, sup))
	out = append(out, graphCase([]gnode{{"FancyOp", "x", "z", ""}, {"Relu", "x", "o", ""}}, inputs, inits, []string{"o"}, sup))
	// multi-output nodes: arbitrary names, omitted trailing outputs, skipped optional inputs
	rin := []string{"X:2,2,2"}
	for _, c := range []struct {
		op   string
		g    int
		outs []string
	}{
		{"RNN", 1, []string{"p,q", "p", "Y,Y_h", ",q"}},
		{"GRU", 3, []string{"p,q", "Y_h,Y", ",q"}},
		{"LSTM", 4, []string{"p,q,r", "Y,Y_h,Y_c", "Y_c,Y_h,Y", "p,q", "p", ",,r", "p,,r"}},
	} {
		ri := []string{"W:1," + itoa(c.g*2) + ",2", "R:1," + itoa(c.g*2) + ",2", "B:1," + itoa(2*c.g*2), "H:1,2,2"}
		for _, o := range c.outs {
			var declared []string
			for _, n := range strings.Split(o, ",") {
				if n != "" {
					declared = append(declared, n)
				}
			}
			last := declared[len(declared)-1]
			out = append(out, graphCase([]gnode{{c.op, "X,W,R,B,,H", o, "hidden_size=2"}, {"Relu", last, "z", ""}}, rin, ri, append(declared, "z"), []string{"X"}))
			out = append(out, graphCase([]gnode{{c.op, "X,W,R", o, "hidden_size=2"}}, rin, ri, declared, []string{"X"}))
			out = append(out, graphCase([]gnode{{c.op, "X,W,R,,,H", o, "hidden_size=2"}}, rin, ri, declared, []string{"X"}))
		}
	}
	// an omitted output followed, later in the graph, by a skipped optional input (both spelled "")
	{
		ri := []string{"W:1,2,2", "R:1,2,2", "B:1,4"}
		out = append(out, graphCase([]gnode{{"RNN", "X,W,R,B", ",q", "hidden_size=2"}, {"RNN", "X,W,R,B,,q", "y2,q2", "hidden_size=2"}}, rin, ri, []string{"q", "y2", "q2"}, []string{"X"}))
		out = append(out, graphCase([]gnode{{"LSTM", "X,W4,R4", "p,,r", "hidden_size=2"}, {"GRU", "X,W3,R3,,,r", "y2", "hidden_size=2"}, {"Add", "p,y2", "o", ""}}, rin, []string{"W4:1,8,2", "R4:1,8,2", "W3:1,6,2", "R3:1,6,2"}, []string{"o", "r"}, []string{"X"}))
	}
	// an initial state shared by two recurrent nodes (and handed out as a graph output), the other state left out
	for _, ins := range []string{"X,W4,R4,,,,s0", "X,W4,R4,,,s0"} {
		out = append(out, graphCase([]gnode{{"LSTM", ins, "p", "hidden_size=2"}, {"LSTM", ins, "q", "hidden_size=2"}, {"Add", "p,q", "o", ""}}, rin, []string{"W4:1,8,2", "R4:1,8,2", "s0:1,2,2"}, []string{"o", "s0"}, []string{"X"}))
	}
	// a caller tensor handed over lazily transposed, as the LOWER-rank operand of broadcasting nodes and read twice
	{
		cm := graphCase([]gnode{{"Add", "m,s3", "a", ""}, {"Relu", "a", "r", ""}, {"Mul", "r,m", "o", ""}}, []string{"m:2,3"}, []string{"s3:2,2,3"}, []string{"o", "a"}, []string{"m"})
		cm["lazyT"] = "m"
		out = append(out, cm)
		cm = graphCase([]gnode{{"Sub", "s3,m", "a", ""}, {"MatMul", "a,w32", "o", ""}}, []string{"m:2,3"}, []string{"s3:2,2,3", "w32:3,2"}, []string{"o"}, []string{"m"})
		cm["lazyT"] = "m"
		out = append(out, cm)
	}
	// a tensor read by a node that scales it (Gemm's C with beta != 1, alpha != 1) and read again afterwards
	out = append(out, graphCase([]gnode{{"Gemm", "x,w,c2", "s", "beta=2;alpha=3"}, {"Add", "s,c2", "o", ""}, {"Mul", "x,w", "o2", ""}}, inputs, []string{"w:2,2", "c2:2,2"}, []string{"o", "s", "o2"}, sup))
	out = append(out, graphCase([]gnode{{"Gemm", "x,y,y", "s", "beta=2;transA=1"}, {"Sub", "s,y", "o", ""}, {"Sub", "o,x", "o2", ""}}, inputs, inits, []string{"o2", "s"}, sup))
	// one int64 initializer (axes / indices / target shape with negative or 0/-1 entries) read by two nodes of different geometry
	ii := []string{"w:2,2", "ax:1:i64=-1", "idx:1:i64=-1", "shp:2:i64=0,-1", "x3:2,3"}
	out = append(out, graphCase([]gnode{{"Unsqueeze", "x,ax", "a", ""}, {"Unsqueeze", "a,ax", "b", ""}, {"Squeeze", "b,ax", "o", ""}}, inputs, ii, []string{"a", "b", "o"}, sup))
	out = append(out, graphCase([]gnode{{"Gather", "x3,idx", "a", "axis=1"}, {"Gather", "x,idx", "b", "axis=0"}, {"Gather", "x3,idx", "o", "axis=-1"}}, inputs, ii, []string{"a", "b", "o"}, sup))
	out = append(out, graphCase([]gnode{{"Reshape", "x3,shp", "a", ""}, {"Concat", "x,y", "c", "axis=0"}, {"Reshape", "c,shp", "o", ""}}, inputs, ii, []string{"a", "o"}, sup))
	// rank-0 graph inputs (no dimensions in the signature): supplied, defaulted by an initializer, both
	out = append(out, graphCase([]gnode{{"Mul", "x,g", "o", ""}}, []string{"x:2,2", "g:"}, []string{"w:2,2"}, []string{"o"}, []string{"x", "g"}))
	out = append(out, graphCase([]gnode{{"Mul", "x,g", "o", ""}}, []string{"x:2,2", "g:"}, []string{"g:"}, []string{"o"}, []string{"x", "g"}))
	out = append(out, graphCase([]gnode{{"Mul", "x,g", "o", ""}}, []string{"x:2,2", "g:"}, []string{"g:"}, []string{"o", "g"}, []string{"x"}))
	// the default operator set under both of its legal names, alone and next to the ML domain
	for _, ops := range [][]string{{"ai.onnx=13"}, {"ai.onnx.ml=2", "ai.onnx=13"}, {"=13", "ai.onnx.ml=3"}, {"=13", "com.example=1"}} {
		cm := graphCase([]gnode{{"Add", "x,w", "a", ""}, {"Relu", "a", "o", ""}}, inputs, inits, []string{"o"}, sup)
		cm["opsets"] = ops
		out = append(out, cm)
	}
	// wide fan-in: a variadic node reading nine and twelve names; a chain of six nodes
	out = append(out, graphCase([]gnode{{"Concat", "x,y,x,w,y,x,y,w,x", "o", "axis=0"}}, inputs, inits, []string{"o"}, sup))
	out = append(out, graphCase([]gnode{{"Relu", "x", "a", ""}, {"Concat", "x,y,a,w,y,x,y,w,x,a,a,y", "o", "axis=1"}}, inputs, inits, []string{"o"}, sup))
	out = append(out, graphCase([]gnode{{"Add", "x,w", "a", ""}, {"Relu", "a", "b", ""}, {"Mul", "b,y", "c", ""}, {"Sub", "c,a", "d", ""}, {"Transpose", "d", "e", "perm=1,0"}, {"MatMul", "e,b", "o", ""}}, inputs, inits, []string{"o", "c"}, sup))
	// Constant nodes (no inputs) and two Constants with different attributes
	out = append(out, graphCase([]gnode{{"Constant", "", "c1", "value_float=2"}, {"Constant", "", "c2", "value_float=3"}, {"Mul", "x,c1", "a", ""}, {"Add", "a,c2", "o", ""}}, inputs, inits, []string{"o", "c1", "c2"}, sup))
	return out
}

func itoa(n int) string {
	if n == 0 {
		return "0"
	}
	s := ""
	for n > 0 {
		s = string(rune('0'+n%10)) + s
		n /= 10
	}
	return s
}

func init() {
	Plans["C01"] = func(o Options) *Plan {
		p := &Plan{Property: "C01"}
		for _, c := range c01Programs(o.Tier == "thorough") {
			p.Jobs = append(p.Jobs, Job{Harness: "gonnx.H_C01", Case: c})
		}
		p.Bounds = []string{
			"programs: every 1-node graph over {Add, Sub, Mul, Relu, Transpose, MatMul, Gemm x3 attribute sets} x input pairs from {x, y, w}; 2-node chains/fan-out/fan-in over the same alphabet (half of the operator pairs in quick, all in thorough); 8 three-node shapes (diamond, chains, shared inputs, one operator type three times with different attributes, Concat); graphs with an initializer that is also a graph input (supplied / not supplied / supplied in one Run and not in the next), outputs that are inputs or initializers, never-produced outputs, dangling and late names, an unknown operator; RNN/GRU/LSTM nodes with arbitrary, permuted, partly omitted and empty output names and skipped optional inputs; Constant nodes",
			"all caller inputs and initializers are (2,2)/(2)/(2,2,2) float32 tensors whose every element is a solver variable (exact real arithmetic); every intermediate name is also declared a graph output",
			"oracle: an independent evaluator in the harness (its own name environment, results bound by position, its own tensor objects) driving the same operator implementations",
		}
		p.Outside = []string{"graphs with more than 3 nodes (4 with Constants)", "operators outside the alphabet (their own semantics are C03-C11)", "protobuf decoding of the model bytes (the harness starts from the decoded struct)"}
		p.Explanation = "NewModel, Model.Run, applyOp, getInputTensorsForNode, setOutputTensorsOfNode, validateShapes, GetOperator and the operators used executed symbolically"
		reentrancyJobs(o, p)
		return p
	}
}
