package drive

func init() {
	Plans["C06"] = func(o Options) *Plan {
		p := &Plan{Property: "C06"}
		th := o.Tier == "thorough"
		add := func(c map[string]interface{}) {
			def := map[string]interface{}{"seq": 2, "batch": 2, "input": 2, "hidden": 2, "B": true, "H0": true, "C0": true, "P": false, "activations": []string{}, "lbr": -1, "input_forget": -1, "split": 0, "dtype": "float32"}
			for k, v := range c {
				def[k] = v
			}
			p.Jobs = append(p.Jobs, Job{Harness: "opset13.H_C06", Case: def})
		}
		// long sequences (17 and 20 steps: beyond any per-block handling of the time axis), split in the middle too
		for _, op := range []string{"RNN", "GRU", "LSTM"} {
			add(map[string]interface{}{"op": op, "seq": 17, "batch": 2, "input": 2, "hidden": 2, "B": true, "H0": false, "C0": false})
			add(map[string]interface{}{"op": op, "seq": 20, "batch": 2, "input": 2, "hidden": 2, "B": false, "split": 16})
		}
		// float64 operands (the operators may refuse them; an answer must be right)
		for _, op := range []string{"RNN", "GRU", "LSTM"} {
			add(map[string]interface{}{"op": op, "dtype": "float64"})
			add(map[string]interface{}{"op": op, "dtype": "float64", "B": false, "H0": false, "C0": false, "seq": 1})
			add(map[string]interface{}{"op": op, "dtype": "float64", "lbr": 1, "P": true})
		}
		for _, op := range []string{"RNN", "GRU", "LSTM"} {
			// sizes
			sizes := [][4]int{{1, 2, 2, 2}, {2, 2, 2, 2}, {3, 2, 2, 2}, {2, 1, 2, 2}, {2, 2, 1, 2}, {2, 2, 3, 2}, {2, 3, 2, 3}, {2, 2, 2, 1}, {2, 1, 1, 2}, {1, 1, 2, 2}}
			if th {
				sizes = append(sizes, [4]int{4, 2, 2, 2}, [4]int{3, 3, 3, 3}, [4]int{2, 1, 1, 1})
			}
			for _, s := range sizes {
				add(map[string]interface{}{"op": op, "seq": s[0], "batch": s[1], "input": s[2], "hidden": s[3], "P": op == "LSTM" && s[1] > 1})
			}
			// every subset of the optional inputs
			for m := 0; m < 16; m++ {
				if op != "LSTM" && m >= 4 {
					break
				}
				add(map[string]interface{}{"op": op, "B": m&1 != 0, "H0": m&2 != 0, "C0": m&4 != 0, "P": m&8 != 0})
			}
			// split points
			for _, sp := range [][2]int{{2, 1}, {3, 1}, {3, 2}} {
				add(map[string]interface{}{"op": op, "seq": sp[0], "split": sp[1], "P": op == "LSTM"})
				add(map[string]interface{}{"op": op, "seq": sp[0], "split": sp[1], "H0": false, "C0": false, "B": false})
			}
		}
		// activations
		for _, a := range [][]string{{"tanh"}, {"relu"}, {"sigmoid"}, {"elu"}} {
			add(map[string]interface{}{"op": "RNN", "activations": a})
		}
		for _, a := range [][]string{{"sigmoid", "tanh"}, {"sigmoid", "relu"}, {"tanh", "sigmoid"}, {"relu", "relu"}, {"sigmoid", "softsign"}, {"hardsigmoid", "tanh"}} {
			for _, lbr := range []int{-1, 0, 1} {
				add(map[string]interface{}{"op": "GRU", "activations": a, "lbr": lbr})
			}
		}
		for _, lbr := range []int{0, 1} {
			add(map[string]interface{}{"op": "GRU", "lbr": lbr, "seq": 3, "split": 1})
			add(map[string]interface{}{"op": "GRU", "lbr": lbr, "B": false, "H0": false})
		}
		for _, a := range [][]string{{"sigmoid", "tanh", "tanh"}, {"sigmoid", "tanh", "relu"}, {"sigmoid", "relu", "tanh"}, {"tanh", "sigmoid", "sigmoid"}, {"relu", "relu", "relu"}, {"sigmoid", "tanh", "elu"}, {"sigmoid", "scaledtanh", "tanh"}, {"affine", "tanh", "tanh"}} {
			add(map[string]interface{}{"op": "LSTM", "activations": a, "P": true})
		}
		for _, f := range []int{0, 1} {
			add(map[string]interface{}{"op": "LSTM", "input_forget": f})
			add(map[string]interface{}{"op": "LSTM", "input_forget": f, "P": true, "H0": false})
		}
		// the cut made inside one graph (Model.Run wires the state from the first piece to the second)
		for _, c := range []struct {
			op     string
			g      int
			first  string // outputs of the first piece
			second string // inputs of the second piece
			outs2  string
			equal  []string
			whole  string
		}{
			{"RNN", 1, ",h1", "X2,W,R,B,,h1", "y2,h2", []string{"Yh=h2"}, "Y,Yh"},
			{"GRU", 3, ",h1", "X2,W,R,B,,h1", "y2,h2", []string{"Yh=h2"}, "Y,Yh"},
			{"GRU", 3, "y1,h1", "X2,W,R,,,h1", ",h2", []string{"Yh=h2"}, ",Yh"},
			{"LSTM", 4, ",h1,c1", "X2,W,R,B,,h1,c1", "y2,h2,c2", []string{"Yh=h2", "Yc=c2"}, "Y,Yh,Yc"},
			{"LSTM", 4, "y1,h1,c1", "X2,W,R,,,h1,c1", ",h2,c2", []string{"Yh=h2", "Yc=c2"}, ",Yh,Yc"},
		} {
			hs := "hidden_size=2"
			b := "B:1," + itoa(2*c.g*2)
			wholeIn, firstIn := "X,W,R,B", "X1,W,R,B"
			if c.second[len("X2,W,R,")] == ',' {
				wholeIn, firstIn = "X,W,R", "X1,W,R"
			}
			nodes := []gnode{{"Concat", "X1,X2", "X", "axis=0"}, {c.op, wholeIn, c.whole, hs}, {c.op, firstIn, c.first, hs}, {c.op, c.second, c.outs2, hs}}
			var outs []string
			for _, e := range c.equal {
				outs = append(outs, e[:2], e[3:])
			}
			cm := graphCase(nodes, []string{"X1:1,2,2", "X2:2,2,2"}, []string{"W:1," + itoa(c.g*2) + ",2", "R:1," + itoa(c.g*2) + ",2", b}, outs, nil)
			cm["equal"] = c.equal
			p.Jobs = append(p.Jobs, Job{Harness: "gonnx.H_C06_model", Case: cm})
		}
		p.Bounds = []string{
			"the cut made inside one graph: whole sequence (length 3) and pieces (1 + 2) evaluated by one Model.Run with the state passed through node outputs/inputs, omitted outputs and skipped optional inputs spelled \"\" (RNN, GRU, LSTM; with and without B)",
			"exact real arithmetic; X, W, R, B, P, initial_h and initial_c are solver variables; exp and tanh are uninterpreted (sigmoid = 1/(1+exp(-x)) as the library builds it, exp > 0)",
			"RNN, GRU, LSTM x 10 (13 thorough) (seq,batch,input,hidden) size tuples with extents 1..3 (4) x every subset of the optional inputs {B, initial_h, initial_c, P} (absent trailing or skipped) x supported activation tuples and one unsupported name per slot x linear_before_reset in {absent,0,1} x input_forget in {0,1} x split points 1|2, 1|3, 2|3 (the state tensors returned by the first piece are fed to the second, same operator instance)",
		}
		p.Outside = []string{"rounding; accuracy of exp/tanh", "seq > 4, hidden > 3", "reverse/bidirectional, clip, sequence_lens (must be refused: covered by Init/Apply errors, not enumerated)", "float64 (refused by the float32 zero/one helper tensors)"}
		p.Explanation = "RNN/GRU/LSTM Init/Apply with ExtractMatrices, Gemm.Apply, activations, ZeroTensor/OnesTensor executed symbolically; reference: the ONNX recurrences as scalar loops with the ONNX gate order"
		return p
	}
}
