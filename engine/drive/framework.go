// Package drive enumerates structural cases per property, runs the symbolic
// explorer on each, replays solver counterexamples natively and writes evidence.
package drive

import (
	"encoding/json"
	"fmt"
	"os"
	"os/exec"
	"path/filepath"
	"sort"
	"strings"
	"sync"
	"time"

	"verif/engine/smt"
	"verif/engine/symex"
)

type Job struct {
	Harness string                 `json:"harness"`
	Case    map[string]interface{} `json:"case"`
	Ring    bool                   `json:"-"`
}

func (j Job) Key() string {
	b, _ := json.Marshal(j.Case)
	return j.Harness + " " + string(b)
}

type JobResult struct {
	Job      Job
	Exp      *symex.Explorer
	SolverQ  int
	SolverT  time.Duration
	Sat      int
	Unsat    int
	Unknown  int
	SolverEr []string
}

type Options struct {
	Property      string
	Tier          string
	Seed          int64
	Workers       int
	RepoDir       string
	VerifDir      string
	TimeoutMs     int
	Solver        string
	Verbose       bool
	OnlyCase      string // substring filter on job key
	MaxJobs       int
	NoReplay      bool
	CrossVal      int           // concrete cross-validation samples per job (0 = none)
	OneShotMs     int           // timeout of escalated one-shot solver runs
	OneShotBudget time.Duration // per job and worker
	ExploreBudget time.Duration // wall-clock budget of the symbolic exploration of one check (0 = none)
}

type Plan struct {
	RaceHarness string // when set: counterexamples of frame-monitor assertions are confirmed by re-running this harness under go test -race
	Property    string
	Jobs        []Job
	Level       string // evidence level
	Bounds      []string
	Outside     []string
	Assumptions []string
	Explanation string
	Exhaustive  bool
}

type KnownFile struct {
	Findings []struct {
		Property string `json:"property"`
		Region   string `json:"region"`
		What     string `json:"what"`
	} `json:"findings"`
	Fixed []map[string]string `json:"fixed"`
}

func loadKnown(verifDir, prop string) (map[string]bool, map[string]string) {
	known := map[string]bool{}
	what := map[string]string{}
	b, err := os.ReadFile(filepath.Join(verifDir, "known_findings.json"))
	if err != nil {
		return known, what
	}
	var kf KnownFile
	if json.Unmarshal(b, &kf) != nil {
		return known, what
	}
	for _, f := range kf.Findings {
		if f.Property == prop {
			known[f.Region] = true
			what[f.Region] = f.What
		}
	}
	return known, what
}

func normCase(c map[string]interface{}) map[string]interface{} {
	b, _ := json.Marshal(c)
	var out map[string]interface{}
	json.Unmarshal(b, &out)
	if out == nil {
		out = map[string]interface{}{}
	}
	return out
}

type workItem struct {
	job    int
	prefix []uint64
}

// RunJobs explores all jobs in parallel; the paths of one job are themselves
// spread over the workers (each worker has its own term store and solver).
func RunJobs(w *symex.World, jobs []Job, opt Options, known map[string]bool) []*JobResult {
	res := make([]*JobResult, len(jobs))
	for i, j := range jobs {
		res[i] = &JobResult{Job: j}
	}
	nw := opt.Workers
	if nw <= 0 {
		nw = 16
	}
	backend := smt.Backends[opt.Solver]
	if backend.Name == "" {
		backend = smt.Backends["z3"]
	}
	// per structural case; a changed tree that forks on every element of a symbolic tensor is cut off here
	// (reported as inconclusive for that case) instead of running for hours - what was found before counts
	maxPaths := 60000
	if opt.Tier != "thorough" {
		maxPaths = 16000 // (the largest case of the unchanged tree explores 7776 paths)
	}
	var mu sync.Mutex
	cond := sync.NewCond(&mu)
	var queue []workItem
	for i := len(jobs) - 1; i >= 0; i-- {
		queue = append(queue, workItem{job: i})
	}
	inflight := 0
	pathCount := make([]int, len(jobs))
	overLimit := make([]bool, len(jobs))
	parts := make([][]*symex.Explorer, len(jobs))

	// wall-clock budget of the exploration (quick tier): past it the remaining work is dropped and the cases
	// concerned are reported as inconclusive; what was found before, and the native runs that follow, still count
	var deadline time.Time
	if opt.ExploreBudget > 0 {
		deadline = time.Now().Add(opt.ExploreBudget)
	}
	cut := map[int]bool{}
	pop := func(prefer int) (workItem, bool) {
		mu.Lock()
		defer mu.Unlock()
		for {
			if len(queue) > 0 && !deadline.IsZero() && time.Now().After(deadline) {
				for _, it := range queue {
					cut[it.job] = true
				}
				queue = nil
			}
			if len(queue) > 0 {
				idx := len(queue) - 1
				if prefer >= 0 {
					for k := len(queue) - 1; k >= 0 && k >= len(queue)-64; k-- {
						if queue[k].job == prefer {
							idx = k
							break
						}
					}
				}
				it := queue[idx]
				queue = append(queue[:idx], queue[idx+1:]...)
				inflight++
				return it, true
			}
			if inflight == 0 {
				cond.Broadcast()
				return workItem{}, false
			}
			cond.Wait()
		}
	}
	done := func(job int, more [][]uint64) {
		mu.Lock()
		pathCount[job]++
		if pathCount[job] >= maxPaths {
			if len(more) > 0 {
				overLimit[job] = true
			}
			more = nil
		}
		for _, p := range more {
			queue = append(queue, workItem{job: job, prefix: p})
		}
		inflight--
		mu.Unlock()
		cond.Broadcast()
	}

	var wg sync.WaitGroup
	for k := 0; k < nw; k++ {
		wg.Add(1)
		go func() {
			defer wg.Done()
			var sess *smt.Session
			defer func() {
				if sess != nil {
					sess.Close()
				}
			}()
			cur := -1
			var ex *symex.Explorer
			var q0, s0, u0, k0, e0 int
			var t0 time.Duration
			flush := func() {
				if ex == nil {
					return
				}
				mu.Lock()
				jr := res[cur]
				if sess != nil {
					jr.SolverQ += sess.Queries - q0
					jr.SolverT += sess.Time - t0
					jr.Sat += sess.SatN - s0
					jr.Unsat += sess.UnsatN - u0
					jr.Unknown += sess.UnkN - k0
					jr.SolverEr = append(jr.SolverEr, sess.Errors[e0:]...)
				}
				// only the results are kept: the term store (the bulk of the memory) is released
				ex.St, ex.Sol = nil, nil
				parts[cur] = append(parts[cur], ex)
				mu.Unlock()
				ex = nil
			}
			for {
				it, ok := pop(cur)
				if !ok {
					flush()
					return
				}
				if it.job != cur || ex == nil {
					flush()
					cur = it.job
					j := jobs[cur]
					st := smt.NewStore()
					var err error
					if sess == nil {
						sess, err = smt.NewSession(backend, st, opt.TimeoutMs, nil)
					} else {
						err = sess.Reset(st, opt.TimeoutMs)
					}
					if err != nil {
						panic(err)
					}
					q0, t0, s0, u0, k0, e0 = sess.Queries, sess.Time, sess.SatN, sess.UnsatN, sess.UnkN, len(sess.Errors)
					h, herr := w.Harness(j.Harness)
					budget := opt.OneShotBudget
					if be, _ := j.Case["best_effort"].(bool); be && budget > 6*time.Minute {
						budget = 6 * time.Minute // a proof attempt at the edge of the solvers' reach: bounded, reported as undecided if it does not finish
					}
					ex = &symex.Explorer{Prog: w.Prog, World: w, Harness: h, Case: normCase(j.Case), St: st, Sol: sess, Known: known, Ring: j.Ring, OneShotTimeoutMs: opt.OneShotMs, OneShotBudget: budget}
					ex.Init()
					if herr != nil {
						ex.Incon = append(ex.Incon, symex.Inconclusive{What: herr.Error()})
						done(cur, nil)
						continue
					}
				}
				unk0, err0 := sess.UnkN, len(sess.Errors)
				more := ex.RunOne(it.prefix)
				if sess.UnkN > unk0 || len(sess.Errors) > err0 {
					// a solver that answered unknown or printed an error may be in a bad state: restart it
					job := cur
					flush()
					sess.Close()
					sess = nil
					cur = -1
					done(job, more)
					continue
				}
				done(cur, more)
			}
		}()
	}
	wg.Wait()
	for i := range jobs {
		var m *symex.Explorer
		for _, p := range parts[i] {
			if m == nil {
				m = p
			} else {
				m.Merge(p)
			}
		}
		if m == nil {
			m = &symex.Explorer{}
			m.Init()
			m.Incon = append(m.Incon, symex.Inconclusive{What: "job was not executed"})
		}
		if overLimit[i] {
			m.Incon = append(m.Incon, symex.Inconclusive{What: fmt.Sprintf("path limit %d reached", maxPaths)})
		}
		if cut[i] {
			m.Incon = append(m.Incon, symex.Inconclusive{What: fmt.Sprintf("exploration budget of %v used up: not all paths of this case were explored", opt.ExploreBudget)})
		}
		res[i].Exp = m
	}
	return res
}

// ---- native replay

type NativeJob struct {
	ID      string                 `json:"id"`
	Harness string                 `json:"harness"`
	Case    map[string]interface{} `json:"case"`
	Asg     map[string]string      `json:"asg"`
}

type NativeResult struct {
	ID         string   `json:"id"`
	Harness    string   `json:"harness"`
	Fails      []string `json:"fails"`
	Reach      []string `json:"reach"`
	Notes      []string `json:"notes"`
	Panic      string   `json:"panic"`
	Uncaught   string   `json:"uncaught"`
	AssumeFail bool     `json:"assume_fail"`
	Missing    bool     `json:"missing"`
}

var pkgDirs = map[string]string{"gonnx": ".", "ops": "./ops", "opset13": "./ops/opset13", "onnx": "./onnx"}

// RunNative executes the jobs against the real build of /repo (go test -overlay).
func RunNative(w *symex.World, opt Options, jobs []NativeJob) (map[string]NativeResult, string, error) {
	return runNative(w, opt, jobs, false)
}

// RunNativeRace runs the jobs under the race detector; the log tells whether a race was reported.
func RunNativeRace(w *symex.World, opt Options, jobs []NativeJob) (bool, string) {
	res, log, _ := runNative(w, opt, jobs, true)
	if strings.Contains(log, "DATA RACE") {
		return true, log
	}
	// no race report: the concurrent harness also compares every goroutine's results with what the same
	// inputs give on a model of their own (a write under a lock or through an atomic shows there, if anywhere)
	for _, r := range res {
		if len(r.Fails) > 0 || r.Panic != "" || r.Uncaught != "" {
			return true, log
		}
	}
	return false, log
}

func runNative(w *symex.World, opt Options, jobs []NativeJob, race bool) (map[string]NativeResult, string, error) {
	out := map[string]NativeResult{}
	if len(jobs) == 0 {
		return out, "", nil
	}
	suffix := ""
	if race {
		suffix = "-race"
	}
	work := filepath.Join(opt.VerifDir, ".work", fmt.Sprintf("%s-%d%s", opt.Property, os.Getpid(), suffix))
	if err := os.MkdirAll(work, 0o755); err != nil {
		return nil, "", err
	}
	defer os.RemoveAll(work)
	ov := map[string]map[string]string{"Replace": {}}
	for v, r := range w.Overlay {
		ov["Replace"][v] = r
	}
	ovb, _ := json.Marshal(ov)
	ovPath := filepath.Join(work, "overlay.json")
	os.WriteFile(ovPath, ovb, 0o644)
	inPath := filepath.Join(work, "jobs.json")
	jb, _ := json.Marshal(jobs)
	os.WriteFile(inPath, jb, 0o644)
	outPath := filepath.Join(work, "results.jsonl")
	pk := map[string]bool{}
	for _, j := range jobs {
		pk[pkgDirs[strings.SplitN(j.Harness, ".", 2)[0]]] = true
	}
	var pkgs []string
	for p := range pk {
		pkgs = append(pkgs, p)
	}
	sort.Strings(pkgs)
	args := []string{"test", "-tags", "verif", "-vet=off", "-count=1", "-p", "1", "-timeout", "20m", "-overlay", ovPath, "-run", "^TestZZReplay$"}
	if race {
		args = append(args, "-race")
	}
	args = append(args, pkgs...)
	cmd := exec.Command("go", args...)
	cmd.Dir = opt.RepoDir
	cmd.Env = append(os.Environ(), "GOFLAGS=-mod=mod", "GOPROXY=off", "GOSUMDB=off", "GOTOOLCHAIN=local", "ZZVERIF_IN="+inPath, "ZZVERIF_OUT="+outPath)
	log, err := cmd.CombinedOutput()
	rb, rerr := os.ReadFile(outPath)
	if rerr == nil {
		dec := json.NewDecoder(strings.NewReader(string(rb)))
		for dec.More() {
			var r NativeResult
			if dec.Decode(&r) != nil {
				break
			}
			out[r.ID] = r
		}
	}
	if err != nil && len(out) < len(jobs) {
		return out, string(log), fmt.Errorf("native replay run failed: %v", err)
	}
	return out, string(log), nil
}

func contains(xs []string, x string) bool {
	for _, y := range xs {
		if y == x {
			return true
		}
	}
	return false
}

// Confirmed: did the native run show the same failure?
func Confirmed(f symex.Failure, r NativeResult) bool {
	if r.Missing || r.AssumeFail {
		return false
	}
	if f.Label == "panic" {
		return r.Uncaught != ""
	}
	return contains(r.Fails, f.Label)
}
