package drive

import (
	"fmt"
	"math"
	"math/rand"
	"sort"
	"strconv"
	"strings"
	"sync"

	"verif/engine/smt"
	"verif/engine/symex"
)

// Cross-validation ("translator validation"): every structural case is also
// executed natively against the real build on a few concrete assignments, and
// the interpreter is run in concrete mode on the same assignments. The two must
// observe the same assertion outcomes; a native assertion failure is a real
// violation whatever the symbolic run said.

type xvRun struct {
	job  int
	id   string
	asg  map[string]string
	desc string
}

var f32Pool = []float32{0, float32(math.Copysign(0, -1)), 1, -1, 0.5, -2.25, 3, 1e30, -1e30, 1e-40, float32(math.Inf(1)), float32(math.Inf(-1)), float32(math.NaN()), 88.8, -104, 16777217}
var f64Pool = []float64{0, math.Copysign(0, -1), 1, -1, 0.5, -2.25, 3, 1e300, -1e300, 5e-324, math.Inf(1), math.Inf(-1), math.NaN(), 709.9, -745.2, 9007199254740993}

func randAsg(r *rand.Rand, ex *symex.Explorer, ring bool) map[string]string {
	asg := map[string]string{}
	names := make([]string, 0, len(ex.SymKinds))
	for n := range ex.SymKinds {
		names = append(names, n)
	}
	sort.Strings(names)
	for _, n := range names {
		k := ex.SymKinds[n]
		switch {
		case k == "bool":
			asg[n] = strconv.FormatBool(r.Intn(2) == 1)
		case k == "f32":
			var f float32
			if ring || r.Intn(3) > 0 {
				f = float32(r.Intn(9)-4) / 2
			} else {
				f = f32Pool[r.Intn(len(f32Pool))]
			}
			asg[n] = fmt.Sprintf("f32:%08x", math.Float32bits(f))
		case k == "f64":
			var f float64
			if ring {
				// tenths: not representable in float32, so a float64 computation that takes a detour
				// through single precision misses the native comparison's 1e-9 tolerance
				f = float64(r.Intn(17)-8) / 10
			} else if r.Intn(3) > 0 {
				f = float64(r.Intn(9)-4) / 2
			} else {
				f = f64Pool[r.Intn(len(f64Pool))]
			}
			asg[n] = fmt.Sprintf("f64:%016x", math.Float64bits(f))
		case strings.HasPrefix(k, "bv"):
			signed := strings.HasSuffix(k, "s")
			w, _ := strconv.Atoi(k[2 : len(k)-1])
			var v int64
			if rg, ok := ex.SymRanges[n]; ok {
				span := uint64(rg[1] - rg[0])
				if span < 1<<20 {
					v = rg[0] + int64(r.Intn(int(span)+1))
				} else {
					switch r.Intn(4) {
					case 0:
						v = rg[0]
					case 1:
						v = rg[1]
					default:
						v = rg[0] + int64(r.Intn(1000))
					}
				}
			} else {
				switch r.Intn(6) {
				case 0:
					v = 0
				case 1:
					v = -1
				case 2:
					v = int64(uint64(1)<<uint(w-1)) - 1 // max signed
				case 3:
					v = -int64(uint64(1) << uint(w-1)) // min signed
				default:
					v = int64(r.Intn(11)) - 5
				}
				if !signed && v < 0 && r.Intn(2) == 0 {
					v = -v
				}
			}
			mask := ^uint64(0)
			if w < 64 {
				mask = (uint64(1) << uint(w)) - 1
			}
			asg[n] = fmt.Sprintf("bv%d:%d", w, uint64(v)&mask)
		}
	}
	return asg
}

func observedSets(obs []string) (fails []string, panicked bool, assumeFail bool) {
	for _, o := range obs {
		switch {
		case strings.HasPrefix(o, "FAIL "):
			fails = append(fails, o[5:])
		case strings.HasPrefix(o, "PANIC "):
			panicked = true
		case o == "ASSUME-FAIL":
			assumeFail = true
		}
	}
	return
}

func uniqSorted(xs []string) []string {
	m := map[string]bool{}
	for _, x := range xs {
		m[x] = true
	}
	return sortedKeys(m)
}

type xvOutcome struct {
	runs       int
	agree      int
	incon      []string
	violations []xvViolation
}

type xvViolation struct {
	job    Job
	label  string
	asg    map[string]string
	native NativeResult
	known  string
}

func xvPrepare(results []*JobResult, opt Options, perJob int) ([]xvRun, []NativeJob) {
	if perJob <= 0 || opt.NoReplay {
		return nil, nil
	}
	var runs []xvRun
	for i, jr := range results {
		if jr.Exp == nil || jr.Exp.Harness == nil {
			continue
		}
		r := rand.New(rand.NewSource(opt.Seed*7919 + int64(i)))
		n := perJob
		if len(jr.Exp.Incon) > 0 {
			// the symbolic run hit an engine limit on this case: compensate with more native samples
			n = 24
		}
		for k := 0; k < n; k++ {
			asg := map[string]string{}
			if k > 0 {
				asg = randAsg(r, jr.Exp, jr.Exp.RingUsed)
			}
			runs = append(runs, xvRun{job: i, id: fmt.Sprintf("xv%d-%d", i, k), asg: asg})
		}
	}
	var nj []NativeJob
	for _, r := range runs {
		nj = append(nj, NativeJob{ID: r.id, Harness: results[r.job].Job.Harness, Case: normCase(results[r.job].Job.Case), Asg: r.asg})
	}
	return runs, nj
}

func xvEvaluate(w *symex.World, results []*JobResult, runs []xvRun, nat map[string]NativeResult, known map[string]bool) xvOutcome {
	var out xvOutcome
	parts := make([]xvOutcome, len(runs))
	var wg sync.WaitGroup
	sem := make(chan struct{}, 16)
	for ri := range runs {
		wg.Add(1)
		sem <- struct{}{}
		go func(ri int) {
			defer wg.Done()
			defer func() { <-sem }()
			parts[ri] = xvOne(w, results, runs[ri], nat, known)
		}(ri)
	}
	wg.Wait()
	for _, p := range parts {
		out.runs += p.runs
		out.agree += p.agree
		out.incon = append(out.incon, p.incon...)
		out.violations = append(out.violations, p.violations...)
	}
	return out
}

func xvOne(w *symex.World, results []*JobResult, r xvRun, nat map[string]NativeResult, known map[string]bool) xvOutcome {
	var out xvOutcome
	for once := true; once; once = false {
		jr := results[r.job]
		nr, ok := nat[r.id]
		if !ok || nr.Missing {
			out.incon = append(out.incon, fmt.Sprintf("cross-validation: no native result for %s", jr.Job.Key()))
			continue
		}
		// interpreter in concrete mode
		st := smt.NewStore()
		ex := &symex.Explorer{Prog: w.Prog, World: w, Harness: jr.Exp.Harness, Case: normCase(jr.Job.Case), St: st, Sol: nil, Known: known, Concrete: r.asg, Ring: jr.Job.Ring}
		ex.Run()
		out.runs++
		ifails, ipanic, iassume := observedSets(ex.Observed)
		nfails := uniqSorted(nr.Fails)
		ifails = uniqSorted(ifails)
		if nr.AssumeFail || iassume {
			if nr.AssumeFail != iassume {
				out.incon = append(out.incon, fmt.Sprintf("cross-validation mismatch (assumption) %s asg=%v native=%v interp=%v", jr.Job.Key(), r.asg, nr.AssumeFail, iassume))
			} else {
				out.agree++
			}
			continue
		}
		engineLimit := len(ex.Incon) > 0
		// frame-monitor failures seen only by the interpreter (transient writes) are not comparable
		monitored := map[string]bool{}
		for _, o := range ex.Observed {
			if strings.HasPrefix(o, "MONITOR ") {
				monitored[o[8:]] = true
			}
		}
		var nf2 []string
		for _, l := range nfails {
			if !monitored[l] {
				nf2 = append(nf2, l)
			}
		}
		same := strings.Join(nf2, ",") == strings.Join(ifails, ",") && (nr.Uncaught != "") == ipanic
		if same && !engineLimit {
			out.agree++
		} else if !engineLimit {
			out.incon = append(out.incon, fmt.Sprintf("cross-validation mismatch %s asg=%v: native fails=%v uncaught=%q panic=%q; interpreter fails=%v panic=%v", jr.Job.Key(), r.asg, nfails, nr.Uncaught, nr.Panic, ifails, ipanic))
		}
		// native failures are real
		regionKnown := ""
		for _, n := range nr.Notes {
			if strings.HasPrefix(n, "region:") && known[n[7:]] {
				regionKnown = n[7:]
			}
		}
		for _, l := range nfails {
			out.violations = append(out.violations, xvViolation{job: jr.Job, label: l, asg: r.asg, native: nr, known: regionKnown})
		}
		if nr.Uncaught != "" {
			out.violations = append(out.violations, xvViolation{job: jr.Job, label: "panic", asg: r.asg, native: nr, known: regionKnown})
		}
	}
	return out
}
