module verif/engine

go 1.23

require (
	github.com/advancedclimatesystems/gonnx v0.0.0
	github.com/chewxy/math32 v1.10.1
	golang.org/x/tools v0.29.0
	google.golang.org/protobuf v1.31.0
	gorgonia.org/tensor v0.9.24
)

require (
	github.com/apache/arrow/go/arrow v0.0.0-20211112161151-bc219186db40 // indirect
	github.com/chewxy/hm v1.0.0 // indirect
	github.com/gogo/protobuf v1.3.2 // indirect
	github.com/golang/protobuf v1.5.3 // indirect
	github.com/google/flatbuffers v23.5.26+incompatible // indirect
	github.com/pkg/errors v0.9.1 // indirect
	github.com/xtgo/set v1.0.0 // indirect
	go4.org/unsafe/assume-no-moving-gc v0.0.0-20231121144256-b99613f794b6 // indirect
	golang.org/x/mod v0.22.0 // indirect
	golang.org/x/sync v0.10.0 // indirect
	golang.org/x/xerrors v0.0.0-20231012003039-104605ab7028 // indirect
	gonum.org/v1/gonum v0.14.0 // indirect
	gorgonia.org/vecf32 v0.9.0 // indirect
	gorgonia.org/vecf64 v0.9.0 // indirect
)

replace github.com/advancedclimatesystems/gonnx => /repo
