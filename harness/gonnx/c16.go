//go:build verif

package gonnx

import (
	"os"

	"github.com/advancedclimatesystems/gonnx/internal/zzverif"
	"github.com/advancedclimatesystems/gonnx/onnx"
	"github.com/advancedclimatesystems/gonnx/ops"
	"gorgonia.org/tensor"
)

func init() {
	zzverif.Register("gonnx.H_C16", H_C16)
}

// zzSampleModelProto decodes one of the repository's sample models. Under the symbolic
// interpreter the call is intercepted: the file is decoded by the real protobuf runtime
// and the message is mirrored into the interpreter.
func zzSampleModelProto(name string) *onnx.ModelProto {
	b, err := os.ReadFile("sample_models/onnx_models/" + name + ".onnx")
	if err != nil {
		panic(err)
	}
	mp, err := ModelProtoFromBytes(b)
	if err != nil {
		panic(err)
	}
	return mp
}

// zzReadFloats returns the elements of a float32 tensor in row-major order.
func zzReadFloats(t tensor.Tensor) []float32 {
	shape := t.Shape()
	n := zzverif.Prod(shape)
	out := make([]float32, n)
	if len(shape) == 0 {
		out[0] = t.ScalarValue().(float32)
		return out
	}
	for f := 0; f < n; f++ {
		x, err := t.At(zzverif.Unravel(f, shape)...)
		if err != nil {
			panic(err)
		}
		out[f] = x.(float32)
	}
	return out
}

// zzStack stacks per-sample data (each of shape `shape`, whose extent along axis is 1) along axis.
func zzStack(samples [][]float32, shape []int, axis int) ([]float32, []int) {
	n := len(samples)
	full := append([]int{}, shape...)
	full[axis] = n
	out := make([]float32, zzverif.Prod(full))
	for f := range out {
		idx := zzverif.Unravel(f, full)
		s := idx[axis]
		idx[axis] = 0
		out[f] = samples[s][zzverif.Ravel(idx, shape)]
	}
	return out, full
}

// zzC16SeedRegion: Softmax/LogSoftmax along the last axis of a batch. gorgonia's last-axis kernel takes
// every row's maximum as max(x[0] of the WHOLE batch, row[1:]); where that differs from the row's own
// maximum a sample's result depends on the first sample of the batch (C09 known finding seen through C16).
// rows[s] is sample s (one row each); the batch is evaluated in the given and in the reversed order.
func zzC16SeedRegion(v *zzverif.T, rows [][]float32, n int) {
	hit := false
	for _, first := range []int{0, n - 1} {
		for s := 0; s < n; s++ {
			if s == first {
				continue
			}
			seeded, truth := rows[first][0], rows[s][0]
			for _, x := range rows[s][1:] {
				if x > seeded {
					seeded = x
				}
				if x > truth {
					truth = x
				}
			}
			if seeded != truth {
				hit = true
			}
		}
	}
	v.Region("C16.softmax-last-axis-row-maximum-seeded-with-first-sample", hit)
}

// H_C16: samples in a batch do not influence one another.
//
// case: either sample = "mlp"|"gru"|"scaler", or the graph lists of H_C01 with inits;
// batched: specs "name:shape:axis" of the per-sample inputs (shape with extent 1 on the batch axis);
// outaxis []int: batch axis of each graph output; n: batch size
func H_C16(v *zzverif.T) {
	grid := v.Has("grid") && v.CBool("grid")
	if !grid {
		v.Ring()
	}
	n := v.CInt("n")
	var mp *onnx.ModelProto
	var outputs []string
	if s := v.CStr("sample"); s != "" {
		mp = zzSampleModelProto(s)
		for _, o := range mp.Graph.Output {
			outputs = append(outputs, o.Name)
		}
	} else {
		g := zzReadGraph(v)
		var inits []zzTData
		for _, spec := range g.inits {
			inits = append(inits, zzParseSpec(v, spec, "init_"))
		}
		mp = zzBuildModel(g, inits)
		outputs = g.outputs
	}
	var m *Model
	var err error
	p := v.Try(func() { m, err = NewModel(mp) })
	v.Assert("C16.model-loads", !p && err == nil)
	if p || err != nil {
		return
	}
	specs := v.CStrs("batched")
	outAxis := v.CInts("outaxis")
	names := make([]string, len(specs))
	shapes := make([][]int, len(specs))
	axes := make([]int, len(specs))
	data := make([][][]float32, len(specs)) // [input][sample]
	dataI := make([][][]int32, len(specs))  // int32 inputs with concrete per-sample values ("name:shape:axis:i32=a,b|c,d|...")
	for i, spec := range specs {
		pp := zzSplit(spec, ':')
		names[i] = pp[0]
		for _, d := range zzSplit(pp[1], ',') {
			shapes[i] = append(shapes[i], zzAtoi(d))
		}
		axes[i] = zzAtoi(pp[2])
		if len(pp) > 3 {
			per := zzSplit(zzSplit(pp[3], '=')[1], '|')
			for s := 0; s < n; s++ {
				var vals []int32
				for _, x := range zzSplit(per[s], ',') {
					vals = append(vals, int32(zzAtoi(x)))
				}
				dataI[i] = append(dataI[i], vals)
			}
			continue
		}
		for s := 0; s < n; s++ {
			if grid {
				// IEEE arithmetic on the grid {-200, 0, 200}: every exponential is exactly 0, 1 or +Inf
				d := make([]float32, zzverif.Prod(shapes[i]))
				for k := range d {
					g := v.IntIn(pp[0]+"_s"+string(rune('0'+s))+"_"+string(rune('0'+k)), -1, 1)
					if v.CBool("enumerate") {
						g = v.Concrete(g) // one path per grid point (larger batches: the FP query over all points at once is out of reach)
					}
					d[k] = float32(200 * g)
				}
				data[i] = append(data[i], d)
				continue
			}
			data[i] = append(data[i], zzverif.Syms[float32](v, pp[0]+"_s"+string(rune('0'+s)), zzverif.Prod(shapes[i])))
		}
	}
	if grid {
		zzC16SeedRegion(v, data[0], n)
	}
	// mayrefuse: the operator may refuse the request; then alone and in a batch must agree about it
	mayRefuse := v.Has("mayrefuse") && v.CBool("mayrefuse")
	// the application also uses the library's exported tensor helpers for data of its own, and writes there:
	// what a helper hands out belongs to whoever asked for it
	zzUseExportedHelpers(v)
	run := func(tag string, in Tensors) (Tensors, bool) {
		var out Tensors
		var rerr error
		pp := v.Try(func() { out, rerr = m.Run(in) })
		v.Assert("C16.no-panic:"+tag, !pp)
		if pp {
			return nil, false
		}
		if !mayRefuse {
			v.Assert("C16.run-succeeds:"+tag, rerr == nil)
		}
		return out, rerr == nil
	}
	// each sample alone
	single := make([][][]float32, len(outputs)) // [output][sample]
	singleB := make([][][]bool, len(outputs))   // bool outputs
	singleShape := make([][]int, len(outputs))
	asView, asLazy := false, false
	mkIn := func(i int, rows []int) tensor.Tensor {
		if dataI[i] != nil {
			ordered := make([][]int32, len(rows))
			for k, s := range rows {
				ordered[k] = dataI[i][s]
			}
			d, full := zzStackG(ordered, shapes[i], axes[i])
			return zzverif.NewTensor(d, full)
		}
		ordered := make([][]float32, len(rows))
		for k, s := range rows {
			ordered[k] = data[i][s]
		}
		if asView {
			// the caller hands over a sub-selection of a larger batch as a VIEW (no copy): one foreign sample
			// before and one behind the selected ones stay in the parent's storage
			per := zzverif.Prod(shapes[i]) / shapes[i][axes[i]]
			junk := func(tag string) []float32 { return zzverif.Syms[float32](v, names[i]+"_"+tag, per) }
			withJunk := append(append([][]float32{junk("before")}, ordered...), junk("behind"))
			d, full := zzStackG(withJunk, shapes[i], axes[i])
			parent := zzverif.NewTensor(d, full)
			sl := make([]tensor.Slice, axes[i]+1)
			sl[axes[i]] = ops.NewSlicer(1, 1+len(rows))
			w, serr := parent.Slice(sl...)
			if serr != nil {
				panic(serr)
			}
			return w
		}
		d, full := zzStackG(ordered, shapes[i], axes[i])
		if asLazy && len(full) >= 2 {
			// the batch handed over lazily transposed: stored with its first two axes exchanged, x.T(1,0,...) applied,
			// no Transpose() - the strides say "transposed", the elements have not moved
			st := append([]int{}, full...)
			st[0], st[1] = full[1], full[0]
			sd := make([]float32, len(d))
			for f := range d {
				idx := zzverif.Unravel(f, full)
				idx[0], idx[1] = idx[1], idx[0]
				sd[zzverif.Ravel(idx, st)] = d[f]
			}
			perm := make([]int, len(full))
			for k := range perm {
				perm[k] = k
			}
			perm[0], perm[1] = 1, 0
			t := zzverif.NewTensor(sd, st)
			if err := t.(*tensor.Dense).T(perm...); err != nil {
				panic(err)
			}
			return t
		}
		return zzverif.NewTensor(d, full)
	}
	anyRefused := false
	for s := 0; s < n; s++ {
		in := Tensors{}
		for i := range specs {
			in[names[i]] = mkIn(i, []int{s})
		}
		out, ok := run("single", in)
		if !ok {
			if !mayRefuse {
				return
			}
			anyRefused = true
			continue
		}
		for o, name := range outputs {
			if out[name].Dtype() == tensor.Bool {
				singleB[o] = append(singleB[o], zzReadElems[bool](out[name]))
			} else {
				single[o] = append(single[o], zzReadElems[float32](out[name]))
			}
			singleShape[o] = append([]int{}, out[name].Shape()...)
		}
	}
	// the batch, in the given order and reversed
	for _, order := range []string{"forward", "reversed", "as-a-view", "lazily-transposed"} {
		if order == "reversed" && n == 1 {
			continue
		}
		asView, asLazy = order == "as-a-view", order == "lazily-transposed"
		if asView && !(v.Has("views") && v.CBool("views")) || asLazy && !(v.Has("lazy") && v.CBool("lazy")) {
			continue
		}
		perm := make([]int, n)
		for s := range perm {
			perm[s] = s
			if order == "reversed" {
				perm[s] = n - 1 - s
			}
		}
		in := Tensors{}
		for i := range specs {
			in[names[i]] = mkIn(i, perm)
		}
		out, ok := run("batch-"+order, in)
		if mayRefuse {
			// a request that is refused for one of its samples alone is refused for the batch, and the other way round
			v.Assert("C16.refused-alone-iff-refused-in-the-batch:"+order, ok == !anyRefused)
			if !ok || anyRefused {
				continue
			}
		} else if !ok {
			return
		}
		for o, name := range outputs {
			if len(singleB[o]) > 0 {
				ordered := make([][]bool, n)
				for s := range perm {
					ordered[s] = singleB[o][perm[s]]
				}
				want, full := zzStackG(ordered, singleShape[o], outAxis[o])
				v.AssertTensor("C16.each-sample-as-alone:"+order+":"+name, out[name], full, want)
				continue
			}
			ordered := make([][]float32, n)
			for s := range perm {
				ordered[s] = single[o][perm[s]]
			}
			want, full := zzStackG(ordered, singleShape[o], outAxis[o])
			v.AssertTensor("C16.each-sample-as-alone:"+order+":"+name, out[name], full, want)
		}
	}
}

// zzReadElems returns the elements of a tensor in row-major order.
func zzReadElems[E any](t tensor.Tensor) []E {
	shape := t.Shape()
	n := zzverif.Prod(shape)
	out := make([]E, n)
	if len(shape) == 0 {
		out[0] = t.ScalarValue().(E)
		return out
	}
	for f := 0; f < n; f++ {
		x, err := t.At(zzverif.Unravel(f, shape)...)
		if err != nil {
			panic(err)
		}
		out[f] = x.(E)
	}
	return out
}

// zzStackG stacks per-sample data (each of shape `shape`, whose extent along axis is 1) along axis.
func zzStackG[E any](samples [][]E, shape []int, axis int) ([]E, []int) {
	n := len(samples)
	full := append([]int{}, shape...)
	full[axis] = n
	out := make([]E, zzverif.Prod(full))
	for f := range out {
		idx := zzverif.Unravel(f, full)
		s := idx[axis]
		idx[axis] = 0
		out[f] = samples[s][zzverif.Ravel(idx, shape)]
	}
	return out, full
}
