//go:build verif

package gonnx

import (
	"archive/zip"
	"bytes"
	"fmt"

	"github.com/advancedclimatesystems/gonnx/internal/zzverif"
	"github.com/advancedclimatesystems/gonnx/onnx"
	"github.com/advancedclimatesystems/gonnx/ops"
)

func init() {
	zzverif.Register("gonnx.H_C18_glue", H_C18_glue)
	zzverif.Register("gonnx.H_C18_newmodel", H_C18_newmodel)
	zzverif.Register("gonnx.H_C18_unknown_op", H_C18_unknown_op)
}

// zzZipFile wraps content as the only member of an in-memory zip archive (natively; the
// interpreter substitutes an opaque handle, Open is a nondeterministic stub there).
func zzZipFile(content []byte) *zip.File {
	var buf bytes.Buffer
	w := zip.NewWriter(&buf)
	f, _ := w.Create("model.onnx")
	f.Write(content)
	w.Close()
	r, err := zip.NewReader(bytes.NewReader(buf.Bytes()), int64(buf.Len()))
	if err != nil {
		panic(err)
	}
	return r.File[0]
}

// H_C18_glue: whatever the environment (file system, zip member, protobuf decoder) answers, the
// constructors return a model or an error - never both nil, never a panic.
//
// case: entry "bytes"|"file"|"zip"; content "garbage"|"empty"|"sample"
func H_C18_glue(v *zzverif.T) {
	var content []byte
	switch v.CStr("content") {
	case "garbage":
		content = []byte{0x0a, 0xff, 0xff, 0xff, 0xff, 0x0f, 0x01}
	case "truncated":
		content = []byte{0x3a, 0x10, 0x0a, 0x02}
	}
	if v.CStr("content") == "mutated" {
		// a small well-formed message (ir_version, two opset imports - one with a domain -, an empty graph) with ONE
		// byte replaced, at every position in turn: length prefixes that overrun their entry, wire types that do not
		// fit their field, cut-short varints
		valid := []byte{0x08, 0x07, 0x42, 0x02, 0x10, 0x0d, 0x42, 0x0e, 0x0a, 0x0a, 'a', 'i', '.', 'o', 'n', 'n', 'x', '.', 'm', 'l', 0x10, 0x02, 0x3a, 0x00}
		repl := byte(v.CInt("byte"))
		for pos := range valid {
			if pos != v.CInt("pos") {
				continue // one position per case (the decoder's answer is a branch point of its own)
			}
			content := append([]byte(nil), valid...)
			content[pos] = repl
			var m *Model
			var err error
			panicked := v.Try(func() { m, err = NewModelFromBytes(content) })
			v.Assert("C18.loading-never-panics", !panicked)
			if !panicked {
				v.Assert("C18.model-or-error", (m == nil) == (err != nil))
			}
		}
		return
	}
	var m *Model
	var err error
	panicked := v.Try(func() {
		switch v.CStr("entry") {
		case "bytes":
			m, err = NewModelFromBytes(content)
		case "file":
			m, err = NewModelFromFile("sample_models/onnx_models/" + v.CStr("file"))
		case "zip":
			m, err = NewModelFromZipFile(zzZipFile(content))
		}
	})
	v.Assert("C18.loading-never-panics", !panicked)
	if panicked {
		return
	}
	v.Assert("C18.model-or-error", (m == nil) == (err != nil))
}

// zzRawElemSize: bytes per element of the ONNX element types that gonnx reads from raw_data.
func zzRawElemSize(dt int) int {
	switch dt {
	case 2, 3, 9: // UINT8, INT8, BOOL
		return 1
	case 4, 5: // UINT16, INT16
		return 2
	case 1, 6, 12: // FLOAT, INT32, UINT32
		return 4
	}
	return 8 // INT64, DOUBLE, UINT64
}

// H_C18_newmodel: an arbitrary decoded message within the bounds either loads or is refused.
//
// case: nopset (0..3); graph (bool); ninit (0..2); n0, n1 (typed elements of each initializer); raw (bool: second payload raw); rawdt (its ONNX element type);
// ninfo (0..2 value infos with holes)
func H_C18_newmodel(v *zzverif.T) {
	mp := &onnx.ModelProto{}
	maxVersion := int64(0)
	for i := 0; i < v.CInt("nopset"); i++ {
		ver := zzverif.Sym[int64](v, fmt.Sprintf("opset%d", i))
		dom := ""
		if i == 1 {
			dom = "ai.onnx.ml"
		}
		mp.OpsetImport = append(mp.OpsetImport, &onnx.OperatorSetIdProto{Domain: dom, Version: ver})
		if ver > maxVersion {
			maxVersion = ver
		}
	}
	decodable := true
	// anydtype: the data_type of typed initializers ranges over ALL int32 values
	anyDtype := v.Has("anydtype") && v.CBool("anydtype")
	if v.CBool("graph") {
		g := &onnx.GraphProto{}
		for i := 0; i < v.CInt("ninit"); i++ {
			n := v.CInt(fmt.Sprintf("n%d", i))
			d0 := v.IntIn(fmt.Sprintf("dim%d", i), -1, 3)
			tp := &onnx.TensorProto{Name: fmt.Sprintf("w%d", i), Dims: []int64{int64(d0)}}
			if i == 1 && v.CBool("raw") {
				// raw little-endian payload of the element type the case names
				rawdt := v.CInt("rawdt")
				tp.DataType = int32(rawdt)
				tp.RawData = zzverif.Syms[byte](v, "raw", n)
				if d0 < 0 || n != zzRawElemSize(rawdt)*d0 {
					decodable = false
				}
				if v.Has("hugedims") {
					// extents far beyond anything that fits in memory: refused, never allocated
					tp.Dims = nil
					for _, d := range v.CInts("hugedims") {
						tp.Dims = append(tp.Dims, int64(d))
					}
					decodable = false
				}
			} else {
				tp.DataType = zzverif.Sym[int32](v, fmt.Sprintf("dtype%d", i))
				if anyDtype {
					decodable = false // (not predicted: only the no-panic and model-or-error assertions apply)
				} else {
					v.Assume(tp.DataType == 1 || tp.DataType == 7 || tp.DataType == 10 || tp.DataType == 0 || tp.DataType == 8)
				}
				tp.FloatData = zzverif.Syms[float32](v, fmt.Sprintf("f%d_", i), n)
				if i == 1 && v.Has("bothraw") {
					// BOTH encodings present: the typed field is the one that counts, whatever raw_data would say
					v.Assume(tp.DataType == 1)
					tp.RawData = zzverif.Syms[byte](v, "raw", v.CInt("bothraw"))
				}
				// FLOAT reads float_data; INT64 finds no int64_data and falls back to (empty) raw data;
				// the other codes are not representable (float_data populated: known C12 fallback)
				switch {
				case tp.DataType == 1:
					if d0 < 0 || n != d0 {
						decodable = false
					}
				case tp.DataType == 7:
					if d0 != 0 {
						decodable = false
					}
				default:
					v.Region("C18.unsupported-dtype-typed-fallback", n > 0)
					decodable = false
				}
			}
			if d0 == 0 {
				return // zero-element tensors are outside the tensor library's representable range: not claimed
			}
			g.Initializer = append(g.Initializer, tp)
		}
		for i := 0; i < v.CInt("ninfo"); i++ {
			vi := &onnx.ValueInfoProto{Name: fmt.Sprintf("in%d", i)}
			switch i {
			case 0: // type without tensor type
				vi.Type = &onnx.TypeProto{}
			case 1: // tensor type without shape
				vi.Type = &onnx.TypeProto{Value: &onnx.TypeProto_TensorType{TensorType: &onnx.TypeProto_Tensor{}}}
			case 2: // shape with an empty dimension
				vi.Type = &onnx.TypeProto{Value: &onnx.TypeProto_TensorType{TensorType: &onnx.TypeProto_Tensor{Shape: &onnx.TensorShapeProto{Dim: []*onnx.TensorShapeProto_Dimension{{}, nil}}}}}
			}
			g.Input = append(g.Input, vi)
			g.Output = append(g.Output, vi)
		}
		g.Input = append(g.Input, nil)
		if v.Has("sparse") && v.CBool("sparse") {
			// sparse initializers (a field the library may ignore or decode, never crash on): one value with an
			// arbitrary linearized index, one coordinate-format entry, and holes
			idx := zzverif.Sym[int64](v, "spidx")
			co := zzverif.Syms[int64](v, "spco", 2)
			fv := zzverif.Syms[float32](v, "spv", 1)
			g.SparseInitializer = []*onnx.SparseTensorProto{
				{Values: &onnx.TensorProto{Name: "s0", DataType: 1, Dims: []int64{1}, FloatData: append([]float32(nil), fv...)},
					Indices: &onnx.TensorProto{DataType: 7, Dims: []int64{1}, Int64Data: []int64{idx}}, Dims: []int64{2, 2}},
				{Values: &onnx.TensorProto{Name: "s1", DataType: 1, Dims: []int64{1}, FloatData: append([]float32(nil), fv...)},
					Indices: &onnx.TensorProto{DataType: 7, Dims: []int64{1, 2}, Int64Data: append([]int64(nil), co...)}, Dims: []int64{2, 2}},
				{Values: &onnx.TensorProto{Name: "s2", DataType: 1, Dims: []int64{1}, FloatData: append([]float32(nil), fv...)}, Dims: []int64{3}},
				{Dims: []int64{2}},
				nil,
			}
		}
		if v.Has("nodes") {
			// nodes whose attributes are there but not as the operator expects them (whatever the loader chooses to
			// look at before Run, it must not crash on): a Constant whose `value` has no tensor in it (the scalar sits
			// in `f`, or nothing at all), a Constant without attributes, attributes without a name, an empty node
			fv := zzverif.Sym[float32](v, "cf")
			switch v.CStr("nodes") {
			case "constant-value-without-tensor":
				g.Node = append(g.Node, &onnx.NodeProto{OpType: "Constant", Output: []string{"c"},
					Attribute: []*onnx.AttributeProto{{Name: "value", Type: onnx.AttributeProto_FLOAT, F: fv}}})
			case "constant-value-typed-tensor-absent":
				g.Node = append(g.Node, &onnx.NodeProto{OpType: "Constant", Output: []string{"c"},
					Attribute: []*onnx.AttributeProto{{Name: "value", Type: onnx.AttributeProto_TENSOR}}})
			case "constant-bare":
				g.Node = append(g.Node, &onnx.NodeProto{OpType: "Constant", Output: []string{"c"}})
				g.Node = append(g.Node, &onnx.NodeProto{OpType: "Constant"})
			case "constant-undecodable-tensor":
				g.Node = append(g.Node, &onnx.NodeProto{OpType: "Constant", Output: []string{"c"},
					Attribute: []*onnx.AttributeProto{{Name: "value", Type: onnx.AttributeProto_TENSOR, T: &onnx.TensorProto{DataType: 1, Dims: []int64{3}, FloatData: []float32{fv}}}}})
			case "odd-attributes":
				g.Node = append(g.Node, &onnx.NodeProto{OpType: "Gemm", Input: []string{"w0", "w0"}, Output: []string{"o"},
					Attribute: []*onnx.AttributeProto{{}, {Name: "alpha"}, {Name: "transA", Type: onnx.AttributeProto_TENSOR}, {Name: "value"}}})
				g.Node = append(g.Node, &onnx.NodeProto{})
			}
		}
		mp.Graph = g
	}
	var m *Model
	var err error
	panicked := v.Try(func() { m, err = NewModel(mp) })
	v.Assert("C18.loading-never-panics", !panicked)
	if panicked {
		return
	}
	v.Assert("C18.model-or-error", (m == nil) == (err != nil))
	expectErr := !decodable || maxVersion != 13
	if !anyDtype && !v.Has("nodes") {
		v.Assert("C18.refused-iff-undecodable-or-unsupported-opset", (err != nil) == expectErr)
	}
	if decodable && maxVersion != 13 {
		v.Assert("C18.unsupported-opset-error", err != nil && v.Is(err, ops.ErrUnsupportedOpsetVersion))
	}
	if m != nil {
		// introspection on whatever was loaded does not crash either
		p2 := v.Try(func() {
			_ = m.InputNames()
			_ = m.InputShapes()
			_ = m.OutputNames()
			_ = m.OutputShapes()
			_ = m.ParamNames()
		})
		v.Assert("C18.introspection-never-panics", !p2)
	}
}

// H_C18_unknown_op: an operator type outside the opset makes Run fail with the unsupported-operator
// error, wherever the node sits - it is neither skipped nor replaced.
//
// case: position (index of the unknown node among 3), dead (bool: its output is not used), name
func H_C18_unknown_op(v *zzverif.T) {
	name := v.CStr("name")
	if name == "fresh" {
		name = v.FreshString("optype")
	}
	pos := v.CInt("position")
	nodes := []*onnx.NodeProto{
		{OpType: "Relu", Input: []string{"x"}, Output: []string{"a"}},
		{OpType: "Abs", Input: []string{"a"}, Output: []string{"b"}},
	}
	unknown := &onnx.NodeProto{OpType: name, Input: []string{"x"}, Output: []string{"u"}}
	all := []*onnx.NodeProto{}
	for i := 0; i <= len(nodes); i++ {
		if i == pos {
			all = append(all, unknown)
		}
		if i < len(nodes) {
			all = append(all, nodes[i])
		}
	}
	if v.Has("names") {
		// node names need not be unique, and need not be there at all
		for i, n := range all {
			switch v.CStr("names") {
			case "same":
				n.Name = "act"
			case "distinct":
				n.Name = fmt.Sprintf("node%d", i)
			}
		}
	}
	outs := []*onnx.ValueInfoProto{{Name: "b"}}
	if !v.CBool("dead") {
		outs = append(outs, &onnx.ValueInfoProto{Name: "u"})
	}
	mp := &onnx.ModelProto{OpsetImport: []*onnx.OperatorSetIdProto{{Version: 13}},
		Graph: &onnx.GraphProto{Node: all, Input: []*onnx.ValueInfoProto{{Name: "x"}}, Output: outs}}
	m, err := NewModel(mp)
	v.Assert("C18.model-with-unknown-operator-loads", err == nil && m != nil)
	if err != nil {
		return
	}
	xs := zzverif.Syms[float32](v, "x", 2)
	var out Tensors
	var rerr error
	X := zzverif.NewTensor(xs, []int{2})
	// twice with the very same tensor object: a refusal is not forgotten the second time
	for _, tag := range []string{"", ":again-with-the-same-tensor"} {
		panicked := v.Try(func() { out, rerr = m.Run(Tensors{"x": X}) })
		v.Assert("C18.no-panic"+tag, !panicked)
		if panicked {
			return
		}
		v.Assert("C18.unknown-operator-makes-Run-fail"+tag, rerr != nil && out == nil)
		v.Assert("C18.with-the-unsupported-operator-error"+tag, rerr != nil && v.Is(rerr, ops.ErrUnsupportedOperator))
	}
}
