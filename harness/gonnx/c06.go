//go:build verif

package gonnx

import (
	"github.com/advancedclimatesystems/gonnx/internal/zzverif"
)

func init() {
	zzverif.Register("gonnx.H_C06_model", H_C06_model)
}

// H_C06_model: a sequence cut in two inside ONE graph. The graph evaluates a recurrent operator on the
// whole sequence and, next to it, on the two pieces with the state handed from the first piece to the
// second through node outputs and inputs (omitted outputs and skipped optional inputs spelled ""). The
// pairs of graph outputs named in "equal" must be the same tensors.
//
// case: the graph lists of H_C01 (inits may be int64); equal: []string "a=b"
func H_C06_model(v *zzverif.T) {
	v.Ring()
	g := zzReadGraph(v)
	var inits []zzTData
	for _, spec := range g.inits {
		inits = append(inits, zzParseSpec(v, spec, "init_"))
	}
	var m *Model
	var err error
	p := v.Try(func() { m, err = NewModel(zzBuildModel(g, inits)) })
	v.Assert("C06.model.loads", !p && err == nil && m != nil)
	if p || err != nil {
		return
	}
	in := Tensors{}
	for _, spec := range g.inputs {
		d := zzParseSpec(v, spec, "in_")
		in[d.name] = d.zzTensor()
	}
	var out Tensors
	p = v.Try(func() { out, err = m.Run(in) })
	v.Assert("C06.model.no-panic", !p)
	if p {
		return
	}
	v.Assert("C06.model.pieces-and-whole-evaluate", err == nil)
	if err != nil {
		return
	}
	for _, eq := range v.CStrs("equal") {
		ab := zzSplit(eq, '=')
		v.AssertSameTensor("C06.model.two-pieces-equal-the-whole:"+eq, out[ab[0]], out[ab[1]])
	}
}
