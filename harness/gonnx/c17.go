//go:build verif

package gonnx

import (
	"fmt"

	"github.com/advancedclimatesystems/gonnx/internal/zzverif"
	"github.com/advancedclimatesystems/gonnx/onnx"
)

func init() {
	zzverif.Register("gonnx.H_C17", H_C17)
}

// H_C17: the sequential frame condition that makes concurrent Runs on one Model race free.
//
// If a Run - for every input - writes nothing that is reachable from the Model (its fields, the
// decoded ModelProto, the parameter map, the weights' metadata and data) and no package-level
// variable, then concurrent Runs with private inputs only READ shared memory: by the Go memory
// model that is not a data race, and each Run computes the function of (model, inputs) it computes
// alone. Loading another model must likewise write nothing shared.
//
// case: as H_C02 (graph lists, inputs, inputsB, mode), or sample = "mlp"|"gru"|"scaler" with batched specs
func H_C17(v *zzverif.T) {
	if v.CStr("mode") != "ieee" {
		v.Ring()
	}
	var mp *onnx.ModelProto
	var inA, inB []zzTData
	if s := v.CStr("sample"); s != "" {
		mp = zzSampleModelProto(s)
		for _, spec := range v.CStrs("inputs") {
			inA = append(inA, zzParseSpec(v, spec, "a_"))
			inB = append(inB, zzParseSpec(v, spec, "b_"))
		}
	} else {
		g := zzReadGraph(v)
		var inits []zzTData
		for _, spec := range g.inits {
			inits = append(inits, zzParseSpec(v, spec, "init_"))
		}
		for _, spec := range g.inputs {
			inA = append(inA, zzParseSpec(v, spec, "a_"))
		}
		for _, spec := range v.CStrs("inputsB") {
			inB = append(inB, zzParseSpec(v, spec, "b_"))
		}
		mp = zzBuildModel(g, inits)
	}
	var m *Model
	var err error
	p := v.Try(func() { m, err = NewModel(mp) })
	v.Assert("C17.model-loads", !p && err == nil && m != nil)
	if p || err != nil {
		return
	}
	// everything shared between goroutines that run this Model
	v.ProtectAll("the Model", m)
	v.ProtectPackageState()

	// another goroutine of the application fills tensors it got from the library's exported helpers: they are its own
	zzUseExportedHelpers(v)
	v.AssertNoWrites("C17.exported-helpers-hand-out-private-tensors")

	// loading a further model (here: the same description again, as another goroutine would)
	var m2 *Model
	p = v.Try(func() { m2, err = NewModel(mp) })
	v.Assert("C17.second-model-loads", !p && err == nil && m2 != nil)
	v.AssertNoWrites("C17.loading-another-model-writes-nothing-shared")

	for round, ds := range [][]zzTData{inA, inB, inA} {
		if len(ds) == 0 && round > 0 {
			continue
		}
		in := Tensors{}
		for _, d := range ds {
			in[d.name] = d.zzTensor() // private to this Run
			if v.Has("lazyT") && v.CStr("lazyT") == d.name {
				in[d.name] = d.zzLazyT()
			}
		}
		var rerr error
		p = v.Try(func() { _, rerr = m.Run(in) })
		v.Assert("C17.no-panic", !p)
		if p {
			return
		}
		v.Assert("C17.run-succeeds", rerr == nil)
		v.AssertNoWrites("C17.a-Run-writes-nothing-reachable-from-the-Model-or-package-state")
	}
	// a Run that fails inside a node (inputs that pass the signature check but do not fit one another)
	if v.Has("inputsBad") && len(v.CStrs("inputsBad")) > 0 {
		in := Tensors{}
		for _, spec := range v.CStrs("inputsBad") {
			d := zzParseSpec(v, spec, "bad_")
			in[d.name] = d.zzTensor()
		}
		p = v.Try(func() { _, _ = m.Run(in) })
		v.Assert("C17.no-panic", !p)
		v.AssertNoWrites("C17.a-failing-Run-writes-nothing-shared")
	}
	// a Run refused for the element type of a tensor (the right shape, booleans where numbers are expected)
	if len(inA) > 0 && inA[0].kind == "f32" {
		in := Tensors{}
		for i, d := range inA {
			in[d.name] = d.zzTensor()
			if i == 0 {
				in[d.name] = zzverif.NewTensor(make([]bool, zzverif.Prod(d.shape)), d.shape)
			}
		}
		p = v.Try(func() { _, _ = m.Run(in) })
		v.Assert("C17.no-panic", !p)
		v.AssertNoWrites("C17.a-failing-Run-writes-nothing-shared")
	}
	// a failing Run (no inputs at all) must not write either
	if len(inA) > 0 {
		p = v.Try(func() { _, _ = m.Run(Tensors{}) })
		v.Assert("C17.no-panic", !p)
		v.AssertNoWrites("C17.a-failing-Run-writes-nothing-shared")
	}
}

func init() { zzverif.Register("gonnx.H_C17_race", H_C17_race) }

// H_C17_race is the native confirmation of a frame-condition counterexample: the same model is run
// from several goroutines with private inputs under the race detector (go test -race). It is only
// ever executed natively.
func H_C17_race(v *zzverif.T) {
	var mp *onnx.ModelProto
	var specs []string
	if s := v.CStr("sample"); s != "" {
		mp = zzSampleModelProto(s)
		specs = v.CStrs("inputs")
	} else {
		g := zzReadGraph(v)
		var inits []zzTData
		for _, spec := range g.inits {
			inits = append(inits, zzParseSpec(v, spec, "init_"))
		}
		specs = g.inputs
		mp = zzBuildModel(g, inits)
	}
	m, err := NewModel(mp)
	if err != nil {
		return
	}
	// what each goroutine's inputs give on a model nobody else uses
	alone, err := NewModel(mp)
	if err != nil {
		return
	}
	const G = 8
	type work struct {
		ds   []zzTData
		want Tensors
		werr error
	}
	ws := make([]work, G)
	for k := range ws {
		for _, spec := range specs {
			ws[k].ds = append(ws[k].ds, zzParseSpec(v, spec, "a_"))
		}
		in := Tensors{}
		for _, d := range ws[k].ds {
			in[d.name] = d.zzTensor()
		}
		func() {
			defer func() { _ = recover() }()
			ws[k].want, ws[k].werr = alone.Run(in)
		}()
	}
	same := func(a, b Tensors) bool {
		if len(a) != len(b) {
			return false
		}
		for name, ta := range a {
			tb, ok := b[name]
			if !ok || (ta == nil) != (tb == nil) {
				return false
			}
			if ta == nil {
				continue
			}
			if !ta.Shape().Eq(tb.Shape()) || ta.Dtype() != tb.Dtype() {
				return false
			}
			if fmt.Sprint(ta.Data()) != fmt.Sprint(tb.Data()) {
				return false
			}
		}
		return true
	}
	done := make(chan bool)
	bad := make(chan string, G+1)
	lazyName := ""
	if v.Has("lazyT") {
		lazyName = v.CStr("lazyT")
	}
	for k := 0; k < G; k++ {
		w := ws[k]
		lazy := lazyName != "" && k%2 == 0 // every second goroutine hands that input over lazily transposed
		go func() {
			defer func() {
				if r := recover(); r != nil {
					bad <- fmt.Sprint("panic: ", r)
				}
				done <- true
			}()
			for i := 0; i < 50; i++ {
				in := Tensors{}
				for _, d := range w.ds {
					in[d.name] = d.zzTensor()
					if lazy && d.name == lazyName && len(d.shape) == 2 {
						in[d.name] = d.zzLazyT()
					}
				}
				got, gerr := m.Run(in)
				if (gerr != nil) != (w.werr != nil) || (gerr == nil && !same(got, w.want)) {
					bad <- "a concurrent Run differs from the same Run on a model of its own"
					return
				}
			}
		}()
	}
	// one more goroutine of the application works on tensors of its own, obtained from exported helpers
	go func() {
		defer func() { _ = recover(); done <- true }()
		for i := 0; i < 50; i++ {
			zzAppWorksOnHelperTensors(i)
		}
	}()
	// one more goroutine keeps making requests that are refused (missing input, wrong element type)
	go func() {
		defer func() { _ = recover(); done <- true }()
		for i := 0; i < 50; i++ {
			_, _ = m.Run(Tensors{})
			in := Tensors{}
			for j, d := range ws[0].ds {
				in[d.name] = d.zzTensor()
				if j == 0 {
					in[d.name] = zzverif.NewTensor(make([]bool, zzverif.Prod(d.shape)), d.shape)
				}
			}
			_, _ = m.Run(in)
		}
	}()
	for k := 0; k < G+2; k++ {
		<-done
	}
	select {
	case msg := <-bad:
		v.Assert("C17.concurrent-runs-compute-what-they-compute-alone: "+msg, false)
	default:
	}
}
