//go:build verif

// requires: ops/*.go: func ZeroTensor\(shape \.\.\.int\) tensor\.Tensor
// requires: ops/*.go: func OnesTensor\(t tensor\.Tensor\) tensor\.Tensor

package gonnx

import (
	"github.com/advancedclimatesystems/gonnx/internal/zzverif"
	"github.com/advancedclimatesystems/gonnx/ops"
	"gorgonia.org/tensor"
)

// zzUseExportedHelpers: an application fills tensors obtained from ops.ZeroTensor / ops.OnesTensor with its own data.
func zzUseExportedHelpers(v *zzverif.T) {
	scratch := zzverif.Syms[float32](v, "app_scratch", 8)
	z := ops.ZeroTensor(4, 2)
	o := ops.OnesTensor(z)
	for i, x := range scratch {
		z.(*tensor.Dense).Set(i, x)
		o.(*tensor.Dense).Set(i, x)
	}
}

// zzAppWorksOnHelperTensors: the same, with plain numbers (used from a goroutine of the concurrent harness).
func zzAppWorksOnHelperTensors(i int) {
	z := ops.ZeroTensor(4, 2)
	o := ops.OnesTensor(z)
	for j := 0; j < 8; j++ {
		z.(*tensor.Dense).Set(j, float32(i+j))
		o.(*tensor.Dense).Set(j, float32(i-j))
	}
}
