//go:build verif

package gonnx

import (
	"fmt"

	"github.com/advancedclimatesystems/gonnx/internal/zzverif"
	"github.com/advancedclimatesystems/gonnx/onnx"
	"github.com/advancedclimatesystems/gonnx/ops"
	"gorgonia.org/tensor"
)

func init() {
	zzverif.Register("gonnx.H_C13", H_C13)
}

func zzValueInfo(name string, dims []*onnx.TensorShapeProto_Dimension) *onnx.ValueInfoProto {
	return &onnx.ValueInfoProto{
		Name: name,
		Type: &onnx.TypeProto{Value: &onnx.TypeProto_TensorType{TensorType: &onnx.TypeProto_Tensor{
			ElemType: 1,
			Shape:    &onnx.TensorShapeProto{Dim: dims},
		}}},
	}
}

// H_C13: Run accepts exactly the input sets that satisfy the declared signature.
//
// case: kinds  []string  per declared input, one letter per dimension:
//
//	F fixed dim_value (symbolic, >= 1), D dim_param, U neither
//	sup    []int     per declared input: rank of the supplied tensor, -1 = not supplied
//	init   []int     per declared input: 1 = also an initializer
//	extra  int       1 = an additional tensor under an undeclared name is supplied
//	mutate int       1 = the caller scribbles over the shapes returned by InputShapes() before Run
//	bare   int       1 = unsupplied inputs shadowed by initializers are not graph outputs either (nothing reads them)
func H_C13(v *zzverif.T) {
	v.MapOrders()
	kinds := v.CStrs("kinds")
	sup := v.CInts("sup")
	isInit := v.CInts("init")
	n := len(kinds)

	declared := make([][]int64, n) // fixed values (0 where not fixed)
	var inputs []*onnx.ValueInfoProto
	var outputs []*onnx.ValueInfoProto
	var inits []*onnx.TensorProto
	names := make([]string, n)
	for i := 0; i < n; i++ {
		names[i] = fmt.Sprintf("in%d", i)
		var dims []*onnx.TensorShapeProto_Dimension
		declared[i] = make([]int64, len(kinds[i]))
		for k := 0; k < len(kinds[i]); k++ {
			switch kinds[i][k] {
			case 'F':
				d := v.Int64In(fmt.Sprintf("decl%d_%d", i, k), 1, 9223372036854775807)
				declared[i][k] = d
				dims = append(dims, &onnx.TensorShapeProto_Dimension{Value: &onnx.TensorShapeProto_Dimension_DimValue{DimValue: d}})
			case 'D':
				dims = append(dims, &onnx.TensorShapeProto_Dimension{Value: &onnx.TensorShapeProto_Dimension_DimParam{DimParam: "batch"}})
			default:
				dims = append(dims, &onnx.TensorShapeProto_Dimension{})
			}
		}
		vi := zzValueInfo(names[i], dims)
		if i == 0 && v.Has("elem") {
			// the first input is declared with another element type (BOOL, INT64, DOUBLE) and is supplied with a
			// tensor of exactly that type
			vi.Type.Value.(*onnx.TypeProto_TensorType).TensorType.ElemType = map[string]int32{"bool": 9, "int64": 7, "float64": 11}[v.CStr("elem")]
		}
		inputs = append(inputs, vi)
		if isInit[i] == 1 {
			inits = append(inits, &onnx.TensorProto{Name: names[i], DataType: 1, Dims: []int64{1}, FloatData: []float32{0.5}})
		}
		// (bare = 1: an unsupplied input that an initializer shadows is read by nothing - no node, no output)
		if sup[i] >= 0 || (isInit[i] == 1 && !(v.Has("bare") && v.CInt("bare") == 1)) {
			outputs = append(outputs, zzValueInfo(names[i], nil))
		}
	}
	mp := &onnx.ModelProto{
		OpsetImport: []*onnx.OperatorSetIdProto{{Version: 13}},
		Graph:       &onnx.GraphProto{Input: inputs, Output: outputs, Initializer: inits},
	}
	m, err := NewModel(mp)
	v.Assert("C13.model-loads", err == nil && m != nil)
	if err != nil {
		return
	}

	// introspection reports what was declared
	gotNames := m.InputNames()
	v.Assert("C13.names-len", len(gotNames) == n)
	for i := 0; i < n && i < len(gotNames); i++ {
		v.Assert("C13.names", gotNames[i] == names[i])
	}
	shapes := m.InputShapes()
	for i := 0; i < n; i++ {
		sh, ok := shapes[names[i]]
		v.Assert("C13.shape-present", ok && len(sh) == len(kinds[i]))
		if !ok || len(sh) != len(kinds[i]) {
			continue
		}
		for k := 0; k < len(kinds[i]); k++ {
			if kinds[i][k] == 'F' {
				v.Assert("C13.shape-fixed", !sh[k].IsDynamic && sh[k].Size == declared[i][k])
				sz, derr := m.InputDimSize(names[i], k)
				v.Assert("C13.dimsize-fixed", derr == nil && int64(sz) == declared[i][k])
			} else {
				v.Assert("C13.shape-dynamic", sh[k].IsDynamic)
			}
		}
		_, derr := m.InputDimSize(names[i], len(kinds[i]))
		v.Assert("C13.dimsize-out-of-range", derr != nil)
	}
	_, derr := m.InputDimSize("zz_unknown", 0)
	v.Assert("C13.dimsize-unknown-input", derr != nil)

	if v.CInt("mutate") == 1 {
		// a caller may do whatever it likes with the returned description
		for i := 0; i < n; i++ {
			sh := shapes[names[i]]
			for k := range sh {
				sh[k].Size = sh[k].Size + 1
				sh[k].IsDynamic = !sh[k].IsDynamic
			}
		}
		delete(shapes, names[0])
	}

	// supplied tensors
	in := Tensors{}
	supplied := make([]tensor.Tensor, n)
	expectErr := false
	for i := 0; i < n; i++ {
		if sup[i] < 0 {
			if isInit[i] != 1 {
				expectErr = true
			}
			continue
		}
		dims := make([]int, sup[i])
		for k := range dims {
			dims[k] = v.IntIn(fmt.Sprintf("sup%d_%d", i, k), 0, 6) // 0: an empty axis
		}
		t := v.ShapeTensor(names[i], dims)
		if i == 0 && v.Has("view") && v.CInt("view") == 1 && sup[i] == 2 {
			// a non-contiguous window on a larger tensor: shape (4,2) cut out of (4,3); the signature is about
			// the shape, not about how the elements are stored
			base := zzverif.NewTensor(make([]float32, 12), []int{4, 3})
			w, serr := base.Slice(nil, ops.NewSlicer(1, 3))
			if serr != nil {
				panic(serr)
			}
			t = w
			dims[0], dims[1] = 4, 2
		}
		if i == 0 && v.Has("elem") {
			for k := range dims {
				dims[k] = 2 + k
			}
			switch v.CStr("elem") {
			case "bool":
				t = zzverif.NewTensor(make([]bool, zzverif.Prod(dims)), dims)
			case "int64":
				t = zzverif.NewTensor(make([]int64, zzverif.Prod(dims)), dims)
			case "float64":
				t = zzverif.NewTensor(make([]float64, zzverif.Prod(dims)), dims)
			}
		}
		if i == 0 && v.Has("view") && v.CInt("view") == 2 && sup[i] == 2 {
			// a lazily transposed tensor: stored as (3,2), handed over as its (2,3) transpose without Transpose()
			lt := zzverif.NewTensor([]float32{1, 2, 3, 4, 5, 6}, []int{3, 2})
			if terr := lt.(*tensor.Dense).T(); terr != nil {
				panic(terr)
			}
			t = lt
			dims[0], dims[1] = 2, 3
		}
		supplied[i] = t
		in[names[i]] = t
		if isInit[i] == 1 {
			continue // an initializer shadows the declaration: nothing is required of the caller's tensor
		}
		if sup[i] != len(kinds[i]) {
			expectErr = true
			continue
		}
		for k := 0; k < len(kinds[i]); k++ {
			if kinds[i][k] == 'F' && declared[i][k] != int64(dims[k]) {
				expectErr = true
			}
		}
	}
	if v.CInt("extra") == 1 {
		in["zz_extra"] = v.ShapeTensor("zz_extra", []int{2})
	}

	// accepted or refused, the request's tensors are left as they were (shape, strides, layout, elements)
	// (checked for the tensors that carry data: the view and the lazily transposed one; the others are shape-only)
	snaps := make([]*zzverif.Snap, n)
	withData := v.Has("view") && v.CInt("view") > 0
	if withData && n > 0 && supplied[0] != nil {
		snaps[0] = v.Snapshot(supplied[0])
	}
	out, rerr := m.Run(in)
	if snaps[0] != nil {
		v.AssertUnchanged("C13.request-tensors-left-as-they-were", supplied[0], snaps[0])
	}
	v.Assert("C13.error-iff-signature-violated", (rerr != nil) == expectErr)
	if rerr != nil {
		v.Assert("C13.no-outputs-on-error", out == nil)
		return
	}
	for i := 0; i < n; i++ {
		if sup[i] >= 0 && isInit[i] != 1 {
			got, ok := out[names[i]]
			v.Assert("C13.accepted-tensor-passed-through", ok && got == supplied[i])
		}
	}
}
