//go:build verif

// requires: model.go: \n\tparameters +Tensors

package gonnx

import "gorgonia.org/tensor"

// zzModelParam: the weight tensor the Model holds under a name (nil when there is none).
func zzModelParam(m *Model, name string) tensor.Tensor { return m.parameters[name] }

const zzModelParamsVisible = true
