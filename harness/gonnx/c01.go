//go:build verif

package gonnx

import (
	"github.com/advancedclimatesystems/gonnx/internal/zzverif"
	"github.com/advancedclimatesystems/gonnx/onnx"
	"github.com/advancedclimatesystems/gonnx/ops/opset13"
	"gorgonia.org/tensor"
)

func init() {
	zzverif.Register("gonnx.H_C01", H_C01)
}

func zzSplit(s string, sep byte) []string {
	out := []string{}
	start := 0
	for i := 0; i < len(s); i++ {
		if s[i] == sep {
			out = append(out, s[start:i])
			start = i + 1
		}
	}
	return append(out, s[start:])
}

func zzAtoi(s string) int {
	n, neg := 0, false
	for i := 0; i < len(s); i++ {
		if s[i] == '-' {
			neg = true
			continue
		}
		n = n*10 + int(s[i]-'0')
	}
	if neg {
		return -n
	}
	return n
}

// zzParseTensorSpec: "name:2,3" -> name, shape ("name:" is a scalar)
func zzParseTensorSpec(spec string) (string, []int) {
	p := zzSplit(spec, ':')
	shape := []int{}
	if len(p) > 1 && p[1] != "" {
		for _, d := range zzSplit(p[1], ',') {
			shape = append(shape, zzAtoi(d))
		}
	}
	return p[0], shape
}

// zzParseAttrs: "transB=1;perm=1,0;activations=relu,relu" -> attributes
func zzParseAttrs(spec string) []*onnx.AttributeProto {
	var out []*onnx.AttributeProto
	if spec == "" {
		return out
	}
	for _, kv := range zzSplit(spec, ';') {
		p := zzSplit(kv, '=')
		name, val := p[0], p[1]
		switch name {
		case "perm", "axes", "pads", "strides", "dilations", "kernel_shape":
			var is []int64
			if val != "" { // "perm=" is the attribute with an empty list
				for _, x := range zzSplit(val, ',') {
					is = append(is, int64(zzAtoi(x)))
				}
			}
			out = append(out, &onnx.AttributeProto{Name: name, Type: onnx.AttributeProto_INTS, Ints: is})
		case "auto_pad", "direction":
			out = append(out, &onnx.AttributeProto{Name: name, Type: onnx.AttributeProto_STRING, S: []byte(val)})
		case "activations":
			var ss [][]byte
			for _, x := range zzSplit(val, ',') {
				ss = append(ss, []byte(x))
			}
			out = append(out, &onnx.AttributeProto{Name: name, Type: onnx.AttributeProto_STRINGS, Strings: ss})
		case "coefficients", "intercepts", "offset", "scale":
			var fs []float32
			for _, x := range zzSplit(val, ',') {
				fs = append(fs, float32(zzAtoi(x)))
			}
			out = append(out, &onnx.AttributeProto{Name: name, Type: onnx.AttributeProto_FLOATS, Floats: fs})
		case "value_raw":
			// a TENSOR attribute "value" stored as raw bytes: "<data_type code>:<n elements>:<hex bytes>"
			f := zzSplit(val, ':')
			var raw []byte
			hex := f[2]
			nib := func(c byte) byte {
				if c >= 'a' {
					return c - 'a' + 10
				}
				return c - '0'
			}
			for i := 0; i+1 < len(hex); i += 2 {
				raw = append(raw, nib(hex[i])<<4|nib(hex[i+1]))
			}
			out = append(out, &onnx.AttributeProto{Name: "value", Type: onnx.AttributeProto_TENSOR, T: &onnx.TensorProto{DataType: int32(zzAtoi(f[0])), Dims: []int64{int64(zzAtoi(f[1]))}, RawData: raw}})
		case "value_float", "alpha", "beta":
			out = append(out, &onnx.AttributeProto{Name: name, Type: onnx.AttributeProto_FLOAT, F: float32(zzAtoi(val))})
		default:
			out = append(out, &onnx.AttributeProto{Name: name, Type: onnx.AttributeProto_INT, I: int64(zzAtoi(val))})
		}
	}
	return out
}

func zzFloatValueInfo(name string, shape []int) *onnx.ValueInfoProto {
	var dims []*onnx.TensorShapeProto_Dimension
	for _, d := range shape {
		dims = append(dims, &onnx.TensorShapeProto_Dimension{Value: &onnx.TensorShapeProto_Dimension_DimValue{DimValue: int64(d)}})
	}
	return zzValueInfo(name, dims)
}

// zzGraph is a graph given as parallel string lists.
type zzGraph struct {
	ops, ins, outs, attrs []string
	inputs, inits         []string // "name:shape"
	outputs               []string
}

func zzReadGraph(v *zzverif.T) zzGraph {
	return zzGraph{ops: v.CStrs("ops"), ins: v.CStrs("ins"), outs: v.CStrs("outs"), attrs: v.CStrs("attrs"),
		inputs: v.CStrs("inputs"), inits: v.CStrs("inits"), outputs: v.CStrs("outputs")}
}

func (g zzGraph) zzNames(specs []string, i int) []string {
	if specs[i] == "" {
		return nil
	}
	return zzSplit(specs[i], ',')
}

// zzModelProto builds the ModelProto; inits are the parsed initializers (float32 symbolic, int64 concrete, bool).
func (g zzGraph) zzModelProto(inits []zzTData) *onnx.ModelProto {
	gp := &onnx.GraphProto{}
	for _, spec := range g.inputs {
		name, shape := zzParseTensorSpec(spec)
		gp.Input = append(gp.Input, zzFloatValueInfo(name, shape))
	}
	for _, d := range inits {
		gp.Initializer = append(gp.Initializer, d.zzProto())
	}
	for _, name := range g.outputs {
		gp.Output = append(gp.Output, zzValueInfo(name, nil))
	}
	for i, op := range g.ops {
		gp.Node = append(gp.Node, &onnx.NodeProto{OpType: op, Input: g.zzNames(g.ins, i), Output: g.zzNames(g.outs, i), Attribute: zzParseAttrs(g.attrs[i])})
	}
	return &onnx.ModelProto{OpsetImport: []*onnx.OperatorSetIdProto{{Version: 13}}, Graph: gp}
}

// zzReference evaluates the graph independently of Model.Run: an environment keyed by name,
// results bound by position, "" = absent.
func (g zzGraph) zzReference(env map[string]tensor.Tensor) (map[string]tensor.Tensor, error) {
	for i, opType := range g.ops {
		op, err := opset13.GetOperator(opType)
		if err != nil {
			return nil, err
		}
		outNames := g.zzNames(g.outs, i)
		if err := op.Init(&onnx.NodeProto{OpType: opType, Input: g.zzNames(g.ins, i), Output: outNames, Attribute: zzParseAttrs(g.attrs[i])}); err != nil {
			return nil, err
		}
		var in []tensor.Tensor
		for _, name := range g.zzNames(g.ins, i) {
			if name == "" {
				in = append(in, nil)
				continue
			}
			t, ok := env[name]
			if !ok {
				return nil, ErrModel("reference: no tensor for %v", name)
			}
			// every operator gets private copies: the reference is about VALUES, so an operator that
			// writes into one of its inputs cannot influence what a later node reads here
			in = append(in, t.Clone().(tensor.Tensor))
		}
		in, err = op.ValidateInputs(in)
		if err != nil {
			return nil, err
		}
		res, err := op.Apply(in)
		if err != nil {
			return nil, err
		}
		if len(res) != len(outNames) {
			return nil, ErrModel("reference: operator returned another number of results than the node has outputs")
		}
		for k, name := range outNames {
			if name != "" {
				env[name] = res[k]
			}
		}
	}
	return env, nil
}

// H_C01: Run computes the dataflow composition of the graph.
//
// case: ops, ins, outs, attrs (one entry per node; ins/outs comma separated, "" = absent);
// inputs, inits ("name:shape"); outputs; supplied (names the caller passes)
func H_C01(v *zzverif.T) {
	v.Ring()
	g := zzReadGraph(v)
	// symbolic data for caller inputs and initializers (int64 initializers - axes, indices, shapes - are concrete)
	var inits []zzTData
	for _, spec := range g.inits {
		inits = append(inits, zzParseSpec(v, spec, "init_"))
	}
	var m *Model
	var lerr error
	mp := g.zzModelProto(inits)
	if v.Has("dyninputs") && v.CBool("dyninputs") {
		// the graph inputs are declared with symbolic dimensions only (any extents fit the signature)
		for _, vi := range mp.Graph.Input {
			sh := vi.Type.Value.(*onnx.TypeProto_TensorType).TensorType.Shape
			for k := range sh.Dim {
				sh.Dim[k] = &onnx.TensorShapeProto_Dimension{Value: &onnx.TensorShapeProto_Dimension_DimParam{DimParam: "n" + string(rune('0'+k))}}
			}
		}
	}
	if v.Has("opsets") {
		// opset imports as "domain=version" (default: the default domain spelled "")
		mp.OpsetImport = nil
		for _, o := range v.CStrs("opsets") {
			kv := zzSplit(o, '=')
			mp.OpsetImport = append(mp.OpsetImport, &onnx.OperatorSetIdProto{Domain: kv[0], Version: int64(zzAtoi(kv[1]))})
		}
	}
	panicked := v.Try(func() { m, lerr = NewModel(mp) })
	v.Assert("C01.model-loads", !panicked && lerr == nil)
	if panicked || lerr != nil {
		return
	}
	// one Run with the named inputs supplied by the caller (the others left to their initializer defaults),
	// compared with the reference composition; "supplied2" (optional): a second Run on the same Model with
	// another choice of supplied inputs
	round := func(tag, prefix string, supplied []string) bool {
		var caller []zzTData
		for _, spec := range g.inputs {
			name, _ := zzParseTensorSpec(spec)
			for _, s := range supplied {
				if s == name {
					caller = append(caller, zzParseSpec(v, spec, prefix))
				}
			}
		}
		in := Tensors{}
		refEnv := map[string]tensor.Tensor{}
		// the reference gets its own tensor objects
		for _, d := range inits {
			refEnv[d.name] = d.zzTensor()
		}
		for _, d := range caller {
			in[d.name] = d.zzTensor()
			if v.Has("lazyT") && v.CStr("lazyT") == d.name {
				in[d.name] = d.zzLazyT() // handed over lazily transposed (x.T() without Transpose())
			}
			refEnv[d.name] = d.zzTensor() // a caller tensor overrides the initializer default
		}
		var out Tensors
		var rerr error
		panicked = v.Try(func() { out, rerr = m.Run(in) })
		v.Assert("C01.no-panic"+tag, !panicked)
		if panicked {
			return false
		}
		var ref map[string]tensor.Tensor
		var referr error
		refPanicked := v.Try(func() { ref, referr = g.zzReference(refEnv) })
		v.Assert("C01.reference-no-panic"+tag, !refPanicked)
		if refPanicked {
			return false
		}
		if referr == nil {
			for _, name := range g.outputs {
				if t, ok := ref[name]; !ok || t == nil {
					// a declared output that nothing produces: "present and non-nil, or Run reports an error"
					referr = ErrModel("reference: declared output %v is never produced", name)
				}
			}
		}
		if v.Has("evaluates") && v.CBool("evaluates") {
			// a well-formed graph of supported operators on fitting shapes: it is evaluated, not refused
			v.Assert("C01.well-formed-graph-is-evaluated"+tag, rerr == nil)
		}
		v.Assert("C01.error-iff-the-composition-fails"+tag, (rerr != nil) == (referr != nil))
		if rerr != nil || referr != nil {
			return false
		}
		v.Assert("C01.exactly-the-declared-outputs"+tag, len(out) == len(g.outputs))
		for _, name := range g.outputs {
			got, ok := out[name]
			want, wok := ref[name]
			if !wok {
				// a declared output that no node, input or initializer produces: nothing sensible can be returned
				v.Assert("C01.unproduced-output-is-absent"+tag, !ok || got == nil)
				continue
			}
			v.Assert("C01.declared-output-present-and-non-nil"+tag, ok && got != nil)
			if ok && got != nil {
				v.AssertSameTensor("C01.output-equals-composition"+tag+":"+name, got, want)
			}
		}
		return true
	}
	if !round("", "in_", v.CStrs("supplied")) {
		return
	}
	if v.Has("supplied2") {
		round(":second-run", "in2_", v.CStrs("supplied2"))
	}
}
