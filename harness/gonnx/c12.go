//go:build verif

package gonnx

import (
	"math"

	"github.com/advancedclimatesystems/gonnx/internal/zzverif"
	"github.com/advancedclimatesystems/gonnx/onnx"
)

func init() {
	zzverif.Register("gonnx.H_C12_model", H_C12_model)
}

func zzLE32m(raw []byte, i int) uint32 {
	return uint32(raw[4*i]) | uint32(raw[4*i+1])<<8 | uint32(raw[4*i+2])<<16 | uint32(raw[4*i+3])<<24
}

// H_C12_model: decoding is a function of the description alone. The same *ModelProto is loaded twice
// (and its initializers decoded directly in between); every load yields the same weights, exactly the
// described values, and the description itself is left as it was.
//
// case: n (elements per initializer); typed (bool: the second initializer uses float_data instead of raw);
// defaulted (bool, optional: the float initializer is also a declared graph input)
func H_C12_model(v *zzverif.T) {
	n := v.CInt("n")
	raw := zzverif.Data[byte](v, "raw", 4*n)
	fl := zzverif.Data[float32](v, "f", n)
	mk := func() *onnx.ModelProto {
		a := &onnx.TensorProto{Name: "a", DataType: 6, Dims: []int64{int64(n)}, RawData: append([]byte(nil), raw...)}
		b := &onnx.TensorProto{Name: "b", DataType: 1, Dims: []int64{1, int64(n)}}
		if v.CBool("typed") {
			b.FloatData = append([]float32(nil), fl...)
		} else {
			b.RawData = append([]byte(nil), raw...)
		}
		return &onnx.ModelProto{OpsetImport: []*onnx.OperatorSetIdProto{{Version: 13}},
			Graph: &onnx.GraphProto{Initializer: []*onnx.TensorProto{a, b},
				Node: []*onnx.NodeProto{{OpType: "Relu", Input: []string{"b"}, Output: []string{"o"}},
					// the same INT32 payload once more as the value of a Constant node: it keeps its declared type too
					{OpType: "Constant", Output: []string{"k"}, Attribute: []*onnx.AttributeProto{{Name: "value", Type: onnx.AttributeProto_TENSOR,
						T: &onnx.TensorProto{DataType: 6, Dims: []int64{int64(n)}, RawData: append([]byte(nil), raw...)}}}}},
				Output: []*onnx.ValueInfoProto{{Name: "o"}, {Name: "a"}, {Name: "b"}, {Name: "k"}}}}
	}
	defaulted := v.Has("defaulted") && v.CBool("defaulted")
	mp := mk()
	orig := mk() // an equal description that nothing else ever sees
	if defaulted {
		// the float initializer is also declared as a graph input: it is that input's default
		for _, p := range []*onnx.ModelProto{mp, orig} {
			if v.Has("noshape") && v.CBool("noshape") {
				p.Graph.Input = []*onnx.ValueInfoProto{{Name: "b"}} // declared by name only: no type, no shape
			} else {
				p.Graph.Input = []*onnx.ValueInfoProto{zzFloatValueInfo("b", []int{1, n})}
			}
		}
	}
	unchanged := func() bool {
		g, o := mp.Graph, orig.Graph
		if g == nil || len(mp.OpsetImport) != 1 || mp.OpsetImport[0].Version != 13 || len(g.Initializer) != len(o.Initializer) || len(g.Node) != 2 || len(g.Output) != 4 || len(g.Input) != len(o.Input) {
			return false
		}
		for k, tp := range g.Initializer {
			op := o.Initializer[k]
			if tp == nil || tp.Name != op.Name || tp.DataType != op.DataType || len(tp.Dims) != len(op.Dims) || len(tp.RawData) != len(op.RawData) || len(tp.FloatData) != len(op.FloatData) ||
				len(tp.Int32Data) != 0 || len(tp.Int64Data) != 0 || len(tp.DoubleData) != 0 || len(tp.Uint64Data) != 0 {
				return false
			}
			for i := range tp.Dims {
				if tp.Dims[i] != op.Dims[i] {
					return false
				}
			}
			for i := range tp.RawData {
				if tp.RawData[i] != op.RawData[i] {
					return false
				}
			}
			for i := range tp.FloatData {
				a, b := tp.FloatData[i], op.FloatData[i]
				if !(a == b || (a != a && b != b)) {
					return false
				}
			}
		}
		return true
	}
	wantI := make([]int32, n)
	wantF := make([]float32, n)
	for i := 0; i < n; i++ {
		wantI[i] = int32(zzLE32m(raw, i))
		if v.CBool("typed") {
			wantF[i] = fl[i]
		} else {
			wantF[i] = math.Float32frombits(zzLE32m(raw, i))
		}
	}
	check := func(tag string) bool {
		var m *Model
		var err error
		p := v.Try(func() { m, err = NewModel(mp) })
		v.Assert("C12.model.no-panic:"+tag, !p)
		if p {
			return false
		}
		v.Assert("C12.model.loads:"+tag, err == nil && m != nil)
		if err != nil || m == nil {
			return false
		}
		if zzModelParamsVisible {
			v.AssertTensor("C12.model.weight-a:"+tag, zzModelParam(m, "a"), []int{n}, wantI)
			v.AssertTensor("C12.model.weight-b:"+tag, zzModelParam(m, "b"), []int{1, n}, wantF)
		}
		v.Assert("C12.model.description-left-as-it-was:"+tag, unchanged())
		// what a Run computes with: the weights handed out as graph outputs, before, in and after a Run in which
		// the caller overrides the defaulted one
		runs := []string{"run"}
		if defaulted {
			runs = []string{"run", "run-overriding-the-default", "run-on-the-default-again"}
		}
		for _, r := range runs {
			in := Tensors{}
			wantB := wantF
			if r == "run-overriding-the-default" {
				ov := zzverif.Syms[float32](v, "ov_"+tag, n)
				in["b"] = zzverif.NewTensor(ov, []int{1, n})
				wantB = ov
			}
			var out Tensors
			var rerr error
			p := v.Try(func() { out, rerr = m.Run(in) })
			v.Assert("C12.model.no-panic:"+tag+":"+r, !p)
			if p {
				return false
			}
			v.Assert("C12.model.runs:"+tag+":"+r, rerr == nil && out["a"] != nil && out["b"] != nil)
			if rerr != nil || out["a"] == nil || out["b"] == nil {
				return false
			}
			v.AssertTensor("C12.model.weight-a-as-used:"+tag+":"+r, out["a"], []int{n}, wantI)
			v.Assert("C12.model.constant-present:"+tag+":"+r, out["k"] != nil)
			if out["k"] != nil {
				v.AssertTensor("C12.model.constant-value-as-declared:"+tag+":"+r, out["k"], []int{n}, wantI)
			}
			v.AssertTensor("C12.model.weight-b-as-used:"+tag+":"+r, out["b"], []int{1, n}, wantB)
		}
		return true
	}
	if !check("first-load") {
		return
	}
	// the initializers decoded directly from the same description
	params, err := mp.Graph.Params()
	v.Assert("C12.model.params-after-load", err == nil && len(params) == 2)
	if err == nil && len(params) == 2 {
		v.AssertTensor("C12.model.params-a", params["a"], []int{n}, wantI)
		v.AssertTensor("C12.model.params-b", params["b"], []int{1, n}, wantF)
	}
	check("second-load")
}
