//go:build verif

package gonnx

import (
	"testing"

	"github.com/advancedclimatesystems/gonnx/internal/zzverif"
)

func TestZZReplay(t *testing.T) { zzverif.RunJobs("gonnx") }
