//go:build verif

package gonnx

import (
	"github.com/advancedclimatesystems/gonnx/internal/zzverif"
	"github.com/advancedclimatesystems/gonnx/onnx"
	"gorgonia.org/tensor"
)

func init() {
	zzverif.Register("gonnx.H_twins", H_twins)
}

// H_twins: two Models in one process do not influence one another, however much their descriptions look
// alike. Models A and B have the same graph name, node names and value names and differ only in what the
// case says (a constant, an initializer, an attribute, a declared dimension). Sequence: B, A, B again (a new
// Model from B's description), A again; each Model must return what its own description means (closed-form
// expectation where the case gives one) and the same the second time as the first.
//
// case: prop (label prefix); kind; further keys per kind
func H_twins(v *zzverif.T) {
	v.Ring()
	prop := v.CStr("prop")
	kind := v.CStr("kind")
	xs := zzverif.Syms[float32](v, "x", 2)
	vi := func(name string, dims ...int64) *onnx.ValueInfoProto {
		var ds []*onnx.TensorShapeProto_Dimension
		for _, d := range dims {
			if d < 0 {
				ds = append(ds, &onnx.TensorShapeProto_Dimension{Value: &onnx.TensorShapeProto_Dimension_DimParam{DimParam: "n"}})
			} else {
				ds = append(ds, &onnx.TensorShapeProto_Dimension{Value: &onnx.TensorShapeProto_Dimension_DimValue{DimValue: d}})
			}
		}
		return zzValueInfo(name, ds)
	}
	model := func(nodes []*onnx.NodeProto, inits []*onnx.TensorProto, in *onnx.ValueInfoProto) *onnx.ModelProto {
		return &onnx.ModelProto{OpsetImport: []*onnx.OperatorSetIdProto{{Version: 13}},
			Graph: &onnx.GraphProto{Name: "twin", Node: nodes, Initializer: inits, Input: []*onnx.ValueInfoProto{in}, Output: []*onnx.ValueInfoProto{{Name: "o"}}}}
	}
	var mk func(which int) *onnx.ModelProto // 0 = A, 1 = B
	var expect func(which int) []float32     // nil: no closed form
	xshape := []int{1, 2}
	switch kind {
	case "constant", "initializer":
		// o = x + K, K a Constant node's value / an initializer, spelled as the case says
		ks := [2][]float32{zzverif.Syms[float32](v, "ka", 2), zzverif.Syms[float32](v, "kb", 2)}
		enc := v.CStr("enc")
		mk = func(w int) *onnx.ModelProto {
			k := ks[w]
			add := &onnx.NodeProto{Name: "add", OpType: "Add", Input: []string{"x", "k"}, Output: []string{"o"}}
			if kind == "initializer" {
				tp := &onnx.TensorProto{Name: "k", DataType: 1, Dims: []int64{2}}
				tp.FloatData = append([]float32(nil), k...)
				return model([]*onnx.NodeProto{add}, []*onnx.TensorProto{tp}, vi("x", 1, 2))
			}
			cn := &onnx.NodeProto{Name: "const", OpType: "Constant", Output: []string{"k"}}
			switch enc {
			case "floats":
				cn.Attribute = []*onnx.AttributeProto{{Name: "value_floats", Type: onnx.AttributeProto_FLOATS, Floats: append([]float32(nil), k...)}}
			default:
				cn.Attribute = []*onnx.AttributeProto{{Name: "value", Type: onnx.AttributeProto_TENSOR, T: &onnx.TensorProto{DataType: 1, Dims: []int64{2}, FloatData: append([]float32(nil), k...)}}}
			}
			return model([]*onnx.NodeProto{cn, add}, nil, vi("x", 1, 2))
		}
		expect = func(w int) []float32 { return []float32{xs[0] + ks[w][0], xs[1] + ks[w][1]} }
	case "linreg":
		cs := [2][]float32{zzverif.Syms[float32](v, "ca", 2), zzverif.Syms[float32](v, "cb", 2)}
		mk = func(w int) *onnx.ModelProto {
			n := &onnx.NodeProto{Name: "LinearRegressor", OpType: "LinearRegressor", Input: []string{"x"}, Output: []string{"o"},
				Attribute: []*onnx.AttributeProto{{Name: "coefficients", Type: onnx.AttributeProto_FLOATS, Floats: append([]float32(nil), cs[w]...)}, {Name: "targets", Type: onnx.AttributeProto_INT, I: 1}}}
			return model([]*onnx.NodeProto{n}, nil, vi("x", 1, 2))
		}
		expect = func(w int) []float32 { return []float32{xs[0]*cs[w][0] + xs[1]*cs[w][1]} }
	case "signature":
		// A declares x as (n,2), B as (n,3): each enforces its own declaration
		mk = func(w int) *onnx.ModelProto {
			return model([]*onnx.NodeProto{{Name: "relu", OpType: "Relu", Input: []string{"x"}, Output: []string{"o"}}}, nil, vi("x", -1, int64(2+w)))
		}
	case "attribute":
		// the nodes differ in an attribute that B (or A) leaves at its default; op / attrsA / attrsB / shape from the case
		ops2 := [2]string{v.CStr("op"), v.CStr("op")}
		if v.Has("opB") {
			ops2[1] = v.CStr("opB") // another operator on the same operands
		}
		attrs := [2]string{v.CStr("attrsA"), v.CStr("attrsB")}
		xshape = v.CInts("shape")
		xs = zzverif.Syms[float32](v, "x", zzverif.Prod(xshape))
		dims := make([]int64, len(xshape))
		for i, d := range xshape {
			dims[i] = int64(d)
		}
		extra := v.CStrs("inits")
		mk = func(w int) *onnx.ModelProto {
			in := []string{"x"}
			var inits []*onnx.TensorProto
			for _, spec := range extra {
				d := zzParseSpec(v, spec, "init_")
				inits = append(inits, d.zzProto())
				in = append(in, d.name)
			}
			op := ops2[w]
			outs := []string{"o"}
			switch op {
			case "RNN", "GRU":
				outs = []string{"o", "oh"}
			case "LSTM":
				outs = []string{"o", "oh", "oc"}
			}
			n := &onnx.NodeProto{Name: "node", OpType: op, Input: in, Output: outs, Attribute: zzParseAttrs(attrs[w])}
			return model([]*onnx.NodeProto{n}, inits, vi("x", dims...))
		}
	}
	run := func(tag string, w int, shape []int) (tensor.Tensor, error, bool) {
		var out Tensors
		var m *Model
		var err error
		p := v.Try(func() {
			m, err = NewModel(mk(w))
			if err == nil {
				out, err = m.Run(Tensors{"x": zzverif.NewTensor(append([]float32(nil), xs[:zzverif.Prod(shape)]...), shape)})
			}
		})
		v.Assert(prop+".twins.no-panic:"+tag, !p)
		if p {
			return nil, nil, false
		}
		if err != nil {
			return nil, err, true
		}
		return out["o"], nil, true
	}
	if kind == "signature" {
		// a (1,2) tensor fits A only; a (1,3) tensor fits B only
		x3 := zzverif.Syms[float32](v, "y", 3)
		try := func(tag string, w int, fits bool, data []float32, shape []int) {
			xs = data
			_, err, ok := run(tag, w, shape)
			if ok {
				v.Assert(prop+".twins.each-model-enforces-its-own-signature:"+tag, (err == nil) == fits)
			}
		}
		two := xs
		try("B-own", 1, true, x3, []int{1, 3})
		try("A-own", 0, true, two, []int{1, 2})
		try("B-other", 1, false, two, []int{1, 2})
		try("A-other", 0, false, x3, []int{1, 3})
		try("B-own-again", 1, true, x3, []int{1, 3})
		return
	}
	var first [2]tensor.Tensor
	var firstErr [2]error
	order, tags := []int{1, 0, 1, 0}, []string{"B", "A", "B-again", "A-again"}
	if v.Has("order") && v.CStr("order") == "ABAB" {
		order, tags = []int{0, 1, 0, 1}, []string{"A", "B", "A-again", "B-again"}
	}
	for step, w := range order {
		tag := tags[step]
		t, err, ok := run(tag, w, xshape)
		if !ok {
			return
		}
		if expect != nil {
			v.Assert(prop+".twins.model-evaluates:"+tag, err == nil)
			if err == nil {
				want := expect(w)
				v.AssertTensor(prop+".twins.each-model-means-its-own-description:"+tag, t, t.Shape(), want)
			}
		}
		if step < 2 {
			first[w], firstErr[w] = t, err
			continue
		}
		if v.Has("evaluates") && v.CBool("evaluates") && !(w == 0 && v.Has("refusedA") && v.CBool("refusedA")) {
			v.Assert(prop+".twins.model-evaluates:"+tag, err == nil)
		}
		v.Assert(prop+".twins.same-as-before-the-other-model-ran:"+tag+":errorness", (err != nil) == (firstErr[w] != nil))
		if err == nil && firstErr[w] == nil {
			v.AssertSameTensor(prop+".twins.same-as-before-the-other-model-ran:"+tag, t, first[w])
		}
	}
}

