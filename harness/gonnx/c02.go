//go:build verif

package gonnx

import (
	"github.com/advancedclimatesystems/gonnx/internal/zzverif"
	"github.com/advancedclimatesystems/gonnx/onnx"
	"gorgonia.org/tensor"
)

func init() {
	zzverif.Register("gonnx.H_C02", H_C02)
}

// zzTData is the data of one named tensor: float32 (symbolic), int64 (concrete) or bool (symbolic).
type zzTData struct {
	name  string
	shape []int
	kind  string // "f32", "i64", "bool"
	f     []float32
	i     []int64
	b     []bool
}

// zzParseSpec: "name:2,3" | "name:2:i64=1,-1" | "name:2,2:bool"
func zzParseSpec(v *zzverif.T, spec, prefix string) zzTData {
	p := zzSplit(spec, ':')
	d := zzTData{name: p[0], kind: "f32", shape: []int{}}
	if len(p) > 1 && p[1] != "" {
		for _, x := range zzSplit(p[1], ',') {
			d.shape = append(d.shape, zzAtoi(x))
		}
	}
	n := zzverif.Prod(d.shape)
	if len(p) > 2 {
		if p[2] == "bool" {
			d.kind = "bool"
		} else {
			d.kind = "i64"
			kv := zzSplit(p[2], '=')
			for _, x := range zzSplit(kv[1], ',') {
				d.i = append(d.i, int64(zzAtoi(x)))
			}
		}
	}
	switch d.kind {
	case "f32":
		d.f = zzverif.Syms[float32](v, prefix+d.name, n)
	case "bool":
		d.b = zzverif.Syms[bool](v, prefix+d.name, n)
	}
	return d
}

func (d zzTData) zzTensor() tensor.Tensor {
	switch d.kind {
	case "i64":
		return zzverif.NewTensor(d.i, d.shape)
	case "bool":
		return zzverif.NewTensor(d.b, d.shape)
	}
	return zzverif.NewTensor(d.f, d.shape)
}

// zzLazyT builds the same logical tensor as zzTensor, laid out as the lazy transpose of its
// transposed storage (x.T() without Transpose(): strides say "transposed", the elements have not moved).
func (d zzTData) zzLazyT() tensor.Tensor {
	if d.kind != "f32" || len(d.shape) != 2 {
		return d.zzTensor()
	}
	r, c := d.shape[0], d.shape[1]
	stored := make([]float32, r*c)
	for i := 0; i < r; i++ {
		for j := 0; j < c; j++ {
			stored[j*r+i] = d.f[i*c+j]
		}
	}
	t := zzverif.NewTensor(stored, []int{c, r})
	if err := t.T(); err != nil {
		panic(err)
	}
	return t
}

func (d zzTData) zzProto() *onnx.TensorProto {
	dims := make([]int64, len(d.shape))
	for i, x := range d.shape {
		dims[i] = int64(x)
	}
	tp := &onnx.TensorProto{Name: d.name, Dims: dims}
	switch d.kind {
	case "i64":
		tp.DataType = 7
		tp.Int64Data = append([]int64(nil), d.i...)
	case "bool":
		tp.DataType = 9
		for _, x := range d.b {
			var y int32
			if x {
				y = 1
			}
			tp.Int32Data = append(tp.Int32Data, y)
		}
	default:
		tp.DataType = 1
		tp.FloatData = append([]float32(nil), d.f...)
	}
	return tp
}

func zzBuildModel(g zzGraph, inits []zzTData, defaulted ...string) *onnx.ModelProto {
	gp := &onnx.GraphProto{}
	for _, spec := range append(append([]string(nil), g.inputs...), defaulted...) {
		// declared with its rank and symbolic dimensions only: any extents are accepted, a missing tensor or
		// another rank is refused by the signature check (before any node runs)
		name, shape := zzParseTensorSpec(spec)
		var dims []*onnx.TensorShapeProto_Dimension
		for k := range shape {
			dims = append(dims, &onnx.TensorShapeProto_Dimension{Value: &onnx.TensorShapeProto_Dimension_DimParam{DimParam: "d" + string(rune('0'+k))}})
		}
		gp.Input = append(gp.Input, zzValueInfo(name, dims))
	}
	for _, d := range inits {
		gp.Initializer = append(gp.Initializer, d.zzProto())
	}
	for _, name := range g.outputs {
		gp.Output = append(gp.Output, &onnx.ValueInfoProto{Name: name})
	}
	for i, op := range g.ops {
		gp.Node = append(gp.Node, &onnx.NodeProto{OpType: op, Input: g.zzNames(g.ins, i), Output: g.zzNames(g.outs, i), Attribute: zzParseAttrs(g.attrs[i])})
	}
	return &onnx.ModelProto{OpsetImport: []*onnx.OperatorSetIdProto{{Version: 13}}, Graph: gp}
}

type zzRunRec struct {
	out Tensors
	err error
}

// H_C02: after any history of Runs a Run returns what a fresh Model returns; caller tensors and
// weights are never modified (nor written to at all: the frame condition C17 rests on).
//
// case: the graph lists of H_C01; inputs = specs of the first input set ("A"); inputsB = specs of a second
// input set (other values, possibly another batch size); mode "ring"|"ieee"; feedback "out>in" (optional:
// the named output of the first Run is passed as the named input of a later one); inputsBad (optional): specs of
// an input set that passes the signature check but makes a node fail
func H_C02(v *zzverif.T) {
	if v.CStr("mode") != "ieee" {
		v.Ring()
	}
	g := zzReadGraph(v)
	var inits []zzTData
	for _, spec := range g.inits {
		inits = append(inits, zzParseSpec(v, spec, "init_"))
	}
	var inA, inB []zzTData
	for _, spec := range g.inputs {
		inA = append(inA, zzParseSpec(v, spec, "a_"))
	}
	for _, spec := range v.CStrs("inputsB") {
		inB = append(inB, zzParseSpec(v, spec, "b_"))
	}
	load := func() *Model {
		var m *Model
		var err error
		// "defaulted": initializers that are ALSO declared as graph inputs - the initializer is the default, a
		// caller may supply a tensor of its own for that name in any one Run
		var defaulted []string
		if v.Has("defaulted") {
			defaulted = v.CStrs("defaulted")
		}
		p := v.Try(func() { m, err = NewModel(zzBuildModel(g, inits, defaulted...)) })
		v.Assert("C02.model-loads", !p && err == nil && m != nil)
		if p || err != nil {
			return nil
		}
		return m
	}
	zzUseExportedHelpers(v)
	m := load()
	if m == nil {
		return
	}
	// weights: snapshots
	paramNames := m.ParamNames()
	paramSnaps := make([]*zzverif.Snap, len(paramNames))
	for i, n := range paramNames {
		paramSnaps[i] = v.Snapshot(zzModelParam(m, n))
	}
	mkInputs := func(ds []zzTData) (Tensors, []tensor.Tensor, []*zzverif.Snap) {
		ts := Tensors{}
		var list []tensor.Tensor
		var snaps []*zzverif.Snap
		for _, d := range ds {
			t := d.zzTensor()
			if v.Has("lazyT") && v.CStr("lazyT") == d.name {
				t = d.zzLazyT() // the caller hands over a lazily transposed tensor
			}
			ts[d.name] = t
			list = append(list, t)
			snaps = append(snaps, v.Snapshot(t))
		}
		return ts, list, snaps
	}
	run := func(tag string, mm *Model, in Tensors) (zzRunRec, bool) {
		var r zzRunRec
		p := v.Try(func() { r.out, r.err = mm.Run(in) })
		v.Assert("C02.no-panic:"+tag, !p)
		return r, !p
	}
	checkFrame := func(tag string, list []tensor.Tensor, snaps []*zzverif.Snap) {
		for i := range list {
			v.AssertUnchanged("C02.caller-tensor-unmodified:"+tag, list[i], snaps[i])
		}
		for i, n := range paramNames {
			v.AssertUnchanged("C02.weight-unmodified:"+tag, zzModelParam(m, n), paramSnaps[i])
		}
		// (writes that leave every value as it was - same-value stores, write-and-restore - do not break this
		// property; they are C17's business, where the frame monitor is confirmed under the race detector)
	}
	same := func(label string, a, b zzRunRec) {
		v.Assert(label+":same-errorness", (a.err != nil) == (b.err != nil))
		if a.err != nil || b.err != nil {
			return
		}
		v.Assert(label+":same-outputs", len(a.out) == len(b.out))
		for _, name := range g.outputs {
			v.AssertSameTensor(label+":"+name, a.out[name], b.out[name])
		}
	}

	tA, listA, snapsA := mkInputs(inA)
	r1, ok := run("first", m, tA)
	if !ok {
		return
	}
	checkFrame("first", listA, snapsA)
	v.Assert("C02.first-run-succeeds", r1.err == nil)

	// a Run in which the caller overrides a defaulted input, then one that leaves it to the default again
	if v.Has("defaulted") && len(v.CStrs("defaulted")) > 0 && r1.err == nil {
		var ov []zzTData
		for _, spec := range v.CStrs("defaulted") {
			ov = append(ov, zzParseSpec(v, spec, "ov_"))
		}
		tO, listO, snapsO := mkInputs(ov)
		for k, t := range tA {
			tO[k] = t
		}
		rO, ok := run("override", m, tO)
		if !ok {
			return
		}
		checkFrame("override", listO, snapsO)
		checkFrame("override", listA, snapsA)
		if fresh := load(); fresh != nil {
			rf, ok := run("fresh-override", fresh, tO)
			if !ok {
				return
			}
			same("C02.run-with-an-overridden-default-equals-fresh-model", rO, rf)
		}
		rD, ok := run("default-again", m, tA)
		if !ok {
			return
		}
		checkFrame("default-again", listA, snapsA)
		same("C02.default-applies-again-after-an-override", rD, r1)
	}

	// a failing call in between: one declared input missing
	if len(inA) > 0 {
		bad := Tensors{}
		for k, t := range tA {
			if k != inA[0].name {
				bad[k] = t
			}
		}
		rb, ok := run("failing", m, bad)
		if !ok {
			return
		}
		v.Assert("C02.run-without-an-input-fails", rb.err != nil || len(g.ops) == 0)
		checkFrame("failing", listA, snapsA)
	}

	// a call refused for the element type of a tensor (the right shape, booleans where numbers are expected)
	if len(inA) > 0 && inA[0].kind == "f32" {
		wrong := Tensors{}
		for k, t := range tA {
			wrong[k] = t
		}
		wrong[inA[0].name] = zzverif.NewTensor(make([]bool, zzverif.Prod(inA[0].shape)), inA[0].shape)
		if _, ok := run("wrong-element-type", m, wrong); !ok {
			return
		}
		checkFrame("wrong-element-type", listA, snapsA)
	}

	// a call that passes the signature check but fails inside a node (e.g. a batch size the other inputs do not fit)
	if v.Has("inputsBad") && len(v.CStrs("inputsBad")) > 0 {
		var inBad []zzTData
		for _, spec := range v.CStrs("inputsBad") {
			inBad = append(inBad, zzParseSpec(v, spec, "bad_"))
		}
		tBad, listBad, snapsBad := mkInputs(inBad)
		if _, ok := run("failing-inside", m, tBad); !ok {
			return
		}
		checkFrame("failing-inside", listBad, snapsBad)
		checkFrame("failing-inside", listA, snapsA)
	}

	// other inputs (other values, possibly another batch size), compared with a freshly loaded model
	if len(inB) > 0 {
		tB, listB, snapsB := mkInputs(inB)
		r2, ok := run("second", m, tB)
		if !ok {
			return
		}
		checkFrame("second", listB, snapsB)
		if fresh := load(); fresh != nil {
			tB2, _, _ := mkInputs(inB)
			rf, ok := run("fresh", fresh, tB2)
			if !ok {
				return
			}
			same("C02.after-history-equals-fresh-model", r2, rf)
		}
	}

	// the very same tensor objects again
	r3, ok := run("repeat", m, tA)
	if !ok {
		return
	}
	checkFrame("repeat", listA, snapsA)
	same("C02.repeated-run-equals-first", r3, r1)

	// the very same tensor OBJECTS once more, after the caller has written new values into them (a Run is a
	// function of its inputs' current contents, not of their identity)
	if v.Has("rewrite") && v.CBool("rewrite") && len(inA) > 0 {
		var inN []zzTData
		for _, spec := range g.inputs {
			inN = append(inN, zzParseSpec(v, spec, "n_"))
		}
		for i, d := range inN {
			dense, ok := listA[i].(*tensor.Dense)
			if !ok {
				continue
			}
			switch d.kind {
			case "f32":
				for k, x := range d.f {
					dense.Set(k, x)
				}
			case "bool":
				for k, x := range d.b {
					dense.Set(k, x)
				}
			}
		}
		rN, ok := run("rewritten", m, tA)
		if !ok {
			return
		}
		if fresh := load(); fresh != nil {
			tN, _, _ := mkInputs(inN)
			rf, ok := run("fresh-rewritten", fresh, tN)
			if !ok {
				return
			}
			same("C02.run-on-rewritten-tensors-equals-fresh-model", rN, rf)
		}
		return // (the tensors no longer hold the values of the first Run)
	}

	// an output of the first Run fed to a later Run
	if fb := v.CStr("feedback"); fb != "" && r1.err == nil {
		p := zzSplit(fb, '>')
		t4 := Tensors{}
		for k, t := range tA {
			t4[k] = t
		}
		t4[p[1]] = r1.out[p[0]]
		snapOut := v.Snapshot(r1.out[p[0]])
		r4, ok := run("feedback", m, t4)
		if !ok {
			return
		}
		v.AssertUnchanged("C02.fed-back-output-unmodified", r1.out[p[0]], snapOut)
		if fresh := load(); fresh != nil {
			rf, ok := run("fresh-feedback", fresh, t4)
			if ok {
				same("C02.feedback-run-equals-fresh-model", r4, rf)
			}
		}
	}
}
