//go:build verif

package ops

import (
	"testing"

	"github.com/advancedclimatesystems/gonnx/internal/zzverif"
)

func TestZZReplay(t *testing.T) { zzverif.RunJobs("ops") }
