//go:build verif

package ops

import (
	"github.com/advancedclimatesystems/gonnx/internal/zzverif"
	"gorgonia.org/tensor"
)

func init() {
	zzverif.Register("ops.H_smoke", H_smoke)
}

// H_smoke exercises the engine itself (not a property).
func H_smoke(v *zzverif.T) {
	x := zzverif.Sym[int](v, "x")
	a := Abs(x)
	v.Assert("abs-nonneg-or-min", a >= 0 || x == -9223372036854775808)
	arr := []int{v.IntIn("a0", -3, 3), v.IntIn("a1", -3, 3)}
	OffsetArrayIfNegative(arr, 4)
	v.Assert("offset", arr[0] >= 0 && arr[1] >= 0)
	v.Assert("inrange", AllInRange(arr, 0, 7))
	xs := zzverif.Syms[float32](v, "t", 4)
	t := tensor.New(tensor.WithShape(2, 2), tensor.WithBacking(append([]float32(nil), xs...)))
	u, err := tensor.Add(t, t)
	v.Assert("noerr", err == nil)
	want := make([]float32, 4)
	for i := range want {
		want[i] = xs[i] + xs[i]
	}
	v.AssertTensor("add", u, []int{2, 2}, want)
	wrong := make([]float32, 4)
	for i := range wrong {
		wrong[i] = xs[i] + 1
	}
	v.AssertTensor("add-as-mul2", u, []int{2, 2}, wrong)
	n := v.CInt("n")
	v.Assert("case", n == 3)
}
