//go:build verif

package ops

import (
	"github.com/advancedclimatesystems/gonnx/internal/zzverif"
	"gorgonia.org/tensor"
)

func init() {
	zzverif.Register("ops.H_C14", H_C14)
	zzverif.Register("ops.H_C14_mixed", H_C14_mixed)
}

func c14Mixed[F zzverif.Scalar](v *zzverif.T) {
	sa, sb := v.CInts("a"), v.CInts("b")
	da := zzverif.Syms[float32](v, "a", zzverif.Prod(sa))
	db := zzverif.Syms[F](v, "b", zzverif.Prod(sb))
	A, B := zzverif.NewTensor(da, sa), zzverif.NewTensor(db, sb)
	snapA, snapB := v.Snapshot(A), v.Snapshot(B)
	outShape, compatible := zzverif.BroadcastShape(sa, sb)
	var oa, ob tensor.Tensor
	var err error
	panicked := v.Try(func() { oa, ob, err = MultidirectionalBroadcast(A, B) })
	v.Assert("C14.no-panic", !panicked)
	if panicked {
		return
	}
	v.AssertUnchanged("C14.source-A-unmodified", A, snapA)
	v.AssertUnchanged("C14.source-B-unmodified", B, snapB)
	if !compatible {
		v.Assert("C14.incompatible-is-error", err != nil)
		return
	}
	v.Assert("C14.compatible-is-accepted", err == nil)
	if err != nil {
		return
	}
	// each operand keeps its own element type
	v.AssertTensor("C14.A-broadcast", oa, outShape, zzverif.BroadcastData(da, sa, outShape))
	v.AssertTensor("C14.B-broadcast", ob, outShape, zzverif.BroadcastData(db, sb, outShape))
}

// H_C14_mixed: the helpers stretch two operands of DIFFERENT element types (float32 and dtypeB), each into a
// tensor of its own type. case: a, b (shapes); dtypeB
func H_C14_mixed(v *zzverif.T) {
	switch v.CStr("dtypeB") {
	case "bool":
		c14Mixed[bool](v)
	case "int64":
		c14Mixed[int64](v)
	case "float64":
		c14Mixed[float64](v)
	case "uint8":
		c14Mixed[uint8](v)
	}
}

func c14Case[E zzverif.Scalar](v *zzverif.T) {
	sa, sb := v.CInts("a"), v.CInts("b")
	uni := v.CStr("mode") == "uni"
	da := zzverif.Syms[E](v, "a", zzverif.Prod(sa))
	db := zzverif.Syms[E](v, "b", zzverif.Prod(sb))
	A, B := zzverif.NewTensor(da, sa), zzverif.NewTensor(db, sb)
	// "lazy": that operand (a matrix) is handed over lazily transposed - stored transposed, x.T() applied, no
	// Transpose(): strides say "transposed", the elements have not moved
	if v.Has("lazy") {
		lz := func(d []E, shape []int) tensor.Tensor {
			r, c := shape[0], shape[1]
			tr := make([]E, len(d))
			for i := 0; i < r; i++ {
				for j := 0; j < c; j++ {
					tr[j*r+i] = d[i*c+j]
				}
			}
			t := zzverif.NewTensor(tr, []int{c, r})
			if err := t.(*tensor.Dense).T(); err != nil {
				panic(err)
			}
			return t
		}
		if v.CStr("lazy") == "a" && len(sa) == 2 {
			A = lz(da, sa)
		}
		if v.CStr("lazy") == "b" && len(sb) == 2 {
			B = lz(db, sb)
		}
	}
	snapA, snapB := v.Snapshot(A), v.Snapshot(B)
	v.Protect("A", A)
	v.Protect("B", B)

	outShape, compatible := zzverif.BroadcastShape(sa, sb)
	if uni && compatible {
		// unidirectional: the result must have A's shape
		if len(outShape) != len(sa) {
			compatible = false
		} else {
			for i := range sa {
				if outShape[i] != sa[i] {
					compatible = false
				}
			}
		}
	}
	var oa, ob tensor.Tensor
	var err error
	panicked := v.Try(func() {
		if uni {
			oa, ob, err = UnidirectionalBroadcast(A, B)
		} else {
			oa, ob, err = MultidirectionalBroadcast(A, B)
		}
	})
	v.Assert("C14.no-panic", !panicked)
	if panicked {
		return
	}
	v.AssertUnchanged("C14.source-A-unmodified", A, snapA)
	v.AssertUnchanged("C14.source-B-unmodified", B, snapB)
	v.AssertNoWrites("C14.no-writes-to-sources")
	if !compatible {
		v.Assert("C14.incompatible-is-error", err != nil)
		return
	}
	v.Assert("C14.compatible-is-accepted", err == nil)
	if err != nil {
		return
	}
	v.AssertTensor("C14.A-broadcast", oa, outShape, zzverif.BroadcastData(da, sa, outShape))
	v.AssertTensor("C14.B-broadcast", ob, outShape, zzverif.BroadcastData(db, sb, outShape))
	if uni {
		v.Assert("C14.uni-first-operand-as-is", oa == A)
	}
	// the same tensor OBJECTS again after their contents changed: the helpers are functions of the
	// operands' current values (a helper that remembers an operand by identity shows here)
	if v.Has("lazy") {
		// the same operands a second time: what the first call returned must come back again (a helper that
		// rearranges a lazily transposed source in place shows here, and in the source checks above)
		var oa3, ob3 tensor.Tensor
		p3 := v.Try(func() {
			if uni {
				oa3, ob3, err = UnidirectionalBroadcast(A, B)
			} else {
				oa3, ob3, err = MultidirectionalBroadcast(A, B)
			}
		})
		v.Assert("C14.no-panic", !p3)
		if !p3 && err == nil {
			v.AssertTensor("C14.A-broadcast-again", oa3, outShape, zzverif.BroadcastData(da, sa, outShape))
			v.AssertTensor("C14.B-broadcast-again", ob3, outShape, zzverif.BroadcastData(db, sb, outShape))
		}
		return
	}
	da2 := zzverif.Syms[E](v, "a2_", zzverif.Prod(sa))
	db2 := zzverif.Syms[E](v, "b2_", zzverif.Prod(sb))
	for i := range da2 {
		A.(*tensor.Dense).Set(i, da2[i])
	}
	for i := range db2 {
		B.(*tensor.Dense).Set(i, db2[i])
	}
	var oa2, ob2 tensor.Tensor
	panicked = v.Try(func() {
		if uni {
			oa2, ob2, err = UnidirectionalBroadcast(A, B)
		} else {
			oa2, ob2, err = MultidirectionalBroadcast(A, B)
		}
	})
	v.Assert("C14.no-panic", !panicked)
	if panicked {
		return
	}
	v.Assert("C14.compatible-is-accepted", err == nil)
	if err != nil {
		return
	}
	v.AssertTensor("C14.A-broadcast-of-the-current-contents", oa2, outShape, zzverif.BroadcastData(da2, sa, outShape))
	v.AssertTensor("C14.B-broadcast-of-the-current-contents", ob2, outShape, zzverif.BroadcastData(db2, sb, outShape))
}

// H_C14: broadcast helpers. case: a, b []int (shapes); mode "multi"|"uni"; dtype
func H_C14(v *zzverif.T) {
	switch v.CStr("dtype") {
	case "float32":
		c14Case[float32](v)
	case "float64":
		c14Case[float64](v)
	case "int64":
		c14Case[int64](v)
	case "int32":
		c14Case[int32](v)
	case "uint8":
		c14Case[uint8](v)
	case "bool":
		c14Case[bool](v)
	}
}
