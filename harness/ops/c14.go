//go:build verif

package ops

import (
	"github.com/advancedclimatesystems/gonnx/internal/zzverif"
	"gorgonia.org/tensor"
)

func init() {
	zzverif.Register("ops.H_C14", H_C14)
}

func c14Case[E zzverif.Scalar](v *zzverif.T) {
	sa, sb := v.CInts("a"), v.CInts("b")
	uni := v.CStr("mode") == "uni"
	da := zzverif.Syms[E](v, "a", zzverif.Prod(sa))
	db := zzverif.Syms[E](v, "b", zzverif.Prod(sb))
	A, B := zzverif.NewTensor(da, sa), zzverif.NewTensor(db, sb)
	snapA, snapB := v.Snapshot(A), v.Snapshot(B)
	v.Protect("A", A)
	v.Protect("B", B)

	outShape, compatible := zzverif.BroadcastShape(sa, sb)
	if uni && compatible {
		// unidirectional: the result must have A's shape
		if len(outShape) != len(sa) {
			compatible = false
		} else {
			for i := range sa {
				if outShape[i] != sa[i] {
					compatible = false
				}
			}
		}
	}
	var oa, ob tensor.Tensor
	var err error
	panicked := v.Try(func() {
		if uni {
			oa, ob, err = UnidirectionalBroadcast(A, B)
		} else {
			oa, ob, err = MultidirectionalBroadcast(A, B)
		}
	})
	v.Assert("C14.no-panic", !panicked)
	if panicked {
		return
	}
	v.AssertUnchanged("C14.source-A-unmodified", A, snapA)
	v.AssertUnchanged("C14.source-B-unmodified", B, snapB)
	v.AssertNoWrites("C14.no-writes-to-sources")
	if !compatible {
		v.Assert("C14.incompatible-is-error", err != nil)
		return
	}
	v.Assert("C14.compatible-is-accepted", err == nil)
	if err != nil {
		return
	}
	v.AssertTensor("C14.A-broadcast", oa, outShape, zzverif.BroadcastData(da, sa, outShape))
	v.AssertTensor("C14.B-broadcast", ob, outShape, zzverif.BroadcastData(db, sb, outShape))
	if uni {
		v.Assert("C14.uni-first-operand-as-is", oa == A)
	}
	// the same tensor OBJECTS again after their contents changed: the helpers are functions of the
	// operands' current values (a helper that remembers an operand by identity shows here)
	da2 := zzverif.Syms[E](v, "a2_", zzverif.Prod(sa))
	db2 := zzverif.Syms[E](v, "b2_", zzverif.Prod(sb))
	for i := range da2 {
		A.(*tensor.Dense).Set(i, da2[i])
	}
	for i := range db2 {
		B.(*tensor.Dense).Set(i, db2[i])
	}
	var oa2, ob2 tensor.Tensor
	panicked = v.Try(func() {
		if uni {
			oa2, ob2, err = UnidirectionalBroadcast(A, B)
		} else {
			oa2, ob2, err = MultidirectionalBroadcast(A, B)
		}
	})
	v.Assert("C14.no-panic", !panicked)
	if panicked {
		return
	}
	v.Assert("C14.compatible-is-accepted", err == nil)
	if err != nil {
		return
	}
	v.AssertTensor("C14.A-broadcast-of-the-current-contents", oa2, outShape, zzverif.BroadcastData(da2, sa, outShape))
	v.AssertTensor("C14.B-broadcast-of-the-current-contents", ob2, outShape, zzverif.BroadcastData(db2, sb, outShape))
}

// H_C14: broadcast helpers. case: a, b []int (shapes); mode "multi"|"uni"; dtype
func H_C14(v *zzverif.T) {
	switch v.CStr("dtype") {
	case "float32":
		c14Case[float32](v)
	case "float64":
		c14Case[float64](v)
	case "int64":
		c14Case[int64](v)
	case "int32":
		c14Case[int32](v)
	case "uint8":
		c14Case[uint8](v)
	case "bool":
		c14Case[bool](v)
	}
}
