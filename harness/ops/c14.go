//go:build verif

package ops

import (
	"github.com/advancedclimatesystems/gonnx/internal/zzverif"
	"gorgonia.org/tensor"
)

func init() {
	zzverif.Register("ops.H_C14", H_C14)
}

func zzProd(xs []int) int {
	p := 1
	for _, x := range xs {
		p *= x
	}
	return p
}

func zzUnravel(flat int, shape []int) []int {
	idx := make([]int, len(shape))
	for i := len(shape) - 1; i >= 0; i-- {
		idx[i] = flat % shape[i]
		flat /= shape[i]
	}
	return idx
}

func zzRavel(idx []int, shape []int) int {
	f := 0
	for i := range shape {
		f = f*shape[i] + idx[i]
	}
	return f
}

// zzBroadcastShape returns the ONNX multidirectional broadcast shape, ok=false when incompatible.
func zzBroadcastShape(a, b []int) ([]int, bool) {
	n := len(a)
	if len(b) > n {
		n = len(b)
	}
	out := make([]int, n)
	for i := 0; i < n; i++ {
		da, db := 1, 1
		if k := len(a) - n + i; k >= 0 {
			da = a[k]
		}
		if k := len(b) - n + i; k >= 0 {
			db = b[k]
		}
		switch {
		case da == db:
			out[i] = da
		case da == 1:
			out[i] = db
		case db == 1:
			out[i] = da
		default:
			return nil, false
		}
	}
	return out, true
}

// zzBroadcastData returns src (row-major, shape srcShape) broadcast to outShape.
func zzBroadcastData[E any](src []E, srcShape, outShape []int) []E {
	out := make([]E, zzProd(outShape))
	off := len(outShape) - len(srcShape)
	for f := range out {
		idx := zzUnravel(f, outShape)
		sidx := make([]int, len(srcShape))
		for k := range srcShape {
			if srcShape[k] != 1 {
				sidx[k] = idx[off+k]
			}
		}
		out[f] = src[zzRavel(sidx, srcShape)]
	}
	return out
}

func zzTensor[E any](data []E, shape []int) tensor.Tensor {
	return tensor.New(tensor.WithShape(shape...), tensor.WithBacking(append([]E(nil), data...)))
}

func c14Case[E zzverif.Scalar](v *zzverif.T) {
	sa, sb := v.CInts("a"), v.CInts("b")
	uni := v.CStr("mode") == "uni"
	da := zzverif.Syms[E](v, "a", zzProd(sa))
	db := zzverif.Syms[E](v, "b", zzProd(sb))
	A, B := zzTensor(da, sa), zzTensor(db, sb)
	snapA, snapB := v.Snapshot(A), v.Snapshot(B)
	v.Protect("A", A)
	v.Protect("B", B)

	outShape, compatible := zzBroadcastShape(sa, sb)
	if uni && compatible {
		// unidirectional: the result must have A's shape
		if len(outShape) != len(sa) {
			compatible = false
		} else {
			for i := range sa {
				if outShape[i] != sa[i] {
					compatible = false
				}
			}
		}
	}
	var oa, ob tensor.Tensor
	var err error
	panicked := v.Try(func() {
		if uni {
			oa, ob, err = UnidirectionalBroadcast(A, B)
		} else {
			oa, ob, err = MultidirectionalBroadcast(A, B)
		}
	})
	v.Assert("C14.no-panic", !panicked)
	if panicked {
		return
	}
	v.AssertUnchanged("C14.source-A-unmodified", A, snapA)
	v.AssertUnchanged("C14.source-B-unmodified", B, snapB)
	v.AssertNoWrites("C14.no-writes-to-sources")
	if !compatible {
		v.Assert("C14.incompatible-is-error", err != nil)
		return
	}
	v.Assert("C14.compatible-is-accepted", err == nil)
	if err != nil {
		return
	}
	v.AssertTensor("C14.A-broadcast", oa, outShape, zzBroadcastData(da, sa, outShape))
	v.AssertTensor("C14.B-broadcast", ob, outShape, zzBroadcastData(db, sb, outShape))
	if uni {
		v.Assert("C14.uni-first-operand-as-is", oa == A)
	}
}

// H_C14: broadcast helpers. case: a, b []int (shapes); mode "multi"|"uni"; dtype
func H_C14(v *zzverif.T) {
	switch v.CStr("dtype") {
	case "float32":
		c14Case[float32](v)
	case "float64":
		c14Case[float64](v)
	case "int64":
		c14Case[int64](v)
	case "int32":
		c14Case[int32](v)
	case "uint8":
		c14Case[uint8](v)
	case "bool":
		c14Case[bool](v)
	}
}
