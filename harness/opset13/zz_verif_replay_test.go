//go:build verif

package opset13

import (
	"testing"

	"github.com/advancedclimatesystems/gonnx/internal/zzverif"
)

func TestZZReplay(t *testing.T) { zzverif.RunJobs("opset13") }
