//go:build verif

package opset13

import (
	"math"

	"github.com/advancedclimatesystems/gonnx/internal/zzverif"
	"github.com/chewxy/math32"
	"gorgonia.org/tensor"
)

func init() {
	zzverif.Register("opset13.H_C10", H_C10)
}

// the function each operator is named after, on float64 (the math wrappers convert through float64)
func zzNamedMath(op string, x float64) float64 {
	switch op {
	case "Sin":
		return math.Sin(x)
	case "Cos":
		return math.Cos(x)
	case "Tan":
		return math.Tan(x)
	case "Asin":
		return math.Asin(x)
	case "Acos":
		return math.Acos(x)
	case "Atan":
		return math.Atan(x)
	case "Sinh":
		return math.Sinh(x)
	case "Cosh":
		return math.Cosh(x)
	case "Asinh":
		return math.Asinh(x)
	case "Acosh":
		return math.Acosh(x)
	case "Atanh":
		return math.Atanh(x)
	}
	return x
}

func zzIsMathWrapper(op string) bool {
	switch op {
	case "Sin", "Cos", "Tan", "Asin", "Acos", "Atan", "Sinh", "Cosh", "Asinh", "Acosh", "Atanh":
		return true
	}
	return false
}

func zzAbsF[E float32 | float64](x E) E {
	if x < 0 {
		return -x
	}
	if x == 0 {
		return 0
	}
	return x
}

func zzReluF[E float32 | float64](x E) E {
	if x > 0 || x != x {
		return x
	}
	return 0
}

func zzPReluN[E zzNumber](x, s E) E {
	if x < 0 {
		return s * x
	}
	return x
}

func zzAbsI[E zzNumber](x E) E {
	if x < 0 {
		return -x
	}
	return x
}

func c10Float[E float32 | float64](v *zzverif.T) {
	op := v.CStr("op")
	shape := v.CInts("shape")
	n := zzverif.Prod(shape)
	xs := zzverif.Data[E](v, "x", n)
	X := zzverif.NewTensor(xs, shape)
	snap := v.Snapshot(X)
	inputs := []tensor.Tensor{X}
	var slope []E
	sshape := v.CInts("slope")
	if op == "PRelu" {
		slope = zzverif.Syms[E](v, "s", zzverif.Prod(sshape))
		inputs = append(inputs, zzverif.NewTensor(slope, sshape))
	}
	var slopeSnap *zzverif.Snap
	if len(inputs) == 2 {
		slopeSnap = v.Snapshot(inputs[1])
	}
	r := zzRun(v, op, nil, inputs)
	v.Assert("C10.no-panic", !r.Panicked)
	if r.Panicked {
		return
	}
	v.AssertUnchanged("C10.input-unmodified", X, snap)
	if slopeSnap != nil {
		v.AssertUnchanged("C10.slope-unmodified", inputs[1], slopeSnap)
	}
	if op == "PRelu" {
		bs, ok := zzverif.BroadcastShape(shape, sshape)
		if !ok || !zzverif.SameInts(bs, shape) {
			v.Assert("C10.slope-not-broadcastable-is-an-error", r.Err != nil)
			return
		}
		slope = zzverif.BroadcastData(slope, sshape, shape)
	}
	v.Assert("C10.float-input-is-computed", r.Err == nil && len(r.Outs) == 1)
	if r.Err != nil || len(r.Outs) != 1 {
		return
	}
	var zero E
	want := make([]E, n)
	is32 := false
	switch any(zero).(type) {
	case float32:
		is32 = true
	}
	for i, x := range xs {
		switch {
		case zzIsMathWrapper(op):
			want[i] = E(zzNamedMath(op, float64(x)))
		case op == "Abs":
			want[i] = zzAbsF(x)
		case op == "Relu":
			want[i] = zzReluF(x)
		case op == "PRelu":
			want[i] = zzPReluN(x, slope[i])
		case op == "Tanh":
			if is32 {
				want[i] = E(math32.Tanh(float32(x)))
			} else {
				want[i] = E(math.Tanh(float64(x)))
			}
		case op == "Sigmoid":
			if is32 {
				want[i] = E(1 / (1 + math32.Exp(float32(-x))))
			} else {
				want[i] = E(1 / (1 + math.Exp(float64(-x))))
			}
		}
	}
	if op == "Abs" || op == "Relu" || op == "PRelu" {
		// exactly defined, the sign of a zero included (Abs(-0) = +0, Relu(-0) = +0, PRelu(-0) = -0)
		v.AssertTensor("C10.named-function-applied-per-element", r.Outs[0], shape, want)
	} else {
		v.AssertTensorNum("C10.named-function-applied-per-element", r.Outs[0], shape, want)
	}

	// IEEE behaviour of the activations that are built from exp / tanh
	if (op == "Sigmoid" || op == "Tanh") && v.CBool("special") {
		out := r.Outs[0]
		for i, x := range xs {
			if i > 0 {
				break // one element suffices: the elementwise structure is established above
			}
			idx := zzverif.Unravel(i, shape)
			var y E
			if len(shape) == 0 {
				y = out.ScalarValue().(E)
			} else {
				at, _ := out.At(idx...)
				y = at.(E)
			}
			fx := float64(x)
			if op == "Sigmoid" {
				v.Assert("C10.sigmoid-nan", (x != x) == (y != y))
				v.Assert("C10.sigmoid-range", x != x || (y >= 0 && y <= 1))
				v.Assert("C10.sigmoid-plus-inf", fx != math.Inf(1) || y == 1)
				v.Assert("C10.sigmoid-minus-inf", fx != math.Inf(-1) || y == 0)
				v.Assert("C10.sigmoid-halves", x != x || (x < 0 && y <= 0.5) || (x >= 0 && y >= 0.5))
			} else {
				v.Assert("C10.tanh-nan", (x != x) == (y != y))
				v.Assert("C10.tanh-range", x != x || (y >= -1 && y <= 1))
				v.Assert("C10.tanh-inf", (fx != math.Inf(1) || y == 1) && (fx != math.Inf(-1) || y == -1))
			}
		}
	}
}

func c10Int[E int8 | int16 | int32 | int64 | uint8 | uint16 | uint32 | uint64](v *zzverif.T) {
	op := v.CStr("op")
	shape := v.CInts("shape")
	n := zzverif.Prod(shape)
	xs := zzverif.Data[E](v, "x", n)
	X := zzverif.NewTensor(xs, shape)
	snap := v.Snapshot(X)
	inputs := []tensor.Tensor{X}
	var slope []E
	sshape := v.CInts("slope")
	if op == "PRelu" {
		slope = zzverif.Syms[E](v, "s", zzverif.Prod(sshape))
		inputs = append(inputs, zzverif.NewTensor(slope, sshape))
	}
	var slopeSnap *zzverif.Snap
	if len(inputs) == 2 {
		slopeSnap = v.Snapshot(inputs[1])
	}
	r := zzRun(v, op, nil, inputs)
	v.Assert("C10.no-panic", !r.Panicked)
	if r.Panicked {
		return
	}
	v.AssertUnchanged("C10.input-unmodified", X, snap)
	if slopeSnap != nil {
		v.AssertUnchanged("C10.slope-unmodified", inputs[1], slopeSnap)
	}
	if r.Err != nil {
		return // accepted integer types may be refused
	}
	if op == "PRelu" {
		bs, ok := zzverif.BroadcastShape(shape, sshape)
		if !ok || !zzverif.SameInts(bs, shape) {
			v.Assert("C10.slope-not-broadcastable-is-an-error", false)
			return
		}
		slope = zzverif.BroadcastData(slope, sshape, shape)
	}
	want := make([]E, n)
	for i, x := range xs {
		switch op {
		case "Abs":
			want[i] = zzAbsI(x)
		case "PRelu":
			want[i] = zzPReluN(x, slope[i])
		}
	}
	v.AssertTensor("C10.named-function-applied-per-element", r.zzOut0(), shape, want)
}

func c10Not(v *zzverif.T) {
	shape := v.CInts("shape")
	xs := zzverif.Data[bool](v, "x", zzverif.Prod(shape))
	X := zzverif.NewTensor(xs, shape)
	snap := v.Snapshot(X)
	r := zzRun(v, "Not", nil, []tensor.Tensor{X})
	v.Assert("C10.no-panic", !r.Panicked)
	if r.Panicked {
		return
	}
	v.AssertUnchanged("C10.input-unmodified", X, snap)
	v.Assert("C10.bool-input-is-computed", r.Err == nil)
	want := make([]bool, len(xs))
	for i, x := range xs {
		want[i] = !x
	}
	v.AssertTensor("C10.named-function-applied-per-element", r.zzOut0(), shape, want)
}

// H_C10: unary math and activation operators. case: op; shape; dtype; slope (PRelu slope shape)
func H_C10(v *zzverif.T) {
	switch v.CStr("dtype") {
	case "float32":
		c10Float[float32](v)
	case "float64":
		c10Float[float64](v)
	case "int8":
		c10Int[int8](v)
	case "int16":
		c10Int[int16](v)
	case "int32":
		c10Int[int32](v)
	case "int64":
		c10Int[int64](v)
	case "uint8":
		c10Int[uint8](v)
	case "uint16":
		c10Int[uint16](v)
	case "uint32":
		c10Int[uint32](v)
	case "uint64":
		c10Int[uint64](v)
	case "bool":
		c10Not(v)
	}
}
