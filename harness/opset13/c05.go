//go:build verif

package opset13

import (
	"github.com/advancedclimatesystems/gonnx/internal/zzverif"
	"github.com/advancedclimatesystems/gonnx/onnx"
	"gorgonia.org/tensor"
)

func init() {
	zzverif.Register("opset13.H_C05", H_C05)
}

func zzCeilDiv(a, b int) int { return (a + b - 1) / b }

func c05Conv[E float32 | float64](v *zzverif.T) {
	nd := v.CInt("nd") // spatial dims: 1 or 2 (3: must be refused)
	N, C, M := v.CInt("N"), v.CInt("C"), v.CInt("M")
	in := v.CInts("in")       // spatial extents of x
	ks := v.CInts("k")        // spatial extents of the kernel
	strides := v.CInts("strides")
	dil := v.CInts("dilations")
	pads := v.CInts("pads") // begin..., end...
	auto := v.CStr("auto_pad")
	xshape := append([]int{N, C}, in...)
	wshape := append([]int{M, C}, ks...)
	xs := zzverif.Syms[E](v, "x", zzverif.Prod(xshape))
	ws := zzverif.Syms[E](v, "w", zzverif.Prod(wshape))
	X, W := zzverif.NewTensor(xs, xshape), zzverif.NewTensor(ws, wshape)
	inputs := []tensor.Tensor{X, W}
	var bs []E
	if v.CBool("bias") {
		bs = zzverif.Syms[E](v, "b", M)
		inputs = append(inputs, zzverif.NewTensor(bs, []int{M}))
	}
	var attrs []*onnx.AttributeProto
	if auto != "" {
		attrs = append(attrs, zzAttrS("auto_pad", auto))
	}
	if len(strides) > 0 {
		attrs = append(attrs, zzAttrInts("strides", zzInt64s(strides)))
	}
	if len(dil) > 0 {
		attrs = append(attrs, zzAttrInts("dilations", zzInt64s(dil)))
	}
	if len(pads) > 0 {
		attrs = append(attrs, zzAttrInts("pads", zzInt64s(pads)))
	}
	if v.CBool("kernel_shape") {
		attrs = append(attrs, zzAttrInts("kernel_shape", zzInt64s(ks)))
	}
	if v.Has("group") {
		attrs = append(attrs, zzAttrI("group", int64(v.CInt("group"))))
	}
	snaps := make([]*zzverif.Snap, len(inputs))
	for i := range inputs {
		snaps[i] = v.Snapshot(inputs[i])
	}
	inst, ierr, panicked := zzInitOp(v, "Conv", attrs)
	v.Assert("C05.no-panic", !panicked)
	if panicked {
		return
	}
	if v.Has("group") && v.CInt("group") != 1 {
		v.Assert("C05.group-other-than-1-is-refused", ierr != nil)
		return
	}
	v.Assert("C05.init", ierr == nil)
	if ierr != nil {
		return
	}
	// geometry per ONNX
	s := make([]int, nd)
	d := make([]int, nd)
	pb := make([]int, nd)
	pe := make([]int, nd)
	outSp := make([]int, nd)
	valid := nd <= 2
	for i := 0; i < nd; i++ {
		s[i], d[i] = 1, 1
		if len(strides) > 0 {
			s[i] = strides[i]
		}
		if len(dil) > 0 {
			d[i] = dil[i]
		}
		keff := d[i]*(ks[i]-1) + 1
		switch auto {
		case "SAME_UPPER", "SAME_LOWER":
			o := zzCeilDiv(in[i], s[i])
			total := (o-1)*s[i] + keff - in[i]
			if total < 0 {
				total = 0
			}
			if auto == "SAME_LOWER" {
				pb[i] = (total + 1) / 2
			} else {
				pb[i] = total / 2
			}
			pe[i] = total - pb[i]
		case "VALID":
		default:
			if len(pads) > 0 {
				pb[i], pe[i] = pads[i], pads[i+nd]
			}
		}
		num := in[i] + pb[i] + pe[i] - keff
		if num < 0 {
			valid = false
		} else {
			outSp[i] = num/s[i] + 1
		}
	}
	v.Region("C05.auto_pad-VALID-computed-as-SAME_UPPER", auto == "VALID")
	anyUnit, allUnit := false, true
	for _, e := range ks {
		if e == 1 {
			anyUnit = true
		} else {
			allUnit = false
		}
	}
	v.Region("C05.kernel-with-unit-spatial-extent", nd <= 2 && anyUnit && (C > 1 || !allUnit))
	for round := 0; round < 2; round++ {
		if round == 1 {
			// second application of the same instance: other values (same shapes) for x, w and the bias
			xs = zzverif.Syms[E](v, "x2", zzverif.Prod(xshape))
			ws = zzverif.Syms[E](v, "w2", zzverif.Prod(wshape))
			inputs = []tensor.Tensor{zzverif.NewTensor(xs, xshape), zzverif.NewTensor(ws, wshape)}
			if bs != nil {
				bs = zzverif.Syms[E](v, "b2", M)
				inputs = append(inputs, zzverif.NewTensor(bs, []int{M}))
			}
			for i := range inputs {
				snaps[i] = v.Snapshot(inputs[i])
			}
		}
		r := zzApplyOn(v, inst, inputs)
		v.Assert("C05.no-panic", !r.Panicked)
		if r.Panicked {
			return
		}
		for i := range inputs {
			v.AssertUnchanged("C05.input-unmodified", inputs[i], snaps[i])
		}
		if !valid {
			v.Assert("C05.unsupported-configuration-is-refused", r.Err != nil)
			continue
		}
		v.Assert("C05.supported-configuration-is-computed", r.Err == nil && len(r.Outs) == 1)
		if r.Err != nil || len(r.Outs) != 1 {
			return
		}
		outShape := append([]int{N, M}, outSp...)
		want := make([]E, zzverif.Prod(outShape))
		for f := range want {
			o := zzverif.Unravel(f, outShape)
			n, m := o[0], o[1]
			var sum E
			kidx := make([]int, nd)
			for c := 0; c < C; c++ {
				for kf := 0; kf < zzverif.Prod(ks); kf++ {
					kidx = zzverif.Unravel(kf, ks)
					xi := []int{n, c}
					inside := true
					for i := 0; i < nd; i++ {
						p := o[2+i]*s[i] + kidx[i]*d[i] - pb[i]
						if p < 0 || p >= in[i] {
							inside = false
						}
						xi = append(xi, p)
					}
					if inside {
						wi := append([]int{m, c}, kidx...)
						sum += xs[zzverif.Ravel(xi, xshape)] * ws[zzverif.Ravel(wi, wshape)]
					}
				}
			}
			if bs != nil {
				sum += bs[m]
			}
			want[f] = sum
		}
		v.AssertTensor("C05.direct-convolution", r.Outs[0], outShape, want)
	}
}

// H_C05: Conv against direct convolution. case: nd, N, C, M, in, k, strides, dilations, pads, auto_pad,
// kernel_shape (bool), bias (bool), dtype, group (optional)
func H_C05(v *zzverif.T) {
	v.Ring()
	if v.CStr("dtype") == "float64" {
		c05Conv[float64](v)
	} else {
		c05Conv[float32](v)
	}
}
