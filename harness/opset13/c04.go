//go:build verif

package opset13

import (
	"github.com/advancedclimatesystems/gonnx/internal/zzverif"
	"github.com/advancedclimatesystems/gonnx/onnx"
	"gorgonia.org/tensor"
)

func init() {
	zzverif.Register("opset13.H_C04_matmul", H_C04_matmul)
	zzverif.Register("opset13.H_C04_gemm", H_C04_gemm)
	zzverif.Register("opset13.H_C04_linreg", H_C04_linreg)
	zzverif.Register("opset13.H_C04_scaler", H_C04_scaler)
}

// zzMatmulRef: numpy.matmul on row-major data. ok=false when the shapes do not multiply.
func zzMatmulRef(a []float32, sa []int, b []float32, sb []int) (out []float32, shape []int, ok bool) {
	if len(sa) == 0 || len(sb) == 0 {
		return nil, nil, false
	}
	a2, b2 := sa, sb
	if len(sa) == 1 {
		a2 = []int{1, sa[0]}
	}
	if len(sb) == 1 {
		b2 = []int{sb[0], 1}
	}
	m, k := a2[len(a2)-2], a2[len(a2)-1]
	k2, n := b2[len(b2)-2], b2[len(b2)-1]
	if k != k2 {
		return nil, nil, false
	}
	ba, bb := a2[:len(a2)-2], b2[:len(b2)-2]
	bs, okb := zzverif.BroadcastShape(ba, bb)
	if !okb {
		return nil, nil, false
	}
	full := append(append([]int{}, bs...), m, n)
	out = make([]float32, zzverif.Prod(full))
	for f := range out {
		idx := zzverif.Unravel(f, full)
		i, j := idx[len(bs)], idx[len(bs)+1]
		// batch index into a and b (broadcast: stretched axes pinned to 0, right aligned)
		ia := make([]int, len(a2))
		ib := make([]int, len(b2))
		for q := range ba {
			if ba[q] != 1 {
				ia[q] = idx[len(bs)-len(ba)+q]
			}
		}
		for q := range bb {
			if bb[q] != 1 {
				ib[q] = idx[len(bs)-len(bb)+q]
			}
		}
		var sum float32
		for l := 0; l < k; l++ {
			ia[len(a2)-2], ia[len(a2)-1] = i, l
			ib[len(b2)-2], ib[len(b2)-1] = l, j
			sum += a[zzverif.Ravel(ia, a2)] * b[zzverif.Ravel(ib, b2)]
		}
		out[f] = sum
	}
	shape = append([]int{}, bs...)
	if len(sa) != 1 {
		shape = append(shape, m)
	}
	if len(sb) != 1 {
		shape = append(shape, n)
	}
	return out, shape, true
}

// H_C04_matmul. case: a, b shapes
func H_C04_matmul(v *zzverif.T) {
	v.Ring()
	sa, sb := v.CInts("a"), v.CInts("b")
	da := zzverif.Syms[float32](v, "a", zzverif.Prod(sa))
	db := zzverif.Syms[float32](v, "b", zzverif.Prod(sb))
	A, B := zzverif.NewTensor(da, sa), zzverif.NewTensor(db, sb)
	snapA, snapB := v.Snapshot(A), v.Snapshot(B)
	inst, ierr, panicked := zzInitOp(v, "MatMul", nil)
	v.Assert("C04.no-panic", !panicked && ierr == nil)
	if panicked || ierr != nil {
		return
	}
	want, shape, ok := zzMatmulRef(da, sa, db, sb)
	if ok && (len(sa) != 2 || len(sb) != 2) {
		// the batched path slices one matrix at a time; a 1x1 matrix comes back from the
		// tensor library as a scalar, which its MatMul then refuses
		m, k, n := 1, sa[len(sa)-1], 1
		if len(sa) > 1 {
			m = sa[len(sa)-2]
		}
		if len(sb) > 1 {
			n = sb[len(sb)-1]
		}
		v.Region("C04.matmul-batched-path-with-1x1-matrix", m*k == 1 || k*n == 1)
	}
	// the same operator instance and the same tensors are used twice in a row
	for round := 0; round < 2; round++ {
		r := zzApplyOn(v, inst, []tensor.Tensor{A, B})
		v.Assert("C04.no-panic", !r.Panicked)
		if r.Panicked {
			return
		}
		v.AssertUnchanged("C04.operand-A-unmodified", A, snapA)
		v.AssertUnchanged("C04.operand-B-unmodified", B, snapB)
		if !ok {
			v.Assert("C04.shapes-that-do-not-multiply-are-an-error", r.Err != nil)
			continue
		}
		v.Assert("C04.float32-operands-are-computed", r.Err == nil && len(r.Outs) == 1)
		if r.Err != nil || len(r.Outs) != 1 {
			return
		}
		v.AssertTensor("C04.matmul-values", r.Outs[0], shape, want)
	}
}

// H_C04_gemm. case: m,k,n; transA, transB (0/1); c []int (shape of C) or cabsent; alpha/beta given or default
func H_C04_gemm(v *zzverif.T) {
	v.Ring()
	m, k, n := v.CInt("m"), v.CInt("k"), v.CInt("n")
	tA, tB := v.CInt("transA") == 1, v.CInt("transB") == 1
	sa, sb := []int{m, k}, []int{k, n}
	if tA {
		sa = []int{k, m}
	}
	if tB {
		sb = []int{n, k}
	}
	if v.Has("ashape") {
		sa = v.CInts("ashape") // deliberately ill-shaped A
	}
	da := zzverif.Syms[float32](v, "a", zzverif.Prod(sa))
	db := zzverif.Syms[float32](v, "b", zzverif.Prod(sb))
	inputs := []tensor.Tensor{zzverif.NewTensor(da, sa), zzverif.NewTensor(db, sb)}
	var dc []float32
	sc := v.CInts("c")
	hasC := !v.CBool("cabsent")
	if hasC {
		dc = zzverif.Syms[float32](v, "c", zzverif.Prod(sc))
		inputs = append(inputs, zzverif.NewTensor(dc, sc))
	}
	var attrs []*onnx.AttributeProto
	alpha, beta := float32(1), float32(1)
	if v.CBool("scalars") {
		alpha, beta = zzverif.Sym[float32](v, "alpha"), zzverif.Sym[float32](v, "beta")
		attrs = append(attrs, zzAttrF("alpha", alpha), zzAttrF("beta", beta))
	}
	if tA || v.CBool("explicit") {
		attrs = append(attrs, zzAttrI("transA", int64(v.CInt("transA"))))
	}
	if tB || v.CBool("explicit") {
		attrs = append(attrs, zzAttrI("transB", int64(v.CInt("transB"))))
	}
	snaps := make([]*zzverif.Snap, len(inputs))
	for i := range inputs {
		snaps[i] = v.Snapshot(inputs[i])
	}
	r := zzRun(v, "Gemm", attrs, inputs)
	v.Assert("C04.no-panic", !r.Panicked)
	if r.Panicked {
		return
	}
	for i := range inputs {
		v.AssertUnchanged("C04.gemm-input-unmodified", inputs[i], snaps[i])
	}
	valid := !v.Has("ashape")
	var cb []float32
	if valid && hasC {
		bs, ok := zzverif.BroadcastShape([]int{m, n}, sc)
		if !ok || !zzverif.SameInts(bs, []int{m, n}) {
			valid = false
		} else {
			cb = zzverif.BroadcastData(dc, sc, []int{m, n})
		}
	}
	if !valid {
		v.Assert("C04.gemm-invalid-shapes-are-an-error", r.Err != nil)
		return
	}
	v.Assert("C04.float32-operands-are-computed", r.Err == nil && len(r.Outs) == 1)
	if r.Err != nil || len(r.Outs) != 1 {
		return
	}
	want := make([]float32, m*n)
	for i := 0; i < m; i++ {
		for j := 0; j < n; j++ {
			var sum float32
			for l := 0; l < k; l++ {
				ai := i*k + l
				if tA {
					ai = l*m + i
				}
				bi := l*n + j
				if tB {
					bi = j*k + l
				}
				sum += da[ai] * db[bi]
			}
			want[i*n+j] = sum * alpha
			if hasC {
				want[i*n+j] += cb[i*n+j] * beta
			}
		}
	}
	v.AssertTensor("C04.gemm-values", r.Outs[0], []int{m, n}, want)
}

// H_C04_linreg. case: targets, features, batch; intercepts (bool); xrank (1 or 2)
func H_C04_linreg(v *zzverif.T) {
	v.Ring()
	t, f, nb := v.CInt("targets"), v.CInt("features"), v.CInt("batch")
	coef := zzverif.Syms[float32](v, "w", t*f)
	attrs := []*onnx.AttributeProto{zzAttrFloats("coefficients", append([]float32(nil), coef...))}
	var icpt []float32
	if v.CBool("intercepts") {
		icpt = zzverif.Syms[float32](v, "i", t)
		attrs = append(attrs, zzAttrFloats("intercepts", append([]float32(nil), icpt...)))
	}
	if t != 1 || v.CBool("explicit") {
		attrs = append(attrs, zzAttrI("targets", int64(t)))
	}
	xs := zzverif.Syms[float32](v, "x", nb*f)
	X := zzverif.NewTensor(xs, []int{nb, f})
	snap := v.Snapshot(X)
	inst, ierr, panicked := zzInitOp(v, "LinearRegressor", attrs)
	v.Assert("C04.no-panic", !panicked)
	if panicked {
		return
	}
	v.Assert("C04.linreg-init", ierr == nil)
	if ierr != nil {
		return
	}
	want := make([]float32, nb*t)
	for b := 0; b < nb; b++ {
		for j := 0; j < t; j++ {
			var sum float32
			for q := 0; q < f; q++ {
				sum += xs[b*f+q] * coef[j*f+q]
			}
			if icpt != nil {
				sum += icpt[j]
			}
			want[b*t+j] = sum
		}
	}
	for round := 0; round < 2; round++ {
		r := zzApplyOn(v, inst, []tensor.Tensor{X})
		v.Assert("C04.no-panic", !r.Panicked)
		if r.Panicked {
			return
		}
		v.AssertUnchanged("C04.linreg-input-unmodified", X, snap)
		v.Assert("C04.float32-operands-are-computed", r.Err == nil && len(r.Outs) == 1)
		if r.Err != nil || len(r.Outs) != 1 {
			return
		}
		v.AssertTensor("C04.linreg-values", r.Outs[0], []int{nb, t}, want)
	}
}

// H_C04_scaler. case: shape (of X); n (length of offset/scale)
func H_C04_scaler(v *zzverif.T) {
	// "ieee": the result is the float32 value of (x - offset) * scale, rounded after each of the two operations -
	// not of an algebraically equal expression (x*scale - offset*scale cancels and overflows differently)
	if !(v.Has("ieee") && v.CBool("ieee")) {
		v.Ring()
	}
	shape := v.CInts("shape")
	n := v.CInt("n")
	xs := zzverif.Syms[float32](v, "x", zzverif.Prod(shape))
	// offset and scale may have different lengths (case key "ns": length of scale; default: the same)
	ns := n
	if v.Has("ns") {
		ns = v.CInt("ns")
	}
	off := zzverif.Syms[float32](v, "o", n)
	sc := zzverif.Syms[float32](v, "s", ns)
	attrs := []*onnx.AttributeProto{zzAttrFloats("offset", append([]float32(nil), off...)), zzAttrFloats("scale", append([]float32(nil), sc...))}
	X := zzverif.NewTensor(xs, shape)
	snap := v.Snapshot(X)
	inst, ierr, panicked := zzInitOp(v, "Scaler", attrs)
	v.Assert("C04.no-panic", !panicked && ierr == nil)
	if panicked || ierr != nil {
		return
	}
	c := 1
	if len(shape) > 0 {
		c = shape[len(shape)-1]
	}
	for round := 0; round < 2; round++ {
		r := zzApplyOn(v, inst, []tensor.Tensor{X})
		v.Assert("C04.no-panic", !r.Panicked)
		if r.Panicked {
			return
		}
		v.AssertUnchanged("C04.scaler-input-unmodified", X, snap)
		if (n != c && n != 1) || (ns != c && ns != 1) {
			v.Assert("C04.scaler-wrong-length-is-an-error", r.Err != nil)
			continue
		}
		v.Assert("C04.float32-operands-are-computed", r.Err == nil && len(r.Outs) == 1)
		if r.Err != nil || len(r.Outs) != 1 {
			return
		}
		want := make([]float32, len(xs))
		for i, x := range xs {
			qo, qs := i%c, i%c
			if n == 1 {
				qo = 0
			}
			if ns == 1 {
				qs = 0
			}
			want[i] = (x - off[qo]) * sc[qs]
		}
		v.AssertTensor("C04.scaler-values", r.Outs[0], shape, want)
	}
}

func init() {
	zzverif.Register("opset13.H_C04_matmul_int", H_C04_matmul_int)
	zzverif.Register("opset13.H_C04_linreg_ragged", H_C04_linreg_ragged)
}

// H_C04_matmul_int: integer operands are computed exactly (wrapping two's complement arithmetic) or refused;
// never answered with something else. case: n (vector length: the product is a dot product), dtype "int64"|"int32"
func H_C04_matmul_int(v *zzverif.T) {
	n := v.CInt("n")
	run := func(A, B tensor.Tensor, want interface{}) {
		r := zzRun(v, "MatMul", nil, []tensor.Tensor{A, B})
		v.Assert("C04.no-panic", !r.Panicked)
		if r.Panicked || r.Err != nil {
			return // refused: allowed
		}
		v.Assert("C04.integer-product-has-one-output", len(r.Outs) == 1)
		if len(r.Outs) == 1 {
			v.AssertTensor("C04.integer-matmul-values-are-exact", r.Outs[0], []int{}, want)
		}
	}
	if v.CStr("dtype") == "int32" {
		a, b := zzverif.Syms[int32](v, "a", n), zzverif.Syms[int32](v, "b", n)
		var s int32
		for i := range a {
			s += a[i] * b[i]
		}
		run(zzverif.NewTensor(a, []int{n}), zzverif.NewTensor(b, []int{n}), []int32{s})
		return
	}
	a, b := zzverif.Syms[int64](v, "a", n), zzverif.Syms[int64](v, "b", n)
	var s int64
	for i := range a {
		s += a[i] * b[i]
	}
	run(zzverif.NewTensor(a, []int{n}), zzverif.NewTensor(b, []int{n}), []int64{s})
}

// H_C04_linreg_ragged: a coefficient list whose length is not a multiple of targets describes no matrix:
// the node is refused (at Init or at Apply), not answered. case: ncoef, targets
func H_C04_linreg_ragged(v *zzverif.T) {
	v.Ring()
	nc, t := v.CInt("ncoef"), v.CInt("targets")
	coef := zzverif.Syms[float32](v, "w", nc)
	attrs := []*onnx.AttributeProto{zzAttrFloats("coefficients", append([]float32(nil), coef...)), zzAttrI("targets", int64(t))}
	f := nc / t
	if f < 1 {
		f = 1
	}
	xs := zzverif.Syms[float32](v, "x", f)
	r := zzRun(v, "LinearRegressor", attrs, []tensor.Tensor{zzverif.NewTensor(xs, []int{1, f})})
	v.Assert("C04.no-panic", !r.Panicked)
	if r.Panicked {
		return
	}
	v.Assert("C04.linreg-ragged-coefficients-are-refused", r.Err != nil)
}
