//go:build verif

package opset13

// zzGolden: arity and allowed element types per input position of every operator of the opset, as of the
// pinned tree (generated; the independent reference for the input gate: an operator whose own declaration
// changes does not move it).
var zzGolden = map[string]zzGoldenOp{
	"Abs":             {1, 1, [][]string{{"uint8", "uint16", "uint32", "uint64", "int8", "int16", "int32", "int64", "float32", "float64"}}},
	"Acos":            {1, 1, [][]string{{"float32", "float64"}}},
	"Acosh":           {1, 1, [][]string{{"float32", "float64"}}},
	"Add":             {2, 2, [][]string{{"uint32", "uint64", "int32", "int64", "float32", "float64"}, {"uint32", "uint64", "int32", "int64", "float32", "float64"}}},
	"And":             {2, 2, [][]string{{"bool"}, {"bool"}}},
	"ArgMax":          {1, 1, [][]string{{"uint32", "uint64", "int32", "int64", "float32", "float64"}}},
	"Asin":            {1, 1, [][]string{{"float32", "float64"}}},
	"Asinh":           {1, 1, [][]string{{"float32", "float64"}}},
	"Atan":            {1, 1, [][]string{{"float32", "float64"}}},
	"Atanh":           {1, 1, [][]string{{"float32", "float64"}}},
	"Cast":            {1, 1, [][]string{{"int8", "uint8", "int16", "uint16", "int32", "uint32", "int64", "uint64", "float32", "float64"}}},
	"Concat":          {1, 0, [][]string{}},
	"Constant":        {0, 0, [][]string{}},
	"ConstantOfShape": {1, 1, [][]string{{"int64"}}},
	"Conv":            {2, 3, [][]string{{"float32", "float64"}, {"float32", "float64"}, {"float32", "float64"}}},
	"Cos":             {1, 1, [][]string{{"float32", "float64"}}},
	"Cosh":            {1, 1, [][]string{{"float32", "float64"}}},
	"Div":             {2, 2, [][]string{{"uint32", "uint64", "int32", "int64", "float32", "float64"}, {"uint32", "uint64", "int32", "int64", "float32", "float64"}}},
	"Equal":           {2, 2, [][]string{{"uint8", "uint16", "uint32", "uint64", "int8", "int16", "int32", "int64", "float32", "float64", "complex64", "complex128", "string", "bool"}, {"uint8", "uint16", "uint32", "uint64", "int8", "int16", "int32", "int64", "float32", "float64", "complex64", "complex128", "string", "bool"}}},
	"Expand":          {2, 2, [][]string{{"uint8", "uint16", "uint32", "uint64", "int8", "int16", "int32", "int64", "float32", "float64", "complex64", "complex128", "string", "bool"}, {"int64"}}},
	"Flatten":         {1, 1, [][]string{{"uint8", "uint16", "uint32", "uint64", "int8", "int16", "int32", "int64", "float32", "float64", "complex64", "complex128", "string", "bool"}}},
	"GRU":             {3, 6, [][]string{{"float32", "float64"}, {"float32", "float64"}, {"float32", "float64"}, {"float32", "float64"}, {"int32"}, {"float32", "float64"}}},
	"Gather":          {2, 2, [][]string{{"uint8", "uint16", "uint32", "uint64", "int8", "int16", "int32", "int64", "float32", "float64", "complex64", "complex128", "string", "bool"}, {"int32", "int64"}}},
	"Gemm":            {2, 3, [][]string{{"uint32", "uint64", "int32", "int64", "float32", "float64"}, {"uint32", "uint64", "int32", "int64", "float32", "float64"}, {"uint32", "uint64", "int32", "int64", "float32", "float64"}}},
	"Greater":         {2, 2, [][]string{{"uint8", "uint16", "uint32", "uint64", "int8", "int16", "int32", "int64", "float32", "float64", "complex64", "complex128", "string", "bool"}, {"uint8", "uint16", "uint32", "uint64", "int8", "int16", "int32", "int64", "float32", "float64", "complex64", "complex128", "string", "bool"}}},
	"GreaterOrEqual":  {2, 2, [][]string{{"uint8", "uint16", "uint32", "uint64", "int8", "int16", "int32", "int64", "float32", "float64", "complex64", "complex128", "string", "bool"}, {"uint8", "uint16", "uint32", "uint64", "int8", "int16", "int32", "int64", "float32", "float64", "complex64", "complex128", "string", "bool"}}},
	"LSTM":            {3, 8, [][]string{{"float32", "float64"}, {"float32", "float64"}, {"float32", "float64"}, {"float32", "float64"}, {"int32"}, {"float32", "float64"}, {"float32", "float64"}, {"float32", "float64"}}},
	"Less":            {2, 2, [][]string{{"uint8", "uint16", "uint32", "uint64", "int8", "int16", "int32", "int64", "float32", "float64", "complex64", "complex128", "string", "bool"}, {"uint8", "uint16", "uint32", "uint64", "int8", "int16", "int32", "int64", "float32", "float64", "complex64", "complex128", "string", "bool"}}},
	"LessOrEqual":     {2, 2, [][]string{{"uint8", "uint16", "uint32", "uint64", "int8", "int16", "int32", "int64", "float32", "float64", "complex64", "complex128", "string", "bool"}, {"uint8", "uint16", "uint32", "uint64", "int8", "int16", "int32", "int64", "float32", "float64", "complex64", "complex128", "string", "bool"}}},
	"LinearRegressor": {1, 1, [][]string{{"int32", "int64", "float32", "float64"}}},
	"LogSoftmax":      {1, 1, [][]string{{"float32", "float64"}}},
	"MatMul":          {2, 2, [][]string{{"uint32", "uint64", "int32", "int64", "float32", "float64"}, {"uint32", "uint64", "int32", "int64", "float32", "float64"}}},
	"Mul":             {2, 2, [][]string{{"uint32", "uint64", "int32", "int64", "float32", "float64"}, {"uint32", "uint64", "int32", "int64", "float32", "float64"}}},
	"Not":             {1, 1, [][]string{{"bool"}}},
	"Or":              {2, 2, [][]string{{"bool"}, {"bool"}}},
	"PRelu":           {2, 2, [][]string{{"uint32", "uint64", "int32", "int64", "float32", "float64"}, {"uint32", "uint64", "int32", "int64", "float32", "float64"}}},
	"RNN":             {3, 6, [][]string{{"float32", "float64"}, {"float32", "float64"}, {"float32", "float64"}, {"float32", "float64"}, {"int32"}, {"float32", "float64"}}},
	"ReduceMax":       {1, 1, [][]string{{"uint8", "int8", "uint32", "uint64", "int32", "int64", "float32", "float64"}}},
	"ReduceMin":       {1, 1, [][]string{{"uint8", "int8", "uint32", "uint64", "int32", "int64", "float32", "float64"}}},
	"Relu":            {1, 1, [][]string{{"float32", "float64"}}},
	"Reshape":         {2, 2, [][]string{{"uint8", "uint16", "uint32", "uint64", "int8", "int16", "int32", "int64", "float32", "float64", "complex64", "complex128", "string", "bool"}, {"int64"}}},
	"Scaler":          {1, 1, [][]string{{"int32", "int64", "float32", "float64"}}},
	"Shape":           {1, 1, [][]string{{"uint8", "uint16", "uint32", "uint64", "int8", "int16", "int32", "int64", "float32", "float64", "complex64", "complex128", "string", "bool"}}},
	"Sigmoid":         {1, 1, [][]string{{"float32", "float64"}}},
	"Sin":             {1, 1, [][]string{{"float32", "float64"}}},
	"Sinh":            {1, 1, [][]string{{"float32", "float64"}}},
	"Slice":           {3, 5, [][]string{{"uint8", "uint16", "uint32", "uint64", "int8", "int16", "int32", "int64", "float32", "float64", "complex64", "complex128", "string", "bool"}, {"int32", "int64"}, {"int32", "int64"}, {"int32", "int64"}, {"int32", "int64"}}},
	"Softmax":         {1, 1, [][]string{{"float32", "float64"}}},
	"Squeeze":         {1, 2, [][]string{{"uint8", "uint16", "uint32", "uint64", "int8", "int16", "int32", "int64", "float32", "float64", "complex64", "complex128", "string", "bool"}, {"int64"}}},
	"Sub":             {2, 2, [][]string{{"uint32", "uint64", "int32", "int64", "float32", "float64"}, {"uint32", "uint64", "int32", "int64", "float32", "float64"}}},
	"Tan":             {1, 1, [][]string{{"float32", "float64"}}},
	"Tanh":            {1, 1, [][]string{{"float32", "float64"}}},
	"Transpose":       {1, 1, [][]string{{"uint8", "uint16", "uint32", "uint64", "int8", "int16", "int32", "int64", "float32", "float64", "complex64", "complex128", "string", "bool"}}},
	"Unsqueeze":       {2, 2, [][]string{{"uint8", "uint16", "uint32", "uint64", "int8", "int16", "int32", "int64", "float32", "float64", "complex64", "complex128", "string", "bool"}, {"int64"}}},
	"Xor":             {2, 2, [][]string{{"bool"}, {"bool"}}},
}

type zzGoldenOp struct {
	min, max int
	types    [][]string
}
