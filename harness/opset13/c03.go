//go:build verif

package opset13

import (
	"github.com/advancedclimatesystems/gonnx/internal/zzverif"
	"gorgonia.org/tensor"
)

func init() {
	zzverif.Register("opset13.H_C03", H_C03)
}

type zzNumber interface {
	~int8 | ~int16 | ~int32 | ~int64 | ~uint8 | ~uint16 | ~uint32 | ~uint64 | ~float32 | ~float64
}

func zzIsInt[E zzNumber]() bool {
	var z E
	switch any(z).(type) {
	case float32, float64:
		return false
	}
	return true
}

// c03Run builds the operands, runs the operator and checks shape / error behaviour.
// It returns the (broadcast) operand data and the output when there is one to compare.
func c03Run[E zzverif.Scalar](v *zzverif.T, mustCompute bool) (xa, xb []E, outShape []int, out tensor.Tensor, ok bool) {
	op := v.CStr("op")
	sa, sb := v.CInts("a"), v.CInts("b")
	da := zzverif.Data[E](v, "a", zzverif.Prod(sa))
	A := zzverif.NewTensor(da, sa)
	var db []E
	var B tensor.Tensor
	if v.CBool("same") {
		// the same tensor object wired to both inputs
		db, sb, B = da, sa, A
	} else {
		db = zzverif.Data[E](v, "b", zzverif.Prod(sb))
		B = zzverif.NewTensor(db, sb)
	}
	if op == "Div" {
		var z E
		switch any(z).(type) {
		case float32, float64:
		default:
			for _, d := range db {
				v.Assume(d != z) // integer division by zero is outside the property
			}
		}
	}
	if op == "Div" {
		var z E
		switch any(z).(type) {
		case float32, float64:
			anyZero := false
			for _, d := range db {
				if d == z {
					anyZero = true
				}
			}
			v.Region("C03.float-div-by-zero", anyZero)
		}
	}
	snapA, snapB := v.Snapshot(A), v.Snapshot(B)
	outShape, compatible := zzverif.BroadcastShape(sa, sb)
	r := zzRun(v, op, nil, []tensor.Tensor{A, B})
	v.Assert("C03.no-panic", !r.Panicked)
	if r.Panicked {
		return
	}
	v.AssertUnchanged("C03.input-A-unmodified", A, snapA)
	v.AssertUnchanged("C03.input-B-unmodified", B, snapB)
	if !compatible {
		v.Assert("C03.incompatible-shapes-are-an-error", r.Err != nil)
		return
	}
	if r.Err != nil {
		// float32/float64/int32/int64 (bool for logic) must be computed; other accepted types may be refused
		v.Assert("C03.computed-not-refused", !mustCompute)
		return
	}
	v.Assert("C03.one-output", len(r.Outs) == 1)
	if len(r.Outs) != 1 {
		return
	}
	return zzverif.BroadcastData(da, sa, outShape), zzverif.BroadcastData(db, sb, outShape), outShape, r.Outs[0], true
}

func c03Arith[E zzNumber](v *zzverif.T, must bool) {
	xa, xb, shape, out, ok := c03Run[E](v, must)
	if !ok {
		return
	}
	want := make([]E, len(xa))
	for i := range want {
		switch v.CStr("op") {
		case "Add":
			want[i] = xa[i] + xb[i]
		case "Sub":
			want[i] = xa[i] - xb[i]
		case "Mul":
			want[i] = xa[i] * xb[i]
		case "Div":
			want[i] = xa[i] / xb[i]
		}
	}
	v.AssertTensor("C03.values", out, shape, want)
}

func c03Cmp[E zzNumber](v *zzverif.T, must bool) {
	xa, xb, shape, out, ok := c03Run[E](v, must)
	if !ok {
		return
	}
	want := make([]bool, len(xa))
	for i := range want {
		switch v.CStr("op") {
		case "Equal":
			want[i] = xa[i] == xb[i]
		case "Greater":
			want[i] = xa[i] > xb[i]
		case "GreaterOrEqual":
			want[i] = xa[i] >= xb[i]
		case "Less":
			want[i] = xa[i] < xb[i]
		case "LessOrEqual":
			want[i] = xa[i] <= xb[i]
		}
	}
	v.AssertTensor("C03.values", out, shape, want)
}

func c03Bool(v *zzverif.T) {
	op := v.CStr("op")
	must := op == "And" || op == "Or" || op == "Xor"
	xa, xb, shape, out, ok := c03Run[bool](v, must)
	if !ok {
		return
	}
	want := make([]bool, len(xa))
	for i := range want {
		switch op {
		case "And":
			want[i] = xa[i] && xb[i]
		case "Or":
			want[i] = xa[i] || xb[i]
		case "Xor":
			want[i] = xa[i] != xb[i]
		case "Equal":
			want[i] = xa[i] == xb[i]
		}
	}
	v.AssertTensor("C03.values", out, shape, want)
}

func c03Dispatch[E zzNumber](v *zzverif.T, must bool) {
	switch v.CStr("op") {
	case "Add", "Sub", "Mul", "Div":
		c03Arith[E](v, must)
	default:
		c03Cmp[E](v, must)
	}
}

// H_C03: elementwise binary operators with broadcasting.
// case: op; a, b shapes; dtype; same (bool: one tensor object for both inputs)
func H_C03(v *zzverif.T) {
	switch v.CStr("dtype") {
	case "float32":
		c03Dispatch[float32](v, true)
	case "float64":
		c03Dispatch[float64](v, true)
	case "int32":
		c03Dispatch[int32](v, true)
	case "int64":
		c03Dispatch[int64](v, true)
	case "uint32":
		c03Dispatch[uint32](v, false)
	case "uint64":
		c03Dispatch[uint64](v, false)
	case "int8":
		c03Dispatch[int8](v, false)
	case "int16":
		c03Dispatch[int16](v, false)
	case "uint8":
		c03Dispatch[uint8](v, false)
	case "uint16":
		c03Dispatch[uint16](v, false)
	case "bool":
		c03Bool(v)
	}
}
