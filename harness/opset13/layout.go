//go:build verif

package opset13

import (
	"github.com/advancedclimatesystems/gonnx/internal/zzverif"
	"github.com/advancedclimatesystems/gonnx/ops"
	"gorgonia.org/tensor"
)

func init() {
	zzverif.Register("opset13.H_layout", H_layout)
}

// zzMargin: the data of shape extended by one cell before and one behind along axis; the margin cells hold the
// element from the OTHER end of that axis (values a correct reader never sees at those places).
func zzMargin[E any](xs []E, shape []int, axis int) ([]E, []int) {
	full := append([]int{}, shape...)
	full[axis] += 2
	out := make([]E, zzverif.Prod(full))
	n := shape[axis]
	for f := range out {
		idx := zzverif.Unravel(f, full)
		switch p := idx[axis]; {
		case p == 0: // the cell before the view: NOT the view's first element
			idx[axis] = n - 1
		case p == n+1: // the cell behind the view: NOT its last element
			idx[axis] = 0
		default:
			idx[axis] = p - 1
		}
		out[f] = xs[zzverif.Ravel(idx, shape)]
	}
	return out, full
}

func zzViewOf[E any](xs []E, shape []int, axis int) tensor.Tensor {
	d, full := zzMargin(xs, shape, axis)
	parent := zzverif.NewTensor(d, full)
	sl := make([]tensor.Slice, axis+1)
	sl[axis] = ops.NewSlicer(1, 1+shape[axis])
	w, err := parent.Slice(sl...)
	if err != nil {
		panic(err)
	}
	return w
}

// zzColumnOf: a vector handed over as the middle column of a three-column matrix (a strided rank-1 view).
func zzColumnOf[E any](xs []E) tensor.Tensor {
	n := len(xs)
	d := make([]E, 3*n)
	for i := 0; i < n; i++ {
		d[3*i], d[3*i+1], d[3*i+2] = xs[(i+1)%n], xs[i], xs[(i+n-1)%n]
	}
	parent := zzverif.NewTensor(d, []int{n, 3})
	w, err := parent.Slice(nil, ops.NewSlicer(1, 2))
	if err != nil {
		panic(err)
	}
	if len(w.Shape()) != 1 {
		if err := w.Reshape(n); err != nil {
			panic(err)
		}
	}
	return w
}

// zzColMajorOf: the logical tensor stored in column-major order (tensor.AsFortran).
func zzColMajorOf[E any](xs []E, shape []int) tensor.Tensor {
	cm := make([]E, len(xs))
	for f := range xs {
		idx := zzverif.Unravel(f, shape)
		pos, stride := 0, 1
		for k := 0; k < len(shape); k++ {
			pos += idx[k] * stride
			stride *= shape[k]
		}
		cm[pos] = xs[f]
	}
	return tensor.New(tensor.WithShape(shape...), tensor.AsFortran(cm))
}

// zzLazyTOf: the logical tensor (rows, cols) stored transposed and handed over as x.T() (strides say
// "transposed", the elements have not moved).
func zzLazyTOf[E any](xs []E, shape []int) tensor.Tensor {
	r, c := shape[0], shape[1]
	tr := make([]E, len(xs))
	for i := 0; i < r; i++ {
		for j := 0; j < c; j++ {
			tr[j*r+i] = xs[i*c+j]
		}
	}
	t := zzverif.NewTensor(tr, []int{c, r})
	if err := t.(*tensor.Dense).T(); err != nil {
		panic(err)
	}
	return t
}

// layout returns the operand in the requested memory layout (the plain tensor where the layout does not apply:
// rank 0, integer index / shape operands, lazyT for ranks other than 2).
func (d zzRData) layout(variant string) tensor.Tensor {
	if d.absent {
		return nil
	}
	rank := len(d.shape)
	if rank == 0 || d.kind == "i64" {
		return d.tensor()
	}
	axis := 0
	switch variant {
	case "column":
		if rank != 1 || d.shape[0] < 2 {
			return d.tensor()
		}
		switch d.kind {
		case "bool":
			return zzColumnOf(d.b)
		case "f64":
			return zzColumnOf(d.d)
		}
		return zzColumnOf(d.f)
	case "colmajor":
		if rank < 2 {
			return d.tensor()
		}
		switch d.kind {
		case "bool":
			return zzColMajorOf(d.b, d.shape)
		case "f64":
			return zzColMajorOf(d.d, d.shape)
		}
		return zzColMajorOf(d.f, d.shape)
	case "mid": // gaps along the second axis of a tensor of rank 3 or more (a window of a batch)
		if rank < 3 {
			return d.tensor()
		}
		axis = 1
	case "gaps":
		axis = rank - 1
	case "lazyT":
		if rank != 2 {
			return d.tensor()
		}
		switch d.kind {
		case "bool":
			return zzLazyTOf(d.b, d.shape)
		case "f64":
			return zzLazyTOf(d.d, d.shape)
		}
		return zzLazyTOf(d.f, d.shape)
	}
	switch d.kind {
	case "bool":
		return zzViewOf(d.b, d.shape, axis)
	case "f64":
		return zzViewOf(d.d, d.shape, axis)
	}
	return zzViewOf(d.f, d.shape, axis)
}

// H_layout: an operator computes a function of the LOGICAL tensors it is given. The same operands handed over
// in another memory layout - a view into a larger tensor starting at an offset ("offset"), a view with gaps
// between its rows ("gaps"), a column of a matrix ("column", vectors), a lazily transposed matrix ("lazyT"), column-major storage ("colmajor") - give the same results (or are refused:
// a layout the library does not handle may be answered with an error, never with other values or a panic) and
// are left as they were.
//
// case: prop (label prefix); op; attrs; a: input specs (as for H_reuse); variant; which (operand index, -1 = all)
func H_layout(v *zzverif.T) {
	v.Ring()
	prop, op, variant := v.CStr("prop"), v.CStr("op"), v.CStr("variant")
	attrs := v.CStr("attrs")
	var da []zzRData
	for k, s := range v.CStrs("a") {
		da = append(da, zzRParse(v, s, "a"+string(rune('0'+k))+"_"))
	}
	run := func(inputs []tensor.Tensor) zzResult {
		f, ferr, fp := zzInitOp(v, op, zzRAttrs(attrs))
		if fp || ferr != nil {
			return zzResult{Panicked: fp, Err: ferr, Stage: "init"}
		}
		return zzApplyOn(v, f, inputs)
	}
	want := run(zzRTensors(da))
	var laid []tensor.Tensor
	var snaps []*zzverif.Snap
	which := -1 // the operand that is laid out differently (-1: all of them)
	if v.Has("which") {
		which = v.CInt("which")
	}
	for k, d := range da {
		t := d.tensor()
		if which < 0 || which == k {
			t = d.layout(variant)
		}
		laid = append(laid, t)
		if t != nil {
			snaps = append(snaps, v.Snapshot(t))
		} else {
			snaps = append(snaps, nil)
		}
	}
	got := run(laid)
	v.Assert(prop+".layout.no-panic:"+variant, !got.Panicked && !want.Panicked)
	if got.Panicked || want.Panicked {
		return
	}
	for i, t := range laid {
		if t != nil {
			v.AssertUnchanged(prop+".layout.operand-left-as-it-was:"+variant, t, snaps[i])
		}
	}
	// a layout the library does not support may be REFUSED; what is not allowed is another result, a panic, or
	// accepting in this layout what is refused for plain operands
	if want.Err != nil {
		v.Assert(prop+".layout.refused-for-plain-operands-is-refused:"+variant, got.Err != nil)
	}
	if got.Err != nil || want.Err != nil {
		return
	}
	v.Assert(prop+".layout.same-outputs-as-plain-operands:"+variant, len(got.Outs) == len(want.Outs))
	for k := range got.Outs {
		if k < len(want.Outs) {
			v.AssertSameTensor(prop+".layout.same-result-as-plain-operands:"+variant, got.Outs[k], want.Outs[k])
		}
	}
}
