//go:build verif

package opset13

import (
	"github.com/advancedclimatesystems/gonnx/internal/zzverif"
	"github.com/advancedclimatesystems/gonnx/onnx"
	"github.com/advancedclimatesystems/gonnx/ops"
	"gorgonia.org/tensor"
)

func zzAttrI(name string, i int64) *onnx.AttributeProto {
	return &onnx.AttributeProto{Name: name, Type: onnx.AttributeProto_INT, I: i}
}
func zzAttrF(name string, f float32) *onnx.AttributeProto {
	return &onnx.AttributeProto{Name: name, Type: onnx.AttributeProto_FLOAT, F: f}
}
func zzAttrS(name string, s string) *onnx.AttributeProto {
	return &onnx.AttributeProto{Name: name, Type: onnx.AttributeProto_STRING, S: []byte(s)}
}
func zzAttrInts(name string, is []int64) *onnx.AttributeProto {
	return &onnx.AttributeProto{Name: name, Type: onnx.AttributeProto_INTS, Ints: is}
}
func zzAttrFloats(name string, fs []float32) *onnx.AttributeProto {
	return &onnx.AttributeProto{Name: name, Type: onnx.AttributeProto_FLOATS, Floats: fs}
}
func zzAttrStrings(name string, ss []string) *onnx.AttributeProto {
	bs := make([][]byte, len(ss))
	for i, s := range ss {
		bs[i] = []byte(s)
	}
	return &onnx.AttributeProto{Name: name, Type: onnx.AttributeProto_STRINGS, Strings: bs}
}
func zzAttrT(name string, t *onnx.TensorProto) *onnx.AttributeProto {
	return &onnx.AttributeProto{Name: name, Type: onnx.AttributeProto_TENSOR, T: t}
}

func zzInt64s(xs []int) []int64 {
	o := make([]int64, len(xs))
	for i, x := range xs {
		o[i] = int64(x)
	}
	return o
}

func zzProd(xs []int) int {
	p := 1
	for _, x := range xs {
		p *= x
	}
	return p
}

// zzResult is what running an operator through the public path produced.
type zzResult struct {
	Outs     []tensor.Tensor
	Err      error
	Panicked bool
	Stage    string // "lookup", "init", "validate", "apply"
}

// zzArrange re-spells the attribute list as the case asks (key "attr_order"): "reversed" lists the same
// attributes in the opposite order; "defaults-first" puts the attributes the node leaves out in front,
// spelled out with their default values. Neither changes what the node means.
func zzArrange(v *zzverif.T, opType string, attrs []*onnx.AttributeProto) []*onnx.AttributeProto {
	if !v.Has("attr_order") {
		return attrs
	}
	has := func(name string) bool {
		for _, a := range attrs {
			if a.Name == name {
				return true
			}
		}
		return false
	}
	switch v.CStr("attr_order") {
	case "reversed":
		out := make([]*onnx.AttributeProto, len(attrs))
		for i, a := range attrs {
			out[len(attrs)-1-i] = a
		}
		return out
	case "defaults-first":
		var d []*onnx.AttributeProto
		addI := func(name string, val int64) {
			if !has(name) {
				d = append(d, zzAttrI(name, val))
			}
		}
		switch opType {
		case "ArgMax":
			addI("select_last_index", 0)
			addI("keepdims", 1)
			addI("axis", 0)
		case "ReduceMax", "ReduceMin":
			addI("keepdims", 1)
		case "Gemm":
			if !has("alpha") {
				d = append(d, zzAttrF("alpha", 1))
			}
			if !has("beta") {
				d = append(d, zzAttrF("beta", 1))
			}
			addI("transA", 0)
			addI("transB", 0)
		case "Conv":
			addI("group", 1)
			if !has("auto_pad") {
				d = append(d, zzAttrS("auto_pad", "NOTSET"))
			}
		case "GRU":
			addI("linear_before_reset", 0)
		case "LSTM":
			addI("input_forget", 0)
		case "Flatten":
			addI("axis", 1)
		case "Softmax", "LogSoftmax":
			addI("axis", -1)
		case "Gather":
			addI("axis", 0)
		}
		return append(d, attrs...)
	}
	return attrs
}

// zzRun drives an operator the way Model.applyOp does:
// GetOperator -> Init -> ValidateInputs -> Apply.
func zzRun(v *zzverif.T, opType string, attrs []*onnx.AttributeProto, inputs []tensor.Tensor) zzResult {
	var r zzResult
	// every operand is the caller's: whatever the operator does with it, it is left as it was (each harness
	// checks the operands it cares about; this covers the others - slopes, biases, states, index tensors)
	snaps := make([]*zzverif.Snap, len(inputs))
	for i, t := range inputs {
		if t != nil {
			snaps[i] = v.Snapshot(t)
		}
	}
	r.Panicked = v.Try(func() {
		op, err := GetOperator(opType)
		if err != nil {
			r.Err, r.Stage = err, "lookup"
			return
		}
		r = zzRunOn(op, opType, zzArrange(v, opType, attrs), inputs)
	})
	if !r.Panicked {
		for i, t := range inputs {
			if t != nil {
				v.AssertUnchanged("operand-left-as-it-was:"+opType, t, snaps[i])
			}
		}
	}
	return r
}

// zzSpare returns the inputs as a prefix of a longer array whose spare capacity holds stale tensors:
// what lies behind len(inputs) is not an input (an input gate that re-slices instead of padding shows here).
func zzSpare(inputs []tensor.Tensor) []tensor.Tensor {
	buf := make([]tensor.Tensor, len(inputs)+3)
	copy(buf, inputs)
	for i := len(inputs); i < len(buf); i++ {
		buf[i] = zzverif.NewTensor([]float32{7, 7, 7}, []int{3})
	}
	return buf[:len(inputs)]
}

func zzRunOn(op ops.Operator, opType string, attrs []*onnx.AttributeProto, inputs []tensor.Tensor) zzResult {
	var r zzResult
	inputs = zzSpare(inputs)
	n := &onnx.NodeProto{OpType: opType, Attribute: attrs}
	if err := op.Init(n); err != nil {
		r.Err, r.Stage = err, "init"
		return r
	}
	in, err := op.ValidateInputs(inputs)
	if err != nil {
		r.Err, r.Stage = err, "validate"
		return r
	}
	outs, err := op.Apply(in)
	r.Outs, r.Err, r.Stage = outs, err, "apply"
	return r
}

// zzOut0 returns the single output of a successful run (nil otherwise).
func (r zzResult) zzOut0() tensor.Tensor {
	if r.Panicked || r.Err != nil || len(r.Outs) < 1 {
		return nil
	}
	return r.Outs[0]
}

// zzInitOp looks an operator up and initialises it (one instance, to be applied several times).
func zzInitOp(v *zzverif.T, opType string, attrs []*onnx.AttributeProto) (op ops.Operator, err error, panicked bool) {
	panicked = v.Try(func() {
		op, err = GetOperator(opType)
		if err == nil {
			err = op.Init(&onnx.NodeProto{OpType: opType, Attribute: zzArrange(v, opType, attrs)})
		}
	})
	return
}

// zzApplyOn validates and applies an already initialised operator instance.
func zzApplyOn(v *zzverif.T, op ops.Operator, inputs []tensor.Tensor) zzResult {
	var r zzResult
	inputs = zzSpare(inputs)
	r.Panicked = v.Try(func() {
		in, err := op.ValidateInputs(inputs)
		if err != nil {
			r.Err, r.Stage = err, "validate"
			return
		}
		outs, err := op.Apply(in)
		r.Outs, r.Err, r.Stage = outs, err, "apply"
	})
	return r
}
