//go:build verif

package opset13

import (
	"github.com/advancedclimatesystems/gonnx/internal/zzverif"
	"github.com/advancedclimatesystems/gonnx/onnx"
	"github.com/advancedclimatesystems/gonnx/ops"
	"gorgonia.org/tensor"
)

func init() {
	zzverif.Register("opset13.H_C11_cast", H_C11_cast)
	zzverif.Register("opset13.H_C11_constant", H_C11_constant)
	zzverif.Register("opset13.H_C11_cos", H_C11_cos)
}

var zzOnnxCode = map[string]int64{"float32": 1, "uint8": 2, "int8": 3, "uint16": 4, "int16": 5, "int32": 6, "int64": 7,
	"float64": 11, "uint32": 12, "uint64": 13}

func c11CastTo[S zzNumber, D zzNumber](v *zzverif.T) {
	shape := v.CInts("shape")
	xs := zzverif.Data[S](v, "x", zzverif.Prod(shape))
	X := zzverif.NewTensor(xs, shape)
	snap := v.Snapshot(X)
	r := zzRun(v, "Cast", []*onnx.AttributeProto{zzAttrI("to", zzOnnxCode[v.CStr("to")])}, []tensor.Tensor{X})
	v.Assert("C11.cast.no-panic", !r.Panicked)
	if r.Panicked {
		return
	}
	v.AssertUnchanged("C11.cast.input-unmodified", X, snap)
	v.Assert("C11.cast.numeric-pair-is-converted", r.Err == nil && len(r.Outs) == 1)
	if r.Err != nil || len(r.Outs) != 1 {
		return
	}
	want := make([]D, len(xs))
	for i, x := range xs {
		want[i] = D(x)
	}
	v.AssertTensor("C11.cast.values", r.Outs[0], shape, want)
}

func c11CastFrom[S zzNumber](v *zzverif.T) {
	switch v.CStr("to") {
	case "float32":
		c11CastTo[S, float32](v)
	case "float64":
		c11CastTo[S, float64](v)
	case "int8":
		c11CastTo[S, int8](v)
	case "int16":
		c11CastTo[S, int16](v)
	case "int32":
		c11CastTo[S, int32](v)
	case "int64":
		c11CastTo[S, int64](v)
	case "uint8":
		c11CastTo[S, uint8](v)
	case "uint16":
		c11CastTo[S, uint16](v)
	case "uint32":
		c11CastTo[S, uint32](v)
	case "uint64":
		c11CastTo[S, uint64](v)
	default:
		// a target that is not one of the ten numeric types must be refused
		shape := v.CInts("shape")
		xs := zzverif.Data[S](v, "x", zzverif.Prod(shape))
		code := int64(v.CInt("code"))
		if v.CStr("to") == "symbolic" {
			code = zzverif.Sym[int64](v, "to")
			v.Assume(code >= -2147483648 && code <= 2147483647)
			for _, c := range zzOnnxCode {
				v.Assume(code != c)
			}
		}
		r := zzRun(v, "Cast", []*onnx.AttributeProto{zzAttrI("to", code)}, []tensor.Tensor{zzverif.NewTensor(xs, shape)})
		v.Assert("C11.cast.no-panic", !r.Panicked)
		v.Assert("C11.cast.unsupported-target-is-an-error", r.Panicked || r.Err != nil)
	}
}

// H_C11_cast. case: from, to (dtype names; to may be "code" with a numeric code, or "symbolic"); shape
func H_C11_cast(v *zzverif.T) {
	switch v.CStr("from") {
	case "float32":
		c11CastFrom[float32](v)
	case "float64":
		c11CastFrom[float64](v)
	case "int8":
		c11CastFrom[int8](v)
	case "int16":
		c11CastFrom[int16](v)
	case "int32":
		c11CastFrom[int32](v)
	case "int64":
		c11CastFrom[int64](v)
	case "uint8":
		c11CastFrom[uint8](v)
	case "uint16":
		c11CastFrom[uint16](v)
	case "uint32":
		c11CastFrom[uint32](v)
	case "uint64":
		c11CastFrom[uint64](v)
	}
}

// H_C11_constant. case: form (attribute name or "none"/"two"); n (list length)
func H_C11_constant(v *zzverif.T) {
	form := v.CStr("form")
	n := v.CInt("n")
	var attrs []*onnx.AttributeProto
	var wantF []float32
	var wantI []int64
	var shape []int
	var wantAny interface{}
	expectErr := false
	switch form {
	case "value_float":
		wantF = zzverif.Syms[float32](v, "f", 1)
		attrs = append(attrs, zzAttrF("value_float", wantF[0]))
		shape = []int{}
	case "value_floats":
		wantF = zzverif.Syms[float32](v, "f", n)
		attrs = append(attrs, zzAttrFloats("value_floats", append([]float32(nil), wantF...)))
		shape = []int{n}
	case "value_int":
		wantI = zzverif.Syms[int64](v, "i", 1)
		attrs = append(attrs, zzAttrI("value_int", wantI[0]))
		shape = []int{}
	case "value_ints":
		wantI = zzverif.Syms[int64](v, "i", n)
		attrs = append(attrs, zzAttrInts("value_ints", append([]int64(nil), wantI...)))
		shape = []int{n}
	case "value":
		// a float tensor in the typed field and an int64 tensor as raw bytes are covered by C12;
		// here: the tensor's own type, shape and values come through
		wantI = zzverif.Syms[int64](v, "i", n)
		shape = v.CInts("dims")
		attrs = append(attrs, zzAttrT("value", &onnx.TensorProto{DataType: 7, Dims: zzInt64s(shape), Int64Data: append([]int64(nil), wantI...)}))
	case "value_f32tensor":
		wantF = zzverif.Syms[float32](v, "f", n)
		shape = v.CInts("dims")
		attrs = append(attrs, zzAttrT("value", &onnx.TensorProto{DataType: 1, Dims: zzInt64s(shape), FloatData: append([]float32(nil), wantF...)}))
	case "value_typed":
		// a value tensor of every element type in the typed field ONNX assigns to it
		// (int32_data carries the narrow integers and bool, uint64_data carries uint32 as well)
		shape = []int{n}
		tp := &onnx.TensorProto{Dims: []int64{int64(n)}}
		switch v.CStr("dtype") {
		case "uint32":
			c := zzverif.Syms[uint64](v, "u", n)
			tp.DataType, tp.Uint64Data = 12, append([]uint64(nil), c...)
			w := make([]uint32, n)
			for i := range c {
				w[i] = uint32(c[i])
			}
			wantAny = w
		case "uint64":
			c := zzverif.Syms[uint64](v, "u", n)
			tp.DataType, tp.Uint64Data = 13, append([]uint64(nil), c...)
			wantAny = c
		case "float64":
			c := zzverif.Syms[float64](v, "d", n)
			tp.DataType, tp.DoubleData = 11, append([]float64(nil), c...)
			wantAny = c
		default:
			c := zzverif.Syms[int32](v, "c", n)
			tp.Int32Data = append([]int32(nil), c...)
			switch v.CStr("dtype") {
			case "int32":
				tp.DataType, wantAny = 6, c
			case "int16":
				w := make([]int16, n)
				for i := range c {
					w[i] = int16(c[i])
				}
				tp.DataType, wantAny = 5, w
			case "int8":
				w := make([]int8, n)
				for i := range c {
					w[i] = int8(c[i])
				}
				tp.DataType, wantAny = 3, w
			case "uint16":
				w := make([]uint16, n)
				for i := range c {
					w[i] = uint16(c[i])
				}
				tp.DataType, wantAny = 4, w
			case "uint8":
				w := make([]uint8, n)
				for i := range c {
					w[i] = uint8(c[i])
				}
				tp.DataType, wantAny = 2, w
			}
		}
		attrs = append(attrs, zzAttrT("value", tp))
	case "value_raw":
		// the value tensor as little-endian raw bytes, n elements of the element type
		shape = []int{n}
		le := func(raw []byte, i, w int) uint64 {
			var x uint64
			for k := 0; k < w; k++ {
				x |= uint64(raw[i*w+k]) << (8 * uint(k))
			}
			return x
		}
		width := map[string]int{"int8": 1, "uint8": 1, "int16": 2, "uint16": 2, "int32": 4, "uint32": 4, "int64": 8, "uint64": 8}[v.CStr("dtype")]
		code := map[string]int32{"int8": 3, "uint8": 2, "int16": 5, "uint16": 4, "int32": 6, "uint32": 12, "int64": 7, "uint64": 13}[v.CStr("dtype")]
		raw := zzverif.Syms[byte](v, "raw", n*width)
		switch v.CStr("dtype") {
		case "int8":
			w := make([]int8, n)
			for i := range w {
				w[i] = int8(le(raw, i, width))
			}
			wantAny = w
		case "uint8":
			w := make([]uint8, n)
			for i := range w {
				w[i] = uint8(le(raw, i, width))
			}
			wantAny = w
		case "int16":
			w := make([]int16, n)
			for i := range w {
				w[i] = int16(le(raw, i, width))
			}
			wantAny = w
		case "uint16":
			w := make([]uint16, n)
			for i := range w {
				w[i] = uint16(le(raw, i, width))
			}
			wantAny = w
		case "int32":
			w := make([]int32, n)
			for i := range w {
				w[i] = int32(le(raw, i, width))
			}
			wantAny = w
		case "uint32":
			w := make([]uint32, n)
			for i := range w {
				w[i] = uint32(le(raw, i, width))
			}
			wantAny = w
		case "int64":
			w := make([]int64, n)
			for i := range w {
				w[i] = int64(le(raw, i, width))
			}
			wantAny = w
		case "uint64":
			w := make([]uint64, n)
			for i := range w {
				w[i] = le(raw, i, width)
			}
			wantAny = w
		}
		attrs = append(attrs, zzAttrT("value", &onnx.TensorProto{DataType: code, Dims: []int64{int64(n)}, RawData: append([]byte(nil), raw...)}))
	case "value_undecodable":
		// a value tensor that cannot be decoded (dims that its data does not fill, raw bytes that are not a whole
		// number of elements, an element type without a representation) is refused, not turned into nothing
		f := zzverif.Syms[float32](v, "f", 2)
		raw := zzverif.Syms[byte](v, "raw", 5)
		switch v.CStr("dtype") {
		case "short":
			attrs = append(attrs, zzAttrT("value", &onnx.TensorProto{DataType: 1, Dims: []int64{3}, FloatData: append([]float32(nil), f...)}))
		case "raw5":
			attrs = append(attrs, zzAttrT("value", &onnx.TensorProto{DataType: 1, Dims: []int64{1}, RawData: append([]byte(nil), raw...)}))
		case "float16":
			attrs = append(attrs, zzAttrT("value", &onnx.TensorProto{DataType: 10, Dims: []int64{2}, RawData: append([]byte(nil), raw[:4]...)}))
		case "string":
			attrs = append(attrs, zzAttrT("value", &onnx.TensorProto{DataType: 8, Dims: []int64{1}, StringData: [][]byte{[]byte("x")}}))
		}
		expectErr = true
	case "none":
		expectErr = true
	case "two":
		attrs = append(attrs, zzAttrF("value_float", 1), zzAttrI("value_int", 2))
		expectErr = true
	case "sparse_value", "value_string", "value_strings", "unknown_attribute":
		attrs = append(attrs, zzAttrS(form, "x"))
		expectErr = true
	}
	r := zzRun(v, "Constant", attrs, nil)
	v.Assert("C11.constant.no-panic", !r.Panicked)
	if r.Panicked {
		return
	}
	if expectErr {
		v.Assert("C11.constant.unsupported-attribute-is-an-error", r.Err != nil)
		return
	}
	v.Assert("C11.constant.computed", r.Err == nil && len(r.Outs) == 1)
	if r.Err != nil || len(r.Outs) != 1 {
		return
	}
	if wantAny != nil {
		v.AssertTensor("C11.constant.values", r.Outs[0], shape, wantAny)
	} else if wantF != nil {
		v.AssertTensor("C11.constant.values", r.Outs[0], shape, wantF)
	} else {
		v.AssertTensor("C11.constant.values", r.Outs[0], shape, wantI)
	}
}

func c11Cos[E zzverif.Scalar](v *zzverif.T, code int32) {
	n := v.CInt("n")           // number of shape entries
	nval := v.CInt("nval")     // elements in the value attribute (-1: attribute absent)
	dimsv := v.CInts("vshape") // dims of the value tensor
	entries := zzSymInts(v, "d", n, -1, 3, false)
	var attrs []*onnx.AttributeProto
	var val []E
	if nval >= 0 {
		val = zzverif.Syms[E](v, "v", nval)
		tp := &onnx.TensorProto{DataType: code, Dims: zzInt64s(dimsv)}
		switch x := any(val).(type) {
		case []float32:
			tp.FloatData = append([]float32(nil), x...)
		case []float64:
			tp.DoubleData = append([]float64(nil), x...)
		case []int64:
			tp.Int64Data = append([]int64(nil), x...)
		case []int32:
			tp.Int32Data = append([]int32(nil), x...)
		}
		attrs = append(attrs, zzAttrT("value", tp))
	}
	var op ops.Operator
	var ierr error
	panicked := v.Try(func() {
		op, ierr = GetOperator("ConstantOfShape")
		if ierr == nil {
			ierr = op.Init(&onnx.NodeProto{OpType: "ConstantOfShape", Attribute: attrs})
		}
	})
	v.Assert("C11.cos.no-panic", !panicked)
	if panicked {
		return
	}
	if nval >= 0 && nval != 1 {
		v.Assert("C11.cos.value-must-have-one-element", ierr != nil)
		return
	}
	v.Assert("C11.cos.init", ierr == nil)
	if ierr != nil {
		return
	}
	// the same operator instance is applied to two requests in a row
	for round := 0; round < 2; round++ {
		req := entries
		if round == 1 {
			req = make([]int, n)
			for i := range entries {
				req[i] = entries[n-1-i]
			}
		}
		in := zzInt64Tensor(req, []int{n})
		snap := v.Snapshot(in)
		var outs []tensor.Tensor
		var err error
		panicked = v.Try(func() {
			var vin []tensor.Tensor
			vin, err = op.ValidateInputs([]tensor.Tensor{in})
			if err == nil {
				outs, err = op.Apply(vin)
			}
		})
		v.Assert("C11.cos.no-panic", !panicked)
		if panicked {
			return
		}
		v.AssertUnchanged("C11.cos.shape-input-unmodified", in, snap)
		valid := true
		want := make([]int, n)
		for i := range req {
			want[i] = v.Concrete(req[i])
			if want[i] < 1 {
				valid = false
			}
		}
		if !valid {
			v.Assert("C11.cos.non-positive-dimension-is-an-error", err != nil)
			continue
		}
		v.Assert("C11.cos.computed", err == nil && len(outs) == 1)
		if err != nil || len(outs) != 1 {
			continue
		}
		fill := make([]E, zzverif.Prod(want))
		for i := range fill {
			if nval == 1 {
				fill[i] = val[0]
			}
		}
		if nval < 0 {
			v.AssertTensor("C11.cos.default-is-float32-zero", outs[0], want, make([]float32, len(fill)))
		} else {
			v.AssertTensorNum("C11.cos.values", outs[0], want, fill)
		}
	}
}

// H_C11_cos: ConstantOfShape. case: dtype; n; nval; vshape
func H_C11_cos(v *zzverif.T) {
	switch v.CStr("dtype") {
	case "float32":
		c11Cos[float32](v, 1)
	case "float64":
		c11Cos[float64](v, 11)
	case "int64":
		c11Cos[int64](v, 7)
	case "int32":
		c11Cos[int32](v, 6)
	}
}
