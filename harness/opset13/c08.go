//go:build verif

package opset13

import (
	"fmt"

	"github.com/advancedclimatesystems/gonnx/internal/zzverif"
	"github.com/advancedclimatesystems/gonnx/onnx"
	"gorgonia.org/tensor"
)

func init() {
	zzverif.Register("opset13.H_C08", H_C08)
}

const zzMinInt = -9223372036854775808
const zzMaxInt = 9223372036854775807

// zzSymIntExt: a symbolic int in [lo,hi] or one of the int64 extremes.
func zzSymIntExt(v *zzverif.T, name string, lo, hi int, extremes bool) int {
	if !extremes {
		return v.IntIn(name, lo, hi)
	}
	x := zzverif.Sym[int](v, name)
	v.Assume((x >= lo && x <= hi) || x == zzMinInt || x == zzMaxInt)
	return x
}

func zzIndexTensor(xs []int, shape []int, i32 bool) tensor.Tensor {
	if i32 {
		d := make([]int32, len(xs))
		for i, x := range xs {
			d[i] = int32(x)
		}
		return tensor.New(tensor.WithShape(shape...), tensor.WithBacking(d))
	}
	return zzInt64Tensor(xs, shape)
}

// zzSliceAxis returns the indices ONNX Slice selects on an axis of extent d.
func zzSliceAxis(d, start, end, step int) []int {
	var out []int
	if step > 0 {
		if start < 0 {
			start += d
		}
		if start < 0 {
			start = 0
		}
		if start > d {
			start = d
		}
		if end < 0 {
			end += d
		}
		if end < 0 {
			end = 0
		}
		if end > d {
			end = d
		}
		for i := start; i < end; i += step {
			out = append(out, i)
			if step > d {
				break
			}
		}
		return out
	}
	if start < 0 {
		start += d
	}
	if start < 0 {
		start = 0
	}
	if start > d-1 {
		start = d - 1
	}
	if end < 0 {
		end += d
	}
	if end < -1 {
		end = -1
	}
	if end > d-1 {
		end = d - 1
	}
	for i := start; i > end; i += step {
		out = append(out, i)
		if -step > d {
			break
		}
	}
	return out
}

func c08Check[E zzverif.Scalar](v *zzverif.T) {
	op := v.CStr("op")
	shape := v.CInts("shape")
	rank := len(shape)
	total := zzverif.Prod(shape)
	data := zzverif.Syms[E](v, "x", total)
	X := zzverif.NewTensor(data, shape)
	snap := v.Snapshot(X)
	inputs := []tensor.Tensor{X}
	var attrs []*onnx.AttributeProto
	var extraSnap []*zzverif.Snap

	switch op {
	case "Transpose":
		perm := zzSymInts(v, "p", rank, -1, rank, false)
		p64 := make([]int64, rank)
		for i := range perm {
			p64[i] = int64(perm[i])
		}
		attrs = append(attrs, zzAttrInts("perm", p64))
		r := zzRun(v, op, attrs, inputs)
		v.Assert("C08.no-panic", !r.Panicked)
		if r.Panicked {
			return
		}
		v.AssertUnchanged("C08.input-unmodified", X, snap)
		seen := make([]bool, rank)
		valid := true
		for i := range perm {
			perm[i] = v.Concrete(perm[i])
			if perm[i] < 0 || perm[i] >= rank || seen[perm[i]] {
				valid = false
			} else {
				seen[perm[i]] = true
			}
		}
		if !valid {
			v.Assert("C08.invalid-request-is-an-error", r.Err != nil)
			return
		}
		v.Assert("C08.valid-request-is-computed", r.Err == nil)
		if r.Err != nil {
			return
		}
		outShape := make([]int, rank)
		for i := range perm {
			outShape[i] = shape[perm[i]]
		}
		want := make([]E, total)
		for f := range want {
			oi := zzverif.Unravel(f, outShape)
			ii := make([]int, rank)
			for k := range perm {
				ii[perm[k]] = oi[k]
			}
			want[f] = data[zzverif.Ravel(ii, shape)]
		}
		v.AssertTensor("C08.values", r.zzOut0(), outShape, want)

	case "Concat":
		// inputs differ only along axis "ta"; extents along it given by "ext"
		ta := v.CInt("ta")
		ext := v.CInts("ext")
		axis := zzSymIntExt(v, "axis", -rank-1, rank, false)
		attrs = append(attrs, zzAttrI("axis", int64(axis)))
		var datas [][]E
		var shapes [][]int
		inputs = nil
		for k, e := range ext {
			s := append([]int{}, shape...)
			s[ta] = e
			d := zzverif.Data[E](v, fmt.Sprintf("x%d", k), zzverif.Prod(s))
			datas = append(datas, d)
			shapes = append(shapes, s)
			t := zzverif.NewTensor(d, s)
			inputs = append(inputs, t)
			extraSnap = append(extraSnap, v.Snapshot(t))
		}
		r := zzRun(v, op, attrs, inputs)
		v.Assert("C08.no-panic", !r.Panicked)
		if r.Panicked {
			return
		}
		for k := range inputs {
			v.AssertUnchanged("C08.input-unmodified", inputs[k], extraSnap[k])
		}
		axis = v.Concrete(axis)
		if len(ext) == 1 {
			if axis >= -rank && axis < rank {
				v.Assert("C08.single-input-computed", r.Err == nil)
				v.AssertTensor("C08.values", r.zzOut0(), shapes[0], datas[0])
			}
			return
		}
		if axis < -rank || axis >= rank {
			v.Assert("C08.invalid-request-is-an-error", r.Err != nil)
			return
		}
		if axis < 0 {
			axis += rank
		}
		same := true
		for _, e := range ext {
			if e != ext[0] {
				same = false
			}
		}
		if axis != ta && !same {
			v.Assert("C08.invalid-request-is-an-error", r.Err != nil)
			return
		}
		v.Assert("C08.valid-request-is-computed", r.Err == nil)
		if r.Err != nil {
			return
		}
		outShape := append([]int{}, shapes[0]...)
		outShape[axis] = 0
		for _, s := range shapes {
			outShape[axis] += s[axis]
		}
		want := make([]E, zzverif.Prod(outShape))
		for f := range want {
			oi := zzverif.Unravel(f, outShape)
			pos := oi[axis]
			for k, s := range shapes {
				if pos < s[axis] {
					ii := append([]int{}, oi...)
					ii[axis] = pos
					want[f] = datas[k][zzverif.Ravel(ii, s)]
					break
				}
				pos -= s[axis]
			}
		}
		v.AssertTensor("C08.values", r.zzOut0(), outShape, want)

	case "Slice":
		n := v.CInt("n") // number of sliced axes
		ext := v.CBool("extremes")
		maxd := 0
		for _, d := range shape {
			if d > maxd {
				maxd = d
			}
		}
		starts := make([]int, n)
		ends := make([]int, n)
		steps := make([]int, n)
		axes := make([]int, n)
		mg := v.CInt("margin")
		for i := 0; i < n; i++ {
			starts[i] = zzSymIntExt(v, fmt.Sprintf("s%d", i), -maxd-mg, maxd+mg, ext)
			ends[i] = zzSymIntExt(v, fmt.Sprintf("e%d", i), -maxd-mg, maxd+mg, ext)
			steps[i] = 1
			axes[i] = i
		}
		inputs = append(inputs, zzInt64Tensor(starts, []int{n}), zzInt64Tensor(ends, []int{n}))
		if v.CBool("axes") {
			for i := 0; i < n; i++ {
				if v.Has("axes_given") {
					axes[i] = v.CInts("axes_given")[i] // concrete axes (two sliced axes: the ranges stay symbolic)
				} else {
					axes[i] = v.IntIn(fmt.Sprintf("a%d", i), -rank-1, rank)
				}
			}
			inputs = append(inputs, zzInt64Tensor(axes, []int{n}))
		} else if v.CBool("steps") {
			inputs = append(inputs, nil)
		}
		if v.CBool("steps") {
			for i := 0; i < n; i++ {
				steps[i] = zzSymIntExt(v, fmt.Sprintf("t%d", i), -maxd-1, maxd+1, ext)
				v.Assume(steps[i] != 0)
			}
			inputs = append(inputs, zzInt64Tensor(steps, []int{n}))
		}
		r := zzRun(v, op, attrs, inputs)
		v.Assert("C08.no-panic", !r.Panicked)
		if r.Panicked {
			return
		}
		v.AssertUnchanged("C08.input-unmodified", X, snap)
		valid := true
		used := make([]bool, rank)
		sel := make([][]int, rank)
		for k := range sel {
			sel[k] = make([]int, shape[k])
			for j := range sel[k] {
				sel[k][j] = j
			}
		}
		for i := 0; i < n; i++ {
			starts[i], ends[i], steps[i], axes[i] = v.Concrete(starts[i]), v.Concrete(ends[i]), v.Concrete(steps[i]), v.Concrete(axes[i])
			a := axes[i]
			if a < -rank || a >= rank {
				valid = false
				continue
			}
			if a < 0 {
				a += rank
			}
			if used[a] {
				return // ONNX leaves repeated axes undefined: outside the claim
			}
			used[a] = true
			sel[a] = zzSliceAxis(shape[a], starts[i], ends[i], steps[i])
		}
		if !valid {
			v.Assert("C08.invalid-request-is-an-error", r.Err != nil)
			return
		}
		outShape := make([]int, rank)
		empty := false
		dropsUnit := false
		for k := range sel {
			outShape[k] = len(sel[k])
			if outShape[k] == 0 {
				empty = true
			}
			if used[k] && outShape[k] == 1 {
				dropsUnit = true
			}
		}
		if empty {
			// a selection of nothing cannot be represented by the tensor library: it is refused, never answered with data
			v.Assert("C08.empty-selection-is-refused", r.Err != nil)
			return
		}
		if r.Err != nil {
			return // clamping, negative steps etc. may be refused
		}
		stepped := false
		for i := 0; i < n; i++ {
			if steps[i] != 1 {
				stepped = true
			}
		}
		if stepped && len(r.Outs) > 0 && r.Outs[0] != nil {
			// stated BEFORE the region of the listed finding (how the library's strided views clamp and round is
			// recorded there): whatever a step other than 1 selects, it is at most every |step|-th position of
			// its axis - a step that is dropped on the way is not covered by the finding
			bound := 1
			for k := 0; k < rank; k++ {
				e := shape[k]
				for i := 0; i < n; i++ {
					ai := axes[i]
					if ai < 0 {
						ai += rank
					}
					if ai == k {
						st := steps[i]
						if st < 0 {
							st = -st
						}
						e = (shape[k] + st - 1) / st
					}
				}
				bound *= e
			}
			got := 1
			for _, d := range r.Outs[0].Shape() {
				got *= d
			}
			v.Assert("C08.a-step-thins-the-selection", got <= bound)
		}
		v.Region("C08.slice-drops-axis-of-extent-1", dropsUnit)
		v.Region("C08.slice-step-not-1", stepped)
		want := make([]E, zzverif.Prod(outShape))
		for f := range want {
			oi := zzverif.Unravel(f, outShape)
			ii := make([]int, rank)
			for k := range oi {
				ii[k] = sel[k][oi[k]]
			}
			want[f] = data[zzverif.Ravel(ii, shape)]
		}
		v.AssertTensor("C08.values", r.zzOut0(), outShape, want)

	case "Gather":
		ishape := v.CInts("ishape")
		maxd := 0
		for _, d := range shape {
			if d > maxd {
				maxd = d
			}
		}
		axis := v.IntIn("axis", -rank-1, rank)
		if !v.CBool("default") {
			attrs = append(attrs, zzAttrI("axis", int64(axis)))
		}
		idx := zzSymInts(v, "i", zzverif.Prod(ishape), -maxd-1, maxd, false)
		I := zzIndexTensor(idx, ishape, v.CBool("i32"))
		snapI := v.Snapshot(I)
		inputs = append(inputs, I)
		r := zzRun(v, op, attrs, inputs)
		v.Assert("C08.no-panic", !r.Panicked)
		if r.Panicked {
			return
		}
		v.AssertUnchanged("C08.input-unmodified", X, snap)
		v.AssertUnchanged("C08.indices-unmodified", I, snapI)
		axis = v.Concrete(axis)
		if v.CBool("default") {
			axis = 0
		}
		if axis < -rank || axis >= rank {
			v.Assert("C08.invalid-request-is-an-error", r.Err != nil)
			return
		}
		if axis < 0 {
			axis += rank
		}
		d := shape[axis]
		valid := true
		for i := range idx {
			idx[i] = v.Concrete(idx[i])
			if idx[i] < -d || idx[i] >= d {
				valid = false
			}
			if idx[i] < 0 {
				idx[i] += d
			}
		}
		if !valid {
			v.Assert("C08.invalid-request-is-an-error", r.Err != nil)
			return
		}
		v.Assert("C08.valid-request-is-computed", r.Err == nil)
		if r.Err != nil {
			return
		}
		outShape := append(append(append([]int{}, shape[:axis]...), ishape...), shape[axis+1:]...)
		want := make([]E, zzverif.Prod(outShape))
		q := len(ishape)
		for f := range want {
			oi := zzverif.Unravel(f, outShape)
			k := idx[zzverif.Ravel(oi[axis:axis+q], ishape)]
			ii := append(append(append([]int{}, oi[:axis]...), k), oi[axis+q:]...)
			want[f] = data[zzverif.Ravel(ii, shape)]
		}
		v.AssertTensor("C08.values", r.zzOut0(), outShape, want)

	case "Expand":
		n := v.CInt("n")
		tgt := zzSymInts(v, "t", n, 0, 3, false)
		T := zzInt64Tensor(tgt, []int{n})
		inputs = append(inputs, T)
		r := zzRun(v, op, attrs, inputs)
		v.Assert("C08.no-panic", !r.Panicked)
		if r.Panicked {
			return
		}
		v.AssertUnchanged("C08.input-unmodified", X, snap)
		pos := true
		for i := range tgt {
			tgt[i] = v.Concrete(tgt[i])
			if tgt[i] < 1 {
				pos = false
			}
		}
		if !pos {
			v.Assert("C08.invalid-request-is-an-error", r.Err != nil)
			return
		}
		outShape, ok := zzverif.BroadcastShape(shape, tgt)
		if !ok {
			v.Assert("C08.invalid-request-is-an-error", r.Err != nil)
			return
		}
		v.Assert("C08.valid-request-is-computed", r.Err == nil)
		if r.Err != nil {
			return
		}
		v.AssertTensor("C08.values", r.zzOut0(), outShape, zzverif.BroadcastData(data, shape, outShape))
	}
}

// H_C08: Transpose, Concat, Slice, Gather, Expand.
func H_C08(v *zzverif.T) {
	switch v.CStr("dtype") {
	case "int64":
		c08Check[int64](v)
	case "bool":
		c08Check[bool](v)
	case "float64":
		c08Check[float64](v)
	case "int32":
		c08Check[int32](v)
	case "uint8":
		c08Check[uint8](v)
	default:
		c08Check[float32](v)
	}
}
