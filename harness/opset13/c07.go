//go:build verif

package opset13

import (
	"fmt"

	"github.com/advancedclimatesystems/gonnx/internal/zzverif"
	"github.com/advancedclimatesystems/gonnx/onnx"
	"gorgonia.org/tensor"
)

func init() {
	zzverif.Register("opset13.H_C07", H_C07)
}

// zzSymInts returns n symbolic ints: in [lo,hi] when full is false, any int64 otherwise.
func zzSymInts(v *zzverif.T, name string, n, lo, hi int, full bool) []int {
	out := make([]int, n)
	for i := range out {
		if full {
			out[i] = zzverif.Sym[int](v, fmt.Sprintf("%s%d", name, i))
		} else {
			out[i] = v.IntIn(fmt.Sprintf("%s%d", name, i), lo, hi)
		}
	}
	return out
}

func zzInt64Tensor(xs []int, shape []int) tensor.Tensor {
	d := make([]int64, len(xs))
	for i, x := range xs {
		d[i] = int64(x)
	}
	return tensor.New(tensor.WithShape(shape...), tensor.WithBacking(d))
}

func c07Check[E zzverif.Scalar](v *zzverif.T) {
	op := v.CStr("op")
	shape := v.CInts("shape")
	rank := len(shape)
	total := zzverif.Prod(shape)
	full := v.CBool("full") // phase A: attribute values range over all of int64
	if full {
		v.StopAtBoundary()
	}
	data := zzverif.Syms[E](v, "x", total)
	X := zzverif.NewTensor(data, shape)
	snap := v.Snapshot(X)
	n := v.CInt("n") // number of target entries / axes

	var attrs []*onnx.AttributeProto
	inputs := []tensor.Tensor{X}
	var sym []int
	switch op {
	case "Reshape":
		sym = zzSymInts(v, "t", n, -2, total+1, full)
		inputs = append(inputs, zzInt64Tensor(sym, []int{n}))
	case "Flatten":
		sym = zzSymInts(v, "axis", 1, -rank-2, rank+2, full)
		if !v.CBool("default") {
			attrs = append(attrs, zzAttrI("axis", int64(sym[0])))
		}
	case "Squeeze":
		if n >= 0 {
			sym = zzSymInts(v, "ax", n, -rank-1, rank, full)
			inputs = append(inputs, zzInt64Tensor(sym, []int{n}))
		}
	case "Unsqueeze":
		sym = zzSymInts(v, "ax", n, -rank-n-1, rank+n, full)
		inputs = append(inputs, zzInt64Tensor(sym, []int{n}))
	case "Shape":
	}
	snapAxes := v.Snapshot(nil)
	if len(inputs) > 1 {
		snapAxes = v.Snapshot(inputs[1])
	}

	r := zzRun(v, op, attrs, inputs)
	v.Assert("C07.no-panic", !r.Panicked)
	if r.Panicked {
		return
	}
	v.AssertUnchanged("C07.input-unmodified", X, snap)
	if len(inputs) > 1 {
		v.AssertUnchanged("C07.shape-input-unmodified", inputs[1], snapAxes)
	}
	if full {
		// phase A: only crashes and modified inputs are looked for on the way to the first gorgonia call
		return
	}
	for i := range sym {
		sym[i] = v.Concrete(sym[i])
	}

	// the ONNX rule
	valid := true
	var want []int
	switch op {
	case "Reshape":
		want = make([]int, n)
		infer := -1
		prod := 1
		for i, e := range sym {
			switch {
			case e == 0:
				if i >= rank {
					valid = false
				} else {
					want[i] = shape[i]
					prod *= shape[i]
				}
			case e == -1:
				if infer >= 0 {
					valid = false
				}
				infer = i
			case e < -1:
				valid = false
			default:
				want[i] = e
				prod *= e
			}
		}
		if valid {
			if infer >= 0 {
				if prod == 0 || total%prod != 0 {
					valid = false
				} else {
					want[infer] = total / prod
				}
			} else if prod != total {
				valid = false
			}
		}
	case "Flatten":
		a := sym[0]
		if v.CBool("default") {
			a = 1
		}
		if a < -rank || a > rank {
			valid = false
		} else {
			if a < 0 {
				a += rank
			}
			want = []int{zzverif.Prod(shape[:a]), zzverif.Prod(shape[a:])}
		}
	case "Squeeze":
		drop := make([]bool, rank)
		if n < 0 {
			for i, d := range shape {
				drop[i] = d == 1
			}
		} else {
			for _, a := range sym {
				if a < -rank || a >= rank {
					valid = false
					break
				}
				if a < 0 {
					a += rank
				}
				if drop[a] || shape[a] != 1 {
					valid = false
					break
				}
				drop[a] = true
			}
		}
		want = []int{}
		for i, d := range shape {
			if !drop[i] {
				want = append(want, d)
			}
		}
	case "Unsqueeze":
		R := rank + n
		ins := make([]bool, R)
		for _, a := range sym {
			if a < -R || a >= R {
				valid = false
				break
			}
			if a < 0 {
				a += R
			}
			if ins[a] {
				valid = false
				break
			}
			ins[a] = true
		}
		if valid {
			want = make([]int, 0, R)
			k := 0
			for i := 0; i < R; i++ {
				if ins[i] {
					want = append(want, 1)
				} else {
					want = append(want, shape[k])
					k++
				}
			}
		}
	case "Shape":
		if r.Err != nil || len(r.Outs) != 1 {
			v.Assert("C07.shape-computed", false)
			return
		}
		dims := make([]int64, rank)
		for i, d := range shape {
			dims[i] = int64(d)
		}
		v.AssertTensor("C07.shape-values", r.Outs[0], []int{rank}, dims)
		return
	}
	if !valid {
		v.Assert("C07.invalid-request-is-an-error", r.Err != nil)
		return
	}
	v.Assert("C07.valid-request-is-computed", r.Err == nil && len(r.Outs) == 1)
	if r.Err != nil || len(r.Outs) != 1 {
		return
	}
	v.AssertTensor("C07.same-elements-in-order-with-onnx-shape", r.Outs[0], want, data)
}

// H_C07: Reshape, Flatten, Squeeze, Unsqueeze, Shape.
// case: op; shape []int; n int (target length / number of axes; -1: Squeeze without axes input);
// dtype; full bool (phase A); default bool (Flatten without attribute)
func H_C07(v *zzverif.T) {
	switch v.CStr("dtype") {
	case "int64":
		c07Check[int64](v)
	case "bool":
		c07Check[bool](v)
	case "uint8":
		c07Check[uint8](v)
	case "float64":
		c07Check[float64](v)
	default:
		c07Check[float32](v)
	}
}

func init() { zzverif.Register("opset13.H_C07_types", H_C07_types) }

// H_C07_types: the data input of the shape operators may have EVERY tensor element type (the 14 of the
// opset: 8 integer types, 2 float types, 2 complex types, string, bool). The element type is one solver
// variable; only the input gate is exercised (the tensor is a shape-and-type stand-in without data).
//
// case: op
func H_C07_types(v *zzverif.T) {
	op := v.CStr("op")
	o, err, p := zzInitOp(v, op, nil)
	v.Assert("C07.types.init", !p && err == nil)
	if p || err != nil {
		return
	}
	inputs := []tensor.Tensor{v.DtypeTensor("x")}
	switch op {
	case "Reshape", "Squeeze", "Unsqueeze":
		inputs = append(inputs, zzverif.NewTensor([]int64{0}, []int{1}))
	}
	var verr error
	panicked := v.Try(func() { _, verr = o.ValidateInputs(inputs) })
	v.Assert("C07.types.gate-never-panics", !panicked)
	v.Assert("C07.every-element-type-is-accepted", verr == nil)
}
