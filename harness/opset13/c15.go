//go:build verif

package opset13

import (
	"errors"
	"fmt"

	"github.com/advancedclimatesystems/gonnx/internal/zzverif"
	"github.com/advancedclimatesystems/gonnx/onnx"
	"github.com/advancedclimatesystems/gonnx/ops"
	"gorgonia.org/tensor"
)

func init() {
	zzverif.Register("opset13.H_C15_gate", H_C15_gate)
	zzverif.Register("opset13.H_C15_registry", H_C15_registry)
	zzverif.Register("opset13.H_C15_unknown", H_C15_unknown)
}

// H_C15_gate: the input gate of one operator.
//
// case: op string; n int (number of inputs supplied); nilmask int (bit i set: input i is nil,
// only optional positions); spare int (1: the list is a prefix of a longer array holding stale tensors)
func H_C15_gate(v *zzverif.T) {
	name := v.CStr("op")
	n := v.CInt("n")
	nilmask := v.CInt("nilmask")
	op, err := GetOperator(name)
	v.Assert("C15.resolves", err == nil && op != nil)
	if err != nil {
		return
	}
	// the reference: the opset's arity and allowed element types, NOT the operator's own current declaration
	gold, known := zzGolden[name]
	v.Assert("C15.operator-of-the-opset", known)
	if !known {
		return
	}
	min, max := gold.min, gold.max
	if name != "Concat" {
		v.Assert("C15.declared-arity-is-the-opset's", op.GetMinInputs() == min && op.GetMaxInputs() == max)
	}
	if name == "Concat" {
		// Concat accepts any number >= 1 of inputs of any type: its bounds are set per call
		max = n
		if max < min {
			max = min
		}
	}
	pool := make([]tensor.Tensor, n+3)
	for i := range pool {
		if i < n && (nilmask>>uint(i))&1 == 1 {
			continue
		}
		if v.Has("symfrom") && i < v.CInt("symfrom") {
			// long lists: the leading tensors are float32, only the trailing ones range over all element types
			pool[i] = zzverif.NewTensor([]float32{1}, []int{1})
			continue
		}
		if v.Has("excessnil") && v.CBool("excessnil") && i >= max && i < n {
			continue // the entries beyond the operator's maximum are nil: the list is still too long
		}
		if v.Has("alias") && v.CBool("alias") && i > 0 && pool[0] != nil {
			pool[i] = pool[0] // ONE tensor object at every position (its element type must fit every position)
			continue
		}
		pool[i] = v.DtypeTensor(fmt.Sprintf("in%d", i))
	}
	var inputs []tensor.Tensor
	if v.CInt("spare") == 1 {
		inputs = pool[:n]
	} else {
		inputs = append([]tensor.Tensor(nil), pool[:n]...)
	}

	var got []tensor.Tensor
	var verr error
	panicked := v.Try(func() { got, verr = op.ValidateInputs(inputs) })
	v.Assert("C15.gate-never-panics", !panicked)
	if panicked {
		return
	}
	cons := make([][]tensor.Dtype, len(gold.types))
	for i, names := range gold.types {
		for _, dn := range names {
			for _, d := range zzverif.DtypeUniverse {
				if d.Name() == dn {
					cons[i] = append(cons[i], d)
				}
			}
		}
	}
	if name == "Concat" {
		for i := 0; i < n; i++ {
			cons = append(cons, zzverif.DtypeUniverse)
		}
	}
	countOK := min <= n && n <= max
	expectOK := countOK
	gateOK := false // count and per-position element types are fine (operator-specific rules come on top)
	if countOK {
		v.Assert("C15.constraints-cover-every-position", len(cons) >= n)
		if len(cons) < n {
			return
		}
		for i := 0; i < n; i++ {
			if inputs[i] == nil {
				continue
			}
			allowed := false
			for _, d := range cons[i] {
				if d == inputs[i].Dtype() {
					allowed = true
				}
			}
			if !allowed {
				expectOK = false
			}
		}
		gateOK = expectOK
		if name == "PRelu" && n == 2 && inputs[0] != nil && inputs[1] != nil && inputs[0].Dtype() != inputs[1].Dtype() {
			expectOK = false
		}
		if name == "Concat" {
			// one element type for all inputs
			for i := 1; i < n; i++ {
				if inputs[i] != nil && inputs[0] != nil && inputs[i].Dtype() != inputs[0].Dtype() {
					expectOK = false
				}
			}
		}
	}
	v.Assert("C15.accepted-iff-arity-and-types-allowed", (verr == nil) == expectOK)
	if verr != nil {
		// a wrong count or a disallowed element type is reported as an input error (PRelu's equal-types rule
		// has its own kind)
		var ie *ops.InputError
		var te *ops.InvalidTensorError
		if !gateOK {
			v.Assert("C15.refusal-is-an-input-error", errors.As(verr, &ie))
		} else {
			v.Assert("C15.operator-specific-refusal-is-a-tensor-error", errors.As(verr, &te))
		}
		return
	}
	v.Assert("C15.padded-to-max", len(got) == max)
	for i := 0; i < len(got) && i < max; i++ {
		if i < n {
			v.Assert("C15.passed-through-in-order", got[i] == inputs[i])
		} else {
			v.Assert("C15.omitted-optional-is-absent", got[i] == nil)
		}
	}
}

func zzSampleAttrs(op string) []*onnx.AttributeProto {
	switch op {
	case "ArgMax":
		return []*onnx.AttributeProto{zzAttrI("axis", 1), zzAttrI("keepdims", 0)}
	case "Cast":
		return []*onnx.AttributeProto{zzAttrI("to", 7)}
	case "Concat":
		return []*onnx.AttributeProto{zzAttrI("axis", 1)}
	case "Constant":
		return []*onnx.AttributeProto{zzAttrF("value_float", 2.5)}
	case "ConstantOfShape":
		return []*onnx.AttributeProto{zzAttrT("value", &onnx.TensorProto{DataType: 7, Dims: []int64{1}, Int64Data: []int64{5}})}
	case "Conv":
		return []*onnx.AttributeProto{zzAttrS("auto_pad", "SAME_LOWER"), zzAttrInts("dilations", []int64{2, 2}), zzAttrInts("kernel_shape", []int64{2, 3}), zzAttrInts("pads", []int64{1, 2, 3, 4}), zzAttrInts("strides", []int64{3, 2})}
	case "Flatten":
		return []*onnx.AttributeProto{zzAttrI("axis", 2)}
	case "Gather":
		return []*onnx.AttributeProto{zzAttrI("axis", 1)}
	case "Gemm":
		return []*onnx.AttributeProto{zzAttrF("alpha", 2), zzAttrF("beta", 3), zzAttrI("transA", 1), zzAttrI("transB", 1)}
	case "GRU":
		return []*onnx.AttributeProto{zzAttrI("hidden_size", 3), zzAttrI("linear_before_reset", 1), zzAttrStrings("activations", []string{"relu", "relu"})}
	case "LSTM":
		return []*onnx.AttributeProto{zzAttrI("hidden_size", 3), zzAttrStrings("activations", []string{"relu", "relu", "relu"})}
	case "RNN":
		return []*onnx.AttributeProto{zzAttrI("hidden_size", 3), zzAttrStrings("activations", []string{"relu"})}
	case "LinearRegressor":
		return []*onnx.AttributeProto{zzAttrFloats("coefficients", []float32{1, 2, 3}), zzAttrFloats("intercepts", []float32{4}), zzAttrI("targets", 1)}
	case "LogSoftmax", "Softmax":
		return []*onnx.AttributeProto{zzAttrI("axis", 0)}
	case "ReduceMax", "ReduceMin":
		return []*onnx.AttributeProto{zzAttrInts("axes", []int64{1}), zzAttrI("keepdims", 0)}
	case "Scaler":
		return []*onnx.AttributeProto{zzAttrFloats("offset", []float32{1, 2}), zzAttrFloats("scale", []float32{3, 4})}
	case "Transpose":
		return []*onnx.AttributeProto{zzAttrInts("perm", []int64{1, 0})}
	}
	return nil
}

// H_C15_registry: every name resolves, and lookups are independent of one another.
//
// case: op string
func H_C15_registry(v *zzverif.T) {
	name := v.CStr("op")
	found := false
	for _, n := range GetOpNames() {
		if n == name {
			found = true
		}
	}
	v.Assert("C15.listed", found)
	op0, err0 := GetOperator(name)
	v.Assert("C15.resolves", err0 == nil && op0 != nil)
	if err0 != nil {
		return
	}
	pristine := v.Fingerprint(op0)
	op1, _ := GetOperator(name)
	v.Assert("C15.fresh-instances-are-equal", v.Fingerprint(op1) == pristine)
	var ierr error
	panicked := v.Try(func() { ierr = op1.Init(&onnx.NodeProto{OpType: name, Attribute: zzSampleAttrs(name), Output: []string{"o1", "o2", "o3"}}) })
	v.Assert("C15.init-does-not-panic", !panicked)
	_ = ierr
	v.Assert("C15.init-leaves-earlier-instance-alone", v.Fingerprint(op0) == pristine)
	op2, _ := GetOperator(name)
	v.Assert("C15.init-leaves-later-lookups-alone", v.Fingerprint(op2) == pristine)
}

// H_C15_unknown: a name outside the opset yields the unsupported-operator error.
func H_C15_unknown(v *zzverif.T) {
	for _, name := range []string{v.FreshString("op"), "", "abs", "Abs ", "LSTMCell", "Conv2D"} {
		op, err := GetOperator(name)
		v.Assert("C15.unknown-refused", op == nil && err != nil && v.Is(err, ops.ErrUnsupportedOperator))
	}
}
