//go:build verif

package opset13

import (
	"math"

	"github.com/advancedclimatesystems/gonnx/internal/zzverif"
	"github.com/advancedclimatesystems/gonnx/onnx"
	"gorgonia.org/tensor"
)

func init() {
	zzverif.Register("opset13.H_C09_argmax", H_C09_argmax)
	zzverif.Register("opset13.H_C09_reduce", H_C09_reduce)
	zzverif.Register("opset13.H_C09_softmax", H_C09_softmax)
	zzverif.Register("opset13.H_C09_softmax_ring", H_C09_softmax_ring)
}

func zzMaxOf[E zzNumber](a, b E) E {
	if b > a {
		return b
	}
	return a
}
func zzMinOf[E zzNumber](a, b E) E {
	if b < a {
		return b
	}
	return a
}

// zzFirstMax returns the first index attaining the maximum (strict comparisons).
func zzFirstMax[E zzNumber](a []E) int64 {
	best := a[0]
	bi := int64(0)
	for i := 1; i < len(a); i++ {
		if a[i] > best {
			best = a[i]
			bi = int64(i)
		}
	}
	return bi
}

func zzKeepAttr(v *zzverif.T, attrs []*onnx.AttributeProto) ([]*onnx.AttributeProto, bool) {
	switch v.CInt("keepdims") {
	case 0:
		return append(attrs, zzAttrI("keepdims", 0)), false
	case 1:
		return append(attrs, zzAttrI("keepdims", 1)), true
	}
	return attrs, true // absent: ONNX default is 1
}

func c09Argmax[E zzNumber](v *zzverif.T) {
	shape := v.CInts("shape")
	rank := len(shape)
	xs := zzverif.Syms[E](v, "x", zzverif.Prod(shape))
	nanfree := v.CBool("nanfree")
	if nanfree {
		for _, x := range xs {
			v.Assume(x == x)
		}
	}
	X := zzverif.NewTensor(xs, shape)
	snap := v.Snapshot(X)
	axis := v.IntIn("axis", -rank-1, rank)
	var attrs []*onnx.AttributeProto
	if !v.CBool("default") {
		attrs = append(attrs, zzAttrI("axis", int64(axis)))
	}
	attrs, keep := zzKeepAttr(v, attrs)
	r := zzRun(v, "ArgMax", attrs, []tensor.Tensor{X})
	v.Assert("C09.no-panic", !r.Panicked)
	if r.Panicked {
		return
	}
	v.AssertUnchanged("C09.input-unmodified", X, snap)
	axis = v.Concrete(axis)
	if v.CBool("default") {
		axis = 0
	}
	if axis < -rank || axis >= rank {
		v.Assert("C09.invalid-axis-is-an-error", r.Err != nil)
		return
	}
	if axis < 0 {
		axis += rank
	}
	if r.Err != nil && r.Stage == "validate" && v.CBool("mayrefuse") {
		return // an element type outside float32/float64/int32/int64 may be refused by the input gate
	}
	v.Assert("C09.valid-request-is-computed", r.Err == nil && len(r.Outs) == 1)
	if r.Err != nil || len(r.Outs) != 1 {
		return
	}
	outShape := []int{}
	for i, d := range shape {
		if i != axis {
			outShape = append(outShape, d)
		} else if keep {
			outShape = append(outShape, 1)
		}
	}
	red := []int{}
	for i, d := range shape {
		if i != axis {
			red = append(red, d)
		}
	}
	n := zzverif.Prod(red)
	want := make([]int64, n)
	infTie := false
	for o := 0; o < n; o++ {
		oi := zzverif.Unravel(o, red)
		sl := make([]E, shape[axis])
		for k := range sl {
			ii := append(append(append([]int{}, oi[:axis]...), k), oi[axis:]...)
			sl[k] = xs[zzverif.Ravel(ii, shape)]
		}
		want[o] = zzFirstMax(sl)
		for k := 1; k < len(sl); k++ {
			if float64(sl[0]) == math.Inf(1) && float64(sl[k]) == math.Inf(1) {
				infTie = true
			}
		}
	}
	if !nanfree {
		// how NaN orders is not fixed by ONNX: only the range of the index is checked
		out := r.Outs[0]
		for o := 0; o < n; o++ {
			var got int64
			if len(outShape) == 0 {
				got = out.ScalarValue().(int64)
			} else {
				at, _ := out.At(zzverif.Unravel(o, outShape)...)
				got = at.(int64)
			}
			v.Assert("C09.argmax-index-in-range", got >= 0 && got < int64(shape[axis]))
		}
		v.Assert("C09.argmax-shape", zzverif.SameInts(out.Shape(), outShape))
		return
	}
	v.Region("C09.argmax-tie-of-infinities-from-index-0", infTie)
	v.AssertTensor("C09.argmax-first-occurrence", r.Outs[0], outShape, want)
}

// H_C09_argmax. case: shape; dtype; keepdims (-1 absent); default (axis absent); nanfree
func H_C09_argmax(v *zzverif.T) {
	switch v.CStr("dtype") {
	case "float64":
		c09Argmax[float64](v)
	case "int64":
		c09Argmax[int64](v)
	case "int32":
		c09Argmax[int32](v)
	case "uint8":
		c09Argmax[uint8](v)
	default:
		c09Argmax[float32](v)
	}
}

func c09Reduce[E zzNumber](v *zzverif.T) {
	op := v.CStr("op")
	shape := v.CInts("shape")
	rank := len(shape)
	xs := zzverif.Syms[E](v, "x", zzverif.Prod(shape))
	for _, x := range xs {
		v.Assume(x == x) // the order of NaNs is outside the property
	}
	X := zzverif.NewTensor(xs, shape)
	snap := v.Snapshot(X)
	naxes := v.CInt("naxes") // -1: attribute absent
	var attrs []*onnx.AttributeProto
	var axes []int
	if naxes >= 0 {
		axes = zzSymInts(v, "a", naxes, -rank-1, rank, false)
		a64 := make([]int64, naxes)
		for i := range axes {
			a64[i] = int64(axes[i])
		}
		attrs = append(attrs, zzAttrInts("axes", a64))
	}
	attrs, keep := zzKeepAttr(v, attrs)
	r := zzRun(v, op, attrs, []tensor.Tensor{X})
	v.Assert("C09.no-panic", !r.Panicked)
	if r.Panicked {
		return
	}
	v.AssertUnchanged("C09.input-unmodified", X, snap)
	reduced := make([]bool, rank)
	if naxes <= 0 {
		for i := range reduced {
			reduced[i] = true // no axes: reduce over all of them
		}
	}
	for i := range axes {
		a := v.Concrete(axes[i])
		if a < -rank || a >= rank {
			v.Assert("C09.invalid-axis-is-an-error", r.Err != nil)
			return
		}
		if a < 0 {
			a += rank
		}
		if reduced[a] {
			v.Assert("C09.repeated-axis-is-an-error", r.Err != nil)
			return
		}
		reduced[a] = true
	}
	if r.Err != nil && r.Stage == "validate" && v.CBool("mayrefuse") {
		return
	}
	v.Assert("C09.valid-request-is-computed", r.Err == nil && len(r.Outs) == 1)
	if r.Err != nil || len(r.Outs) != 1 {
		return
	}
	outShape := []int{}
	red := []int{}
	for i, d := range shape {
		if !reduced[i] {
			outShape = append(outShape, d)
			red = append(red, d)
		} else if keep {
			outShape = append(outShape, 1)
		}
	}
	want := make([]E, zzverif.Prod(red))
	set := make([]bool, len(want))
	for f, x := range xs {
		idx := zzverif.Unravel(f, shape)
		oi := []int{}
		for i := range shape {
			if !reduced[i] {
				oi = append(oi, idx[i])
			}
		}
		o := zzverif.Ravel(oi, red)
		if !set[o] {
			want[o], set[o] = x, true
		} else if op == "ReduceMax" {
			want[o] = zzMaxOf(want[o], x)
		} else {
			want[o] = zzMinOf(want[o], x)
		}
	}
	v.AssertTensorNum("C09.reduce-values", r.Outs[0], outShape, want)
}

// H_C09_reduce. case: op; shape; dtype; naxes; keepdims
func H_C09_reduce(v *zzverif.T) {
	switch v.CStr("dtype") {
	case "float64":
		c09Reduce[float64](v)
	case "int64":
		c09Reduce[int64](v)
	case "int32":
		c09Reduce[int32](v)
	case "uint8":
		c09Reduce[uint8](v)
	default:
		c09Reduce[float32](v)
	}
}

func zzSoftmaxSetup[E float32 | float64](v *zzverif.T) (op string, shape []int, xs []E, X tensor.Tensor, axis int, r zzResult, ok bool) {
	op = v.CStr("op")
	shape = v.CInts("shape")
	rank := len(shape)
	if v.Has("grid") && v.CBool("grid") {
		// IEEE arithmetic on the grid {-200, 0, 200} (float64: {-1000, 0, 1000}): every exponential of a difference is
		// exactly 0, 1 or +Inf,
		// which puts rows far longer than the general IEEE proof within reach
		xs = make([]E, zzverif.Prod(shape))
		for i := range xs {
			if _, wide := any(xs[i]).(float64); wide {
				xs[i] = zzverif.Choose[E](v, "g"+string(rune('a'+i)), -1000, 0, 1000)
			} else {
				xs[i] = zzverif.Choose[E](v, "g"+string(rune('a'+i)), -200, 0, 200)
			}
		}
	} else {
		xs = zzverif.Syms[E](v, "x", zzverif.Prod(shape))
	}
	X = zzverif.NewTensor(xs, shape)
	snap := v.Snapshot(X)
	grid := v.Has("grid") && v.CBool("grid")
	if grid {
		axis = v.CInt("axis") // concrete: nothing but the elements is symbolic in the long-row cases
	} else {
		axis = v.IntIn("axis", -rank-1, rank)
	}
	var attrs []*onnx.AttributeProto
	if !v.CBool("default") {
		attrs = append(attrs, zzAttrI("axis", int64(axis)))
	}
	r = zzRun(v, op, attrs, []tensor.Tensor{X})
	v.Assert("C09.no-panic", !r.Panicked)
	if r.Panicked {
		return
	}
	v.AssertUnchanged("C09.input-unmodified", X, snap)
	if !grid {
		axis = v.Concrete(axis)
	}
	if v.CBool("default") {
		axis = -1
	}
	if axis < -rank || axis >= rank {
		v.Assert("C09.invalid-axis-is-an-error", r.Err != nil)
		return
	}
	if axis < 0 {
		axis += rank
	}
	v.Assert("C09.valid-request-is-computed", r.Err == nil && len(r.Outs) == 1)
	ok = r.Err == nil && len(r.Outs) == 1
	return
}

// zzSeedRegion: gorgonia's last-axis kernel computes every slice's maximum as
// max(x[0] of the WHOLE tensor, slice[1:]): the slice's own first element is never looked at.
// That differs from the true maximum for slices after the first whenever their first element
// is the strict maximum, or x[0] exceeds the whole slice.
func zzSeedRegion[E float32 | float64](v *zzverif.T, xs []E, shape []int, axis int) {
	if axis != len(shape)-1 {
		return
	}
	d := shape[axis]
	hit := false
	for row := 1; row < len(xs)/d; row++ {
		seeded := xs[0]
		truth := xs[row*d]
		for j := 1; j < d; j++ {
			seeded = zzMaxOf(seeded, xs[row*d+j])
			truth = zzMaxOf(truth, xs[row*d+j])
		}
		if seeded != truth {
			hit = true
		}
	}
	v.Region("C09.softmax-slice-maximum-seeded-with-first-element", hit)
}

func c09SoftmaxIEEE[E float32 | float64](v *zzverif.T) {
	op, shape, xs, _, axis, r, ok := zzSoftmaxSetup[E](v)
	if !ok {
		return
	}
	for _, x := range xs {
		v.Assume(x == x && float64(x) != math.Inf(1) && float64(x) != math.Inf(-1)) // finite inputs
	}
	zzSeedRegion(v, xs, shape, axis)
	out := r.Outs[0]
	v.Assert("C09.softmax-shape-and-type", zzverif.SameInts(out.Shape(), shape) && out.Dtype() == r.Outs[0].Dtype())
	for f := range xs {
		at, _ := out.At(zzverif.Unravel(f, shape)...)
		y := at.(E)
		if op == "Softmax" {
			v.Assert("C09.softmax-finite-nonnegative", y == y && y >= 0 && y <= 1)
			if v.Has("grid") && v.CBool("grid") {
				// on the grid the exact answer is 1/(number of maxima of the slice) at a maximum and 0 elsewhere
				d, inner := shape[axis], zzverif.Prod(shape[axis+1:])
				base := f/(d*inner)*(d*inner) + f%inner
				m, cnt := xs[base], 0
				for j := 1; j < d; j++ {
					m = zzMaxOf(m, xs[base+j*inner])
				}
				for j := 0; j < d; j++ {
					if xs[base+j*inner] == m {
						cnt++
					}
				}
				want := E(0)
				if xs[f] == m {
					want = 1 / E(cnt)
				}
				v.Assert("C09.softmax-on-the-grid-is-exact", y == want)
			}
		} else {
			v.Assert("C09.logsoftmax-not-nan-nonpositive", y == y && y <= 0)
		}
	}
}

// H_C09_softmax (IEEE mode). case: op; shape; dtype; default
func H_C09_softmax(v *zzverif.T) {
	if v.CStr("dtype") == "float64" {
		c09SoftmaxIEEE[float64](v)
	} else {
		c09SoftmaxIEEE[float32](v)
	}
}

// zzSoftmaxRef: exp(x-m)/sum resp. (x-m)-log(sum) along one axis, in plain loops.
func zzSoftmaxRef(v *zzverif.T, op string, xs []float64, shape []int, axis int) []float64 {
	d := shape[axis]
	want := make([]float64, len(xs))
	rest := []int{}
	for i, e := range shape {
		if i != axis {
			rest = append(rest, e)
		}
	}
	for o := 0; o < zzverif.Prod(rest); o++ {
		oi := zzverif.Unravel(o, rest)
		pos := make([]int, d)
		for k := 0; k < d; k++ {
			ii := append(append(append([]int{}, oi[:axis]...), k), oi[axis:]...)
			pos[k] = zzverif.Ravel(ii, shape)
		}
		m := xs[pos[0]]
		for k := 1; k < d; k++ {
			m = zzMaxOf(m, xs[pos[k]])
		}
		sum := 0.0
		for k := 0; k < d; k++ {
			sum += math.Exp(xs[pos[k]] - m)
		}
		total := 0.0
		for k := 0; k < d; k++ {
			if op == "Softmax" {
				want[pos[k]] = math.Exp(xs[pos[k]]-m) * (1 / sum)
				total += want[pos[k]]
			} else {
				want[pos[k]] = (xs[pos[k]] - m) - math.Log(sum)
			}
		}
		if op == "Softmax" {
			v.Assert("C09.softmax-slice-sums-to-one", total < 1.000001 && total > 0.999999)
		}
	}
	return want
}

// H_C09_softmax_ring: exact arithmetic. Softmax slices are non-negative and sum to 1, the
// outputs are exp(x-m)/sum along the requested axis only, LogSoftmax is (x-m) - log(sum).
// The same operator instance is then applied to an input of another rank.
func H_C09_softmax_ring(v *zzverif.T) {
	v.Ring()
	op := v.CStr("op")
	shape := v.CInts("shape")
	rank := len(shape)
	xs := zzverif.Syms[float64](v, "x", zzverif.Prod(shape))
	X := zzverif.NewTensor(xs, shape)
	snap := v.Snapshot(X)
	axis := v.IntIn("axis", -rank-1, rank)
	var attrs []*onnx.AttributeProto
	if !v.CBool("default") {
		attrs = append(attrs, zzAttrI("axis", int64(axis)))
	}
	inst, ierr, panicked := zzInitOp(v, op, attrs)
	v.Assert("C09.no-panic", !panicked)
	if panicked || ierr != nil {
		v.Assert("C09.init", ierr == nil)
		return
	}
	r := zzApplyOn(v, inst, []tensor.Tensor{X})
	v.Assert("C09.no-panic", !r.Panicked)
	if r.Panicked {
		return
	}
	v.AssertUnchanged("C09.input-unmodified", X, snap)
	axis = v.Concrete(axis)
	if v.CBool("default") {
		axis = -1
	}
	if axis >= -rank && axis < rank {
		a := axis
		if a < 0 {
			a += rank
		}
		v.Assert("C09.valid-request-is-computed", r.Err == nil && len(r.Outs) == 1)
		if r.Err == nil && len(r.Outs) == 1 {
			zzSeedRegion(v, xs, shape, a)
			v.AssertTensor("C09.softmax-along-the-requested-axis", r.Outs[0], shape, zzSoftmaxRef(v, op, xs, shape, a))
		}
	} else {
		v.Assert("C09.invalid-axis-is-an-error", r.Err != nil)
	}
	// second application of the same instance: the same data with one more leading axis
	shape2 := append([]int{1}, shape...)
	X2 := zzverif.NewTensor(xs, shape2)
	r2 := zzApplyOn(v, inst, []tensor.Tensor{X2})
	v.Assert("C09.no-panic", !r2.Panicked)
	if r2.Panicked {
		return
	}
	if axis >= -rank-1 && axis < rank+1 {
		a := axis
		if a < 0 {
			a += rank + 1
		}
		v.Assert("C09.second-application-is-computed", r2.Err == nil && len(r2.Outs) == 1)
		if r2.Err == nil && len(r2.Outs) == 1 {
			zzSeedRegion(v, xs, shape2, a)
			v.AssertTensor("C09.second-application-along-its-own-axis", r2.Outs[0], shape2, zzSoftmaxRef(v, op, xs, shape2, a))
		}
	} else {
		v.Assert("C09.invalid-axis-is-an-error", r2.Err != nil)
	}
}
