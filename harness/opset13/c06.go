//go:build verif

package opset13

import (
	"math"

	"github.com/advancedclimatesystems/gonnx/internal/zzverif"
	"github.com/advancedclimatesystems/gonnx/onnx"
	"github.com/advancedclimatesystems/gonnx/ops"
	"gorgonia.org/tensor"
)

func init() {
	zzverif.Register("opset13.H_C06", H_C06)
}

func zzAct[E float32 | float64](name string, x E) E {
	switch name {
	case "sigmoid":
		return E(1 / (1 + math.Exp(float64(-x))))
	case "tanh":
		return E(math.Tanh(float64(x)))
	case "relu":
		return zzReluF(x)
	}
	return x
}

// zzRnnState is the data of one recurrent problem.
type zzRnnState[E float32 | float64] struct {
	op                         string
	input, hidden, batch, G    int
	W, R, B, P                 []E // B and P may be nil
	acts                       []string
	lbr                        bool
}

// zzRnnStep advances (h, c) by one time step on input row x (batch x input); ONNX equations.
func (s *zzRnnState[E]) zzRnnStep(x, h, c []E) (nh, nc []E) {
	H, I := s.hidden, s.input
	gate := func(g int, b, j int, hv []E) E {
		var dx E
		for l := 0; l < I; l++ {
			dx += x[b*I+l] * s.W[(g*H+j)*I+l]
		}
		if s.B != nil {
			dx += s.B[g*H+j]
		}
		var dh E
		for l := 0; l < H; l++ {
			dh += hv[b*H+l] * s.R[(g*H+j)*H+l]
		}
		if s.B != nil {
			dh += s.B[(s.G+g)*H+j]
		}
		return dx + dh
	}
	nh = make([]E, len(h))
	nc = make([]E, len(c))
	for b := 0; b < s.batch; b++ {
		switch s.op {
		case "RNN":
			for j := 0; j < H; j++ {
				nh[b*H+j] = zzAct(s.acts[0], gate(0, b, j, h))
			}
		case "GRU":
			z := make([]E, H)
			r := make([]E, H)
			for j := 0; j < H; j++ {
				z[j] = zzAct(s.acts[0], gate(0, b, j, h))
				r[j] = zzAct(s.acts[0], gate(1, b, j, h))
			}
			rh := make([]E, len(h))
			for j := 0; j < H; j++ {
				rh[b*H+j] = r[j] * h[b*H+j]
			}
			for j := 0; j < H; j++ {
				var ht E
				if !s.lbr {
					ht = zzAct(s.acts[1], gate(2, b, j, rh))
				} else {
					var dx E
					for l := 0; l < I; l++ {
						dx += x[b*I+l] * s.W[(2*H+j)*I+l]
					}
					if s.B != nil {
						dx += s.B[2*H+j]
					}
					var dh E
					for l := 0; l < H; l++ {
						dh += h[b*H+l] * s.R[(2*H+j)*H+l]
					}
					if s.B != nil {
						dh += s.B[(3+2)*H+j]
					}
					ht = zzAct(s.acts[1], dh*r[j]+dx)
				}
				nh[b*H+j] = (1-z[j])*ht + z[j]*h[b*H+j]
			}
		case "LSTM":
			// gate order in W/R/B: i o f c ; peepholes P: i o f
			for j := 0; j < H; j++ {
				it := gate(0, b, j, h)
				ft := gate(2, b, j, h)
				if s.P != nil {
					it += s.P[0*H+j] * c[b*H+j]
					ft += s.P[2*H+j] * c[b*H+j]
				}
				it, ft = zzAct(s.acts[0], it), zzAct(s.acts[0], ft)
				ct := zzAct(s.acts[1], gate(3, b, j, h))
				nc[b*H+j] = ft*c[b*H+j] + it*ct
				ot := gate(1, b, j, h)
				if s.P != nil {
					ot += s.P[1*H+j] * nc[b*H+j]
				}
				ot = zzAct(s.acts[0], ot)
				nh[b*H+j] = ot * zzAct(s.acts[2], nc[b*H+j])
			}
		}
	}
	return nh, nc
}

// H_C06: RNN / GRU / LSTM against the ONNX recurrences, and split consistency.
//
// case: op; seq, batch, input, hidden; B, H0, C0, P (bools: optional inputs present);
// activations []string (empty: default); lbr, input_forget (ints, -1 absent); split (0: none, k: split point)
func H_C06(v *zzverif.T) {
	if v.Has("dtype") && v.CStr("dtype") == "float64" {
		c06Run[float64](v, true)
	} else {
		c06Run[float32](v, false)
	}
}

// c06Run: is64 - the operands are float64; the operators may refuse them (they do: alpha/beta are E),
// but an answer must be the recurrence's.
func c06Run[E float32 | float64](v *zzverif.T, is64 bool) {
	v.Ring()
	op := v.CStr("op")
	seq, batch, in, hid := v.CInt("seq"), v.CInt("batch"), v.CInt("input"), v.CInt("hidden")
	G := map[string]int{"RNN": 1, "GRU": 3, "LSTM": 4}[op]
	st := &zzRnnState[E]{op: op, input: in, hidden: hid, batch: batch, G: G}
	xs := zzverif.Syms[E](v, "x", seq*batch*in)
	st.W = zzverif.Syms[E](v, "w", G*hid*in)
	st.R = zzverif.Syms[E](v, "r", G*hid*hid)
	W := zzverif.NewTensor(st.W, []int{1, G * hid, in})
	R := zzverif.NewTensor(st.R, []int{1, G * hid, hid})
	var B, H0, C0, P tensor.Tensor
	if v.CBool("B") {
		st.B = zzverif.Syms[E](v, "b", 2*G*hid)
		B = zzverif.NewTensor(st.B, []int{1, 2 * G * hid})
	}
	h0 := make([]E, batch*hid)
	c0 := make([]E, batch*hid)
	if v.CBool("H0") {
		h0 = zzverif.Syms[E](v, "h", batch*hid)
		H0 = zzverif.NewTensor(h0, []int{1, batch, hid})
	}
	if op == "LSTM" && v.CBool("C0") {
		c0 = zzverif.Syms[E](v, "c", batch*hid)
		C0 = zzverif.NewTensor(c0, []int{1, batch, hid})
	}
	if op == "LSTM" && v.CBool("P") {
		st.P = zzverif.Syms[E](v, "p", 3*hid)
		P = zzverif.NewTensor(st.P, []int{1, 3 * hid})
	}
	attrs := []*onnx.AttributeProto{zzAttrI("hidden_size", int64(hid))}
	st.acts = map[string][]string{"RNN": {"tanh"}, "GRU": {"sigmoid", "tanh"}, "LSTM": {"sigmoid", "tanh", "tanh"}}[op]
	actsOK := true
	if a := v.CStrs("activations"); len(a) > 0 {
		st.acts = a
		attrs = append(attrs, zzAttrStrings("activations", a))
		for _, n := range a {
			if n != "sigmoid" && n != "tanh" && n != "relu" {
				actsOK = false
			}
		}
	}
	if lbr := v.CInt("lbr"); lbr >= 0 && op == "GRU" {
		attrs = append(attrs, zzAttrI("linear_before_reset", int64(lbr)))
		st.lbr = lbr != 0
	}
	inputForget := false
	if f := v.CInt("input_forget"); f >= 0 && op == "LSTM" {
		attrs = append(attrs, zzAttrI("input_forget", int64(f)))
		inputForget = f != 0
	}
	outNames := map[string][]string{"RNN": {"Y", "Y_h"}, "GRU": {"Y", "Y_h"}, "LSTM": {"Y", "Y_h", "Y_c"}}[op]
	mkInputs := func(X, h, c tensor.Tensor) []tensor.Tensor {
		ins := []tensor.Tensor{X, W, R, B, nil, h}
		if op == "LSTM" {
			ins = append(ins, c, P)
		}
		// omitted trailing optional inputs are not passed at all
		for len(ins) > 3 && ins[len(ins)-1] == nil {
			ins = ins[:len(ins)-1]
		}
		return ins
	}
	var inst ops.Operator
	var ierr error
	panicked := v.Try(func() {
		inst, ierr = GetOperator(op)
		if ierr == nil {
			ierr = inst.Init(&onnx.NodeProto{OpType: op, Attribute: attrs, Output: outNames})
		}
	})
	v.Assert("C06.no-panic", !panicked)
	if panicked {
		return
	}
	if inputForget {
		// coupling the input and forget gates is not implemented: it must be refused, not ignored
		r := zzResult{Err: ierr}
		if ierr == nil {
			r = zzApplyOn(v, inst, mkInputs(zzverif.NewTensor(xs, []int{seq, batch, in}), H0, C0))
		}
		v.Assert("C06.input_forget-is-honoured-or-refused", r.Panicked || r.Err != nil)
		return
	}
	v.Assert("C06.init", ierr == nil)
	if ierr != nil {
		return
	}
	// known quirks of the slicing-based implementation
	v.Region("C06.hidden-size-1", hid == 1)
	v.Region("C06.batch-1-and-input-1", batch == 1 && in == 1)

	// reference: the recurrence, step by step
	hs := make([][]E, seq+1)
	cs := make([][]E, seq+1)
	hs[0], cs[0] = h0, c0
	for t := 0; t < seq; t++ {
		hs[t+1], cs[t+1] = st.zzRnnStep(xs[t*batch*in:(t+1)*batch*in], hs[t], cs[t])
	}
	check := func(tag string, r zzResult, t0, t1 int) bool {
		v.Assert("C06.no-panic", !r.Panicked)
		if r.Panicked {
			return false
		}
		if !actsOK {
			v.Assert("C06.unsupported-activation-is-refused", r.Err != nil)
			return false
		}
		if is64 && r.Err != nil {
			return false // float64 operands refused: allowed
		}
		v.Assert("C06."+tag+"-computed", r.Err == nil && len(r.Outs) == len(outNames))
		if r.Err != nil || len(r.Outs) != len(outNames) {
			return false
		}
		y := []E{}
		for t := t0; t < t1; t++ {
			y = append(y, hs[t+1]...)
		}
		v.AssertTensor("C06."+tag+"-Y", r.Outs[0], []int{t1 - t0, 1, batch, hid}, y)
		v.AssertTensor("C06."+tag+"-Y_h", r.Outs[1], []int{1, batch, hid}, hs[t1])
		if op == "LSTM" {
			v.AssertTensor("C06."+tag+"-Y_c", r.Outs[2], []int{1, batch, hid}, cs[t1])
		}
		return true
	}
	X := zzverif.NewTensor(xs, []int{seq, batch, in})
	snapX, snapW, snapR := v.Snapshot(X), v.Snapshot(W), v.Snapshot(R)
	snapH, snapC, snapB := v.Snapshot(H0), v.Snapshot(C0), v.Snapshot(B)
	whole := zzApplyOn(v, inst, mkInputs(X, H0, C0))
	ok := check("whole", whole, 0, seq)
	v.AssertUnchanged("C06.X-unmodified", X, snapX)
	v.AssertUnchanged("C06.W-unmodified", W, snapW)
	v.AssertUnchanged("C06.R-unmodified", R, snapR)
	v.AssertUnchanged("C06.B-unmodified", B, snapB)
	v.AssertUnchanged("C06.initial_h-unmodified", H0, snapH)
	v.AssertUnchanged("C06.initial_c-unmodified", C0, snapC)
	k := v.CInt("split")
	if !ok || k <= 0 || k >= seq {
		return
	}
	// the sequence in two pieces, the state tensors returned by the first call fed to the second
	first := zzApplyOn(v, inst, mkInputs(zzverif.NewTensor(xs[:k*batch*in], []int{k, batch, in}), H0, C0))
	if !check("first-piece", first, 0, k) {
		return
	}
	var cIn tensor.Tensor
	if op == "LSTM" {
		cIn = first.Outs[2]
	}
	second := zzApplyOn(v, inst, mkInputs(zzverif.NewTensor(xs[k*batch*in:], []int{seq - k, batch, in}), first.Outs[1], cIn))
	check("second-piece", second, k, seq)
}
