//go:build verif

package opset13

import (
	"github.com/advancedclimatesystems/gonnx/internal/zzverif"
	"github.com/advancedclimatesystems/gonnx/onnx"
	"gorgonia.org/tensor"
)

func init() {
	zzverif.Register("opset13.H_reuse", H_reuse)
}

func zzRSplit(s string, sep byte) []string {
	out := []string{}
	start := 0
	for i := 0; i < len(s); i++ {
		if s[i] == sep {
			out = append(out, s[start:i])
			start = i + 1
		}
	}
	return append(out, s[start:])
}

func zzRAtoi(s string) int {
	n, neg := 0, false
	for i := 0; i < len(s); i++ {
		if s[i] == '-' {
			neg = true
			continue
		}
		n = n*10 + int(s[i]-'0')
	}
	if neg {
		return -n
	}
	return n
}

// zzRAttrs: "axis=-1;perm=1,0;auto_pad=SAME_UPPER;activations=Relu,Tanh" -> attributes
func zzRAttrs(spec string) []*onnx.AttributeProto {
	var out []*onnx.AttributeProto
	if spec == "" {
		return out
	}
	for _, kv := range zzRSplit(spec, ';') {
		p := zzRSplit(kv, '=')
		name, val := p[0], p[1]
		switch name {
		case "perm", "axes", "pads", "strides", "dilations", "kernel_shape":
			var is []int64
			if val != "" { // "perm=" is the attribute with an empty list
				for _, x := range zzRSplit(val, ',') {
					is = append(is, int64(zzRAtoi(x)))
				}
			}
			out = append(out, zzAttrInts(name, is))
		case "auto_pad", "direction":
			out = append(out, zzAttrS(name, val))
		case "activations":
			out = append(out, zzAttrStrings(name, zzRSplit(val, ',')))
		case "coefficients", "intercepts", "offset", "scale":
			var fs []float32
			for _, x := range zzRSplit(val, ',') {
				fs = append(fs, float32(zzRAtoi(x)))
			}
			out = append(out, zzAttrFloats(name, fs))
		case "alpha", "beta", "value_float":
			out = append(out, zzAttrF(name, float32(zzRAtoi(val))))
		default:
			out = append(out, zzAttrI(name, int64(zzRAtoi(val))))
		}
	}
	return out
}

// zzRData is one input: "2,3" (float32, symbolic), "2,3:f64" (float64, symbolic), "2:i64=1,-1" (int64, concrete), "2,2:bool" (symbolic), "-" (absent)
type zzRData struct {
	absent bool
	shape  []int
	kind   string
	f      []float32
	d      []float64
	i      []int64
	b      []bool
}

func zzRParse(v *zzverif.T, spec, name string) zzRData {
	if spec == "-" {
		return zzRData{absent: true}
	}
	p := zzRSplit(spec, ':')
	d := zzRData{kind: "f32", shape: []int{}}
	if p[0] != "" {
		for _, x := range zzRSplit(p[0], ',') {
			d.shape = append(d.shape, zzRAtoi(x))
		}
	}
	n := zzverif.Prod(d.shape)
	if len(p) > 1 {
		if p[1] == "bool" {
			d.kind = "bool"
		} else if p[1] == "f64" {
			d.kind = "f64"
		} else {
			d.kind = "i64"
			kv := zzRSplit(p[1], '=')
			for _, x := range zzRSplit(kv[1], ',') {
				d.i = append(d.i, int64(zzRAtoi(x)))
			}
		}
	}
	switch d.kind {
	case "f32":
		d.f = zzverif.Syms[float32](v, name, n)
	case "bool":
		d.b = zzverif.Syms[bool](v, name, n)
	case "f64":
		d.d = zzverif.Syms[float64](v, name, n)
	}
	return d
}

func (d zzRData) tensor() tensor.Tensor {
	if d.absent {
		return nil
	}
	switch d.kind {
	case "i64":
		return zzverif.NewTensor(d.i, d.shape)
	case "bool":
		return zzverif.NewTensor(d.b, d.shape)
	case "f64":
		return zzverif.NewTensor(d.d, d.shape)
	}
	return zzverif.NewTensor(d.f, d.shape)
}

func zzRTensors(ds []zzRData) []tensor.Tensor {
	var out []tensor.Tensor
	for _, d := range ds {
		out = append(out, d.tensor())
	}
	return out
}

// H_reuse: an operator instance has no memory. One initialised instance is applied to input set A, then to
// input set B (another rank / geometry / values), then to A again; every result must equal what a FRESH
// instance (same attributes) returns for private copies of the same inputs, errors included.
//
// case: prop (label prefix); op; attrs; a, b: input specs
func H_reuse(v *zzverif.T) {
	v.Ring()
	prop, op := v.CStr("prop"), v.CStr("op")
	attrs := v.CStr("attrs")
	var da, db []zzRData
	for k, s := range v.CStrs("a") {
		da = append(da, zzRParse(v, s, "a"+string(rune('0'+k))+"_"))
	}
	for k, s := range v.CStrs("b") {
		db = append(db, zzRParse(v, s, "b"+string(rune('0'+k))+"_"))
	}
	used, err, p := zzInitOp(v, op, zzRAttrs(attrs))
	v.Assert(prop+".reuse.instance-initialises", !p && err == nil)
	if p || err != nil {
		return
	}
	fresh := func(ds []zzRData) zzResult {
		f, ferr, fp := zzInitOp(v, op, zzRAttrs(attrs))
		if fp || ferr != nil {
			return zzResult{Panicked: fp, Err: ferr, Stage: "init"}
		}
		return zzApplyOn(v, f, zzRTensors(ds))
	}
	same := func(tag string, got, want zzResult) {
		v.Assert(prop+".reuse.no-panic:"+tag, !got.Panicked && !want.Panicked)
		if got.Panicked || want.Panicked {
			return
		}
		v.Assert(prop+".used-instance-as-fresh-instance:"+tag+":errorness", (got.Err != nil) == (want.Err != nil))
		if got.Err != nil || want.Err != nil {
			return
		}
		v.Assert(prop+".used-instance-as-fresh-instance:"+tag+":outputs", len(got.Outs) == len(want.Outs))
		for k := range got.Outs {
			if k < len(want.Outs) {
				v.AssertSameTensor(prop+".used-instance-as-fresh-instance:"+tag, got.Outs[k], want.Outs[k])
			}
		}
	}
	r1 := zzApplyOn(v, used, zzRTensors(da))
	same("first", r1, fresh(da))
	r2 := zzApplyOn(v, used, zzRTensors(db))
	same("second-other-inputs", r2, fresh(db))
	r3 := zzApplyOn(v, used, zzRTensors(da))
	same("third-first-inputs-again", r3, fresh(da))
	// two instances initialised before either is applied (another operator type or other attributes): each
	// still means its own node
	if v.Has("op2") {
		op2, attrs2 := v.CStr("op2"), v.CStr("attrs2")
		i1, e1, p1 := zzInitOp(v, op, zzRAttrs(attrs))
		i2, e2, p2 := zzInitOp(v, op2, zzRAttrs(attrs2))
		v.Assert(prop+".reuse.two-instances-initialise", !p1 && !p2 && e1 == nil && e2 == nil)
		if !p1 && !p2 && e1 == nil && e2 == nil {
			f1 := fresh(da)
			ra := zzApplyOn(v, i1, zzRTensors(da))
			same("first-of-two-instances", ra, f1)
			rb := zzApplyOn(v, i2, zzRTensors(da))
			fb, ferr, fp := zzInitOp(v, op2, zzRAttrs(attrs2))
			if !fp && ferr == nil {
				same("second-of-two-instances", rb, zzApplyOn(v, fb, zzRTensors(da)))
			}
		}
	}
	// the very same tensor objects twice (an operator that marks its inputs shows here)
	shared := zzRTensors(db)
	r4 := zzApplyOn(v, used, shared)
	r5 := zzApplyOn(v, used, shared)
	same("same-objects-twice", r5, r4)
	// ... and again with ONE operand exchanged for another tensor of the same shape (other values) while the
	// others stay the very same objects, resp. with the last operand left out: what an instance derives from
	// its operands is a function of all of them, not of the identity of some
	for k := range db {
		if db[k].absent || db[k].kind == "i64" {
			continue
		}
		other := db[k]
		tag := "c" + string(rune('0'+k)) + "_"
		switch other.kind {
		case "f32":
			other.f = zzverif.Syms[float32](v, tag, len(other.f))
		case "f64":
			other.d = zzverif.Syms[float64](v, tag, len(other.d))
		case "bool":
			other.b = zzverif.Syms[bool](v, tag, len(other.b))
		}
		mixed := append([]tensor.Tensor(nil), shared...)
		mixed[k] = other.tensor()
		priv := append([]zzRData(nil), db...)
		priv[k] = other
		same("one-operand-exchanged", zzApplyOn(v, used, mixed), fresh(priv))
	}
	if n := len(db); n > 2 && !db[n-1].absent {
		same("last-operand-left-out", zzApplyOn(v, used, shared[:n-1]), fresh(db[:n-1]))
	}
	// the very same tensor OBJECTS once more after the caller has written new values into them: the result is a
	// function of the operands' current contents, not of their identity
	changed := append([]zzRData(nil), db...)
	for k := range changed {
		d := &changed[k]
		if d.absent || shared[k] == nil {
			continue
		}
		dense, ok := shared[k].(*tensor.Dense)
		if !ok {
			continue
		}
		tag := "m" + string(rune('0'+k)) + "_"
		switch d.kind {
		case "f32":
			d.f = zzverif.Syms[float32](v, tag, len(d.f))
			for i, x := range d.f {
				dense.Set(i, x)
			}
		case "f64":
			d.d = zzverif.Syms[float64](v, tag, len(d.d))
			for i, x := range d.d {
				dense.Set(i, x)
			}
		case "bool":
			d.b = zzverif.Syms[bool](v, tag, len(d.b))
			for i, x := range d.b {
				dense.Set(i, x)
			}
		}
	}
	same("same-objects-with-new-contents", zzApplyOn(v, used, shared), fresh(changed))
}
