//go:build verif

package onnx

import (
	"testing"

	"github.com/advancedclimatesystems/gonnx/internal/zzverif"
)

func TestZZReplay(t *testing.T) { zzverif.RunJobs("onnx") }
