//go:build verif

package onnx

import (
	"math"

	"github.com/advancedclimatesystems/gonnx/internal/zzverif"
	"gorgonia.org/tensor"
)

func init() {
	zzverif.Register("onnx.H_C12", H_C12)
	zzverif.Register("onnx.H_C12_other", H_C12_other)
}

func zzLE16(b []byte, i int) uint16 { return uint16(b[2*i]) | uint16(b[2*i+1])<<8 }
func zzLE32(b []byte, i int) uint32 {
	return uint32(b[4*i]) | uint32(b[4*i+1])<<8 | uint32(b[4*i+2])<<16 | uint32(b[4*i+3])<<24
}
func zzLE64(b []byte, i int) uint64 {
	return uint64(b[8*i]) | uint64(b[8*i+1])<<8 | uint64(b[8*i+2])<<16 | uint64(b[8*i+3])<<24 |
		uint64(b[8*i+4])<<32 | uint64(b[8*i+5])<<40 | uint64(b[8*i+6])<<48 | uint64(b[8*i+7])<<56
}

var zzWidth = map[string]int{"FLOAT": 4, "DOUBLE": 8, "INT8": 1, "INT16": 2, "INT32": 4, "INT64": 8,
	"UINT8": 1, "UINT16": 2, "UINT32": 4, "UINT64": 8, "BOOL": 1}

// H_C12: an initializer decodes to its declared shape, type and exact values,
// or is refused with an error.
//
// case: dtype string; enc "raw"|"typed"; dims []int; n int (payload length: bytes for raw, elements for typed)
func H_C12(v *zzverif.T) {
	dtype := v.CStr("dtype")
	enc := v.CStr("enc")
	dims := v.CInts("dims")
	n := v.CInt("n")
	code := TensorProto_DataType_value[dtype]

	count := 1
	negDim := false
	dims64 := make([]int64, len(dims))
	for i, d := range dims {
		count *= d
		dims64[i] = int64(d)
		if d < 0 {
			negDim = true
		}
	}
	tp := &TensorProto{Name: "w", DataType: code, Dims: dims64}
	var raw []byte
	var f32 []float32
	var f64 []float64
	var i32 []int32
	var i64 []int64
	var u64 []uint64
	elems := n // number of complete elements present
	if enc == "raw" {
		raw = zzverif.Syms[byte](v, "raw", n)
		tp.RawData = append([]byte(nil), raw...)
		if v.Has("offset") && v.CInt("offset") > 0 {
			// the payload is a window of a larger buffer that starts at an odd offset (protobuf hands out sub-slices of
			// the message it decoded: the bytes of a tensor are not aligned to its element size)
			k := v.CInt("offset")
			buf := make([]byte, k+n+3)
			copy(buf[k:], raw)
			tp.RawData = buf[k : k+n]
		}
		elems = n / zzWidth[dtype]
	} else {
		switch dtype {
		case "FLOAT":
			f32 = zzverif.Syms[float32](v, "f32", n)
			tp.FloatData = append([]float32(nil), f32...)
		case "DOUBLE":
			f64 = zzverif.Syms[float64](v, "f64", n)
			tp.DoubleData = append([]float64(nil), f64...)
		case "INT64":
			i64 = zzverif.Syms[int64](v, "i64", n)
			tp.Int64Data = append([]int64(nil), i64...)
		case "UINT32", "UINT64":
			u64 = zzverif.Syms[uint64](v, "u64", n)
			tp.Uint64Data = append([]uint64(nil), u64...)
		default:
			i32 = zzverif.Syms[int32](v, "i32", n)
			if dtype == "BOOL" {
				for _, x := range i32 {
					v.Assume(x == 0 || x == 1)
				}
			}
			tp.Int32Data = append([]int32(nil), i32...)
		}
	}
	exact := !negDim && ((enc == "raw" && n == count*zzWidth[dtype]) || (enc == "typed" && n == count))
	// an empty payload is the one the typed/raw dispatch cannot tell apart: with zero
	// elements declared both encodings are "present"
	v.Region("C12.partial-trailing-element", enc == "raw" && n%zzWidth[dtype] != 0)
	v.Region("C12.count-mismatch", !negDim && !exact)
	v.Region("C12.negative-dim", negDim)

	var t tensor.Tensor
	var err error
	panicked := v.Try(func() { t, err = TensorFromProto(tp) })
	v.Assert("C12.no-panic", !panicked)
	if panicked {
		return
	}
	if !exact {
		v.Assert("C12.mismatch-refused", err != nil)
		return
	}
	v.Assert("C12.loaded", err == nil)
	if err != nil {
		return
	}
	shape := append([]int{}, dims...)
	switch dtype {
	case "FLOAT":
		want := make([]float32, count)
		for i := range want {
			if enc == "raw" {
				want[i] = math.Float32frombits(zzLE32(raw, i))
			} else {
				want[i] = f32[i]
			}
		}
		v.AssertTensor("C12.values", t, shape, want)
	case "DOUBLE":
		want := make([]float64, count)
		for i := range want {
			if enc == "raw" {
				want[i] = math.Float64frombits(zzLE64(raw, i))
			} else {
				want[i] = f64[i]
			}
		}
		v.AssertTensor("C12.values", t, shape, want)
	case "INT8":
		want := make([]int8, count)
		for i := range want {
			if enc == "raw" {
				want[i] = int8(raw[i])
			} else {
				want[i] = int8(i32[i])
			}
		}
		v.AssertTensor("C12.values", t, shape, want)
	case "UINT8":
		want := make([]uint8, count)
		for i := range want {
			if enc == "raw" {
				want[i] = raw[i]
			} else {
				want[i] = uint8(i32[i])
			}
		}
		v.AssertTensor("C12.values", t, shape, want)
	case "INT16":
		want := make([]int16, count)
		for i := range want {
			if enc == "raw" {
				want[i] = int16(zzLE16(raw, i))
			} else {
				want[i] = int16(i32[i])
			}
		}
		v.AssertTensor("C12.values", t, shape, want)
	case "UINT16":
		want := make([]uint16, count)
		for i := range want {
			if enc == "raw" {
				want[i] = zzLE16(raw, i)
			} else {
				want[i] = uint16(i32[i])
			}
		}
		v.AssertTensor("C12.values", t, shape, want)
	case "INT32":
		want := make([]int32, count)
		for i := range want {
			if enc == "raw" {
				want[i] = int32(zzLE32(raw, i))
			} else {
				want[i] = i32[i]
			}
		}
		v.AssertTensor("C12.values", t, shape, want)
	case "UINT32":
		want := make([]uint32, count)
		for i := range want {
			if enc == "raw" {
				want[i] = zzLE32(raw, i)
			} else {
				want[i] = uint32(u64[i])
			}
		}
		v.AssertTensor("C12.values", t, shape, want)
	case "INT64":
		want := make([]int64, count)
		for i := range want {
			if enc == "raw" {
				want[i] = int64(zzLE64(raw, i))
			} else {
				want[i] = i64[i]
			}
		}
		v.AssertTensor("C12.values", t, shape, want)
	case "UINT64":
		want := make([]uint64, count)
		for i := range want {
			if enc == "raw" {
				want[i] = zzLE64(raw, i)
			} else {
				want[i] = u64[i]
			}
		}
		v.AssertTensor("C12.values", t, shape, want)
	case "BOOL":
		want := make([]bool, count)
		for i := range want {
			if enc == "raw" {
				want[i] = raw[i] != 0
			} else {
				want[i] = i32[i] != 0
			}
		}
		v.AssertTensor("C12.values", t, shape, want)
	}
	_ = elems
}

// H_C12_other: a data_type the library cannot represent is an error whatever
// fields are populated.
//
// case: fields []string subset of {"float","int32","int64","double","uint64","raw"}; n int
func H_C12_other(v *zzverif.T) {
	code := zzverif.Sym[int32](v, "data_type")
	for _, name := range []string{"FLOAT", "UINT8", "INT8", "UINT16", "INT16", "INT32", "INT64", "BOOL", "DOUBLE", "UINT32", "UINT64"} {
		v.Assume(code != TensorProto_DataType_value[name])
	}
	n := v.CInt("n")
	tp := &TensorProto{Name: "w", DataType: code, Dims: []int64{int64(n)}}
	populated := false
	for _, f := range v.CStrs("fields") {
		populated = true
		switch f {
		case "float":
			tp.FloatData = zzverif.Syms[float32](v, "f32", n)
		case "int32":
			tp.Int32Data = zzverif.Syms[int32](v, "i32", n)
		case "int64":
			tp.Int64Data = zzverif.Syms[int64](v, "i64", n)
		case "double":
			tp.DoubleData = zzverif.Syms[float64](v, "f64", n)
		case "uint64":
			tp.Uint64Data = zzverif.Syms[uint64](v, "u64", n)
		case "raw":
			tp.RawData = zzverif.Syms[byte](v, "raw", 4*n)
		}
	}
	v.Region("C12.unsupported-dtype-typed-fallback", populated && n > 0)
	var t tensor.Tensor
	var err error
	panicked := v.Try(func() { t, err = TensorFromProto(tp) })
	v.Assert("C12.other.no-panic", !panicked)
	if panicked {
		return
	}
	v.Assert("C12.other.refused", err != nil && t == nil)
}

func init() { zzverif.Register("onnx.H_C12_params", H_C12_params) }

// H_C12_params: every initializer of a graph is decoded on its own terms, also
// when several of them carry the same payload.
//
// case: dimsA, dimsB []int (same element count); dtypeB "INT32"|"FLOAT"
func H_C12_params(v *zzverif.T) {
	dimsA, dimsB := v.CInts("dimsA"), v.CInts("dimsB")
	count := 1
	for _, d := range dimsA {
		count *= d
	}
	raw := zzverif.Syms[byte](v, "raw", 4*count)
	to64 := func(d []int) []int64 {
		o := make([]int64, len(d))
		for i := range d {
			o[i] = int64(d[i])
		}
		return o
	}
	codeB := TensorProto_DataType_value[v.CStr("dtypeB")]
	g := &GraphProto{Initializer: []*TensorProto{
		{Name: "a", DataType: TensorProto_DataType_value["INT32"], Dims: to64(dimsA), RawData: append([]byte(nil), raw...)},
		{Name: "b", DataType: codeB, Dims: to64(dimsB), RawData: append([]byte(nil), raw...)},
		{Name: "c", DataType: TensorProto_DataType_value["INT32"], Dims: to64(dimsA), RawData: append([]byte(nil), raw...)},
	}}
	var params map[string]tensor.Tensor
	var err error
	panicked := v.Try(func() { params, err = g.Params() })
	v.Assert("C12.params.no-panic", !panicked)
	if panicked {
		return
	}
	v.Assert("C12.params.loaded", err == nil && len(params) == 3)
	if err != nil {
		return
	}
	wantI := make([]int32, count)
	wantF := make([]float32, count)
	for i := 0; i < count; i++ {
		wantI[i] = int32(zzLE32(raw, i))
		wantF[i] = math.Float32frombits(zzLE32(raw, i))
	}
	v.AssertTensor("C12.params.a", params["a"], dimsA, wantI)
	if v.CStr("dtypeB") == "FLOAT" {
		v.AssertTensor("C12.params.b", params["b"], dimsB, wantF)
	} else {
		v.AssertTensor("C12.params.b", params["b"], dimsB, wantI)
	}
	v.AssertTensor("C12.params.c", params["c"], dimsA, wantI)
	v.Assert("C12.params.distinct-objects", params["a"] != params["c"])
}
