//go:build verif

// Package zzverif is the harness runtime. It is never part of a normal build
// of gonnx: it only exists in the overlay the verification engine passes to
// go/packages (symbolic execution) and to `go test -overlay` (native replay).
//
// Under the symbolic interpreter every function of this package is intercepted
// (its body below is NOT what runs); natively the bodies below give the same
// operations their concrete meaning, reading symbol values from a replay
// assignment.
package zzverif

import (
	"encoding/json"
	"errors"
	"fmt"
	"math"
	"math/big"
	"os"
	"reflect"
	"sort"
	"strconv"
	"strings"

	"gorgonia.org/tensor"
)

type Scalar interface {
	~int8 | ~int16 | ~int32 | ~int64 | ~int | ~uint8 | ~uint16 | ~uint32 | ~uint64 | ~float32 | ~float64 | ~bool
}

type T struct {
	Case   map[string]interface{}
	Asg    map[string]string
	ring   bool
	Fails  []string
	Notes  []string
	Panic  string
	Reach  []string
	assume bool
	roots  []protectedRoot
}

type assumeFailed struct{}

func New(cs map[string]interface{}, asg map[string]string) *T {
	return &T{Case: cs, Asg: asg}
}

// ---- structural case parameters (concrete in both worlds)

func (v *T) Has(name string) bool { _, ok := v.Case[name]; return ok }

func (v *T) CInt(name string) int {
	x, ok := v.Case[name]
	if !ok {
		panic("zzverif: missing case parameter " + name)
	}
	switch n := x.(type) {
	case float64:
		return int(n)
	case int:
		return n
	case json.Number:
		i, _ := n.Int64()
		return int(i)
	}
	panic(fmt.Sprintf("zzverif: case parameter %s is %T", name, x))
}

func (v *T) CInts(name string) []int {
	x, ok := v.Case[name]
	if !ok || x == nil {
		return nil
	}
	switch l := x.(type) {
	case []interface{}:
		out := make([]int, len(l))
		for i, e := range l {
			switch n := e.(type) {
			case float64:
				out[i] = int(n)
			case int:
				out[i] = n
			}
		}
		return out
	case []int:
		return append([]int{}, l...)
	}
	panic(fmt.Sprintf("zzverif: case parameter %s is %T", name, x))
}

func (v *T) CStr(name string) string {
	x, ok := v.Case[name]
	if !ok {
		panic("zzverif: missing case parameter " + name)
	}
	return x.(string)
}

func (v *T) CStrs(name string) []string {
	x, ok := v.Case[name]
	if !ok || x == nil {
		return nil
	}
	switch l := x.(type) {
	case []interface{}:
		out := make([]string, len(l))
		for i, e := range l {
			out[i] = e.(string)
		}
		return out
	case []string:
		return l
	}
	panic(fmt.Sprintf("zzverif: case parameter %s is %T", name, x))
}

func (v *T) CBool(name string) bool {
	x, ok := v.Case[name]
	if !ok {
		return false
	}
	return x.(bool)
}

// ---- modes

// Ring switches float arithmetic to exact real arithmetic (symbolically) and
// to a tolerance comparison (natively). Must be the first call of a harness.
func (v *T) Ring() { v.ring = true }

// MapOrders asks the interpreter to explore map iteration orders.
func (v *T) MapOrders() {}

// ---- symbols

func hashName(s string) uint32 {
	h := uint32(2166136261)
	for i := 0; i < len(s); i++ {
		h ^= uint32(s[i])
		h *= 16777619
	}
	return h
}

func (v *T) raw(name string) (string, bool) {
	s, ok := v.Asg[name]
	return s, ok
}

func parseBits(s string) (uint64, string, bool) {
	i := strings.IndexByte(s, ':')
	if i < 0 {
		return 0, "", false
	}
	kind, val := s[:i], s[i+1:]
	switch {
	case strings.HasPrefix(kind, "bv"):
		u, err := strconv.ParseUint(val, 10, 64)
		return u, kind, err == nil
	case kind == "f32" || kind == "f64":
		u, err := strconv.ParseUint(val, 16, 64)
		return u, kind, err == nil
	}
	return 0, kind, false
}

func ratToFloat(s string) float64 {
	r := new(big.Rat)
	if _, ok := r.SetString(s); !ok {
		return 0
	}
	f, _ := r.Float64()
	return f
}

// Sym returns the value of the named symbol.
func Sym[E Scalar](v *T, name string) E {
	var z E
	rv := reflect.ValueOf(&z).Elem()
	s, ok := v.raw(name)
	if !ok {
		// default: a small deterministic value
		h := hashName(name)
		switch rv.Kind() {
		case reflect.Bool:
			rv.SetBool(h&1 == 1)
		case reflect.Float32, reflect.Float64:
			rv.SetFloat(float64(int(h%13)-6) / 2)
		case reflect.Int, reflect.Int8, reflect.Int16, reflect.Int32, reflect.Int64:
			rv.SetInt(int64(h%7) - 3)
		default:
			rv.SetUint(uint64(h % 5))
		}
		return z
	}
	switch rv.Kind() {
	case reflect.Bool:
		rv.SetBool(s == "true")
	case reflect.Float32:
		if strings.HasPrefix(s, "r:") {
			rv.SetFloat(ratToFloat(s[2:]))
		} else if u, _, ok := parseBits(s); ok {
			rv.SetFloat(float64(math.Float32frombits(uint32(u))))
			// SetFloat through float64 keeps NaN-ness; payloads are not represented in SMT anyway
		}
	case reflect.Float64:
		if strings.HasPrefix(s, "r:") {
			rv.SetFloat(ratToFloat(s[2:]))
		} else if u, _, ok := parseBits(s); ok {
			rv.SetFloat(math.Float64frombits(u))
		}
	case reflect.Int, reflect.Int8, reflect.Int16, reflect.Int32, reflect.Int64:
		if u, kind, ok := parseBits(s); ok {
			w, _ := strconv.Atoi(kind[2:])
			sh := uint(64 - w)
			rv.SetInt(int64(u<<sh) >> sh)
		}
	default:
		if u, _, ok := parseBits(s); ok {
			rv.SetUint(u)
		}
	}
	return z
}

// Syms returns n symbols name[0] .. name[n-1].
func Syms[E Scalar](v *T, name string, n int) []E {
	out := make([]E, n)
	for i := range out {
		out[i] = Sym[E](v, fmt.Sprintf("%s[%d]", name, i))
	}
	return out
}

// IntIn is a symbolic int with lo <= x <= hi assumed.
// Data returns n elements named name_i: solver variables, or - when the case says "concrete": true - a fixed
// pattern of small positive and negative values (large instances, whose purpose is their size: a path per
// data-dependent branch of several thousand elements is out of reach, the native run on the pattern is not).
func Data[E Scalar](v *T, name string, n int) []E {
	if !(v.Has("concrete") && v.CBool("concrete")) {
		return Syms[E](v, name, n)
	}
	out := make([]E, n)
	var zero E
	for i := range out {
		k := i%5 + 1
		neg := i%2 == 1
		switch any(zero).(type) {
		case bool:
			out[i] = any(i%3 == 0).(E)
		case float32:
			f := float32(k) * 1.5
			if neg {
				f = -f
			}
			out[i] = any(f).(E)
		case float64:
			f := float64(k) * 1.5
			if neg {
				f = -f
			}
			out[i] = any(f).(E)
		default:
			out[i] = patternInt[E](k, neg)
		}
	}
	return out
}

func patternInt[E Scalar](k int, neg bool) E {
	var zero E
	switch any(zero).(type) {
	case int8:
		if neg {
			return any(int8(-k)).(E)
		}
		return any(int8(k)).(E)
	case int16:
		if neg {
			return any(int16(-k)).(E)
		}
		return any(int16(k)).(E)
	case int32:
		if neg {
			return any(int32(-k)).(E)
		}
		return any(int32(k)).(E)
	case int64:
		if neg {
			return any(int64(-k)).(E)
		}
		return any(int64(k)).(E)
	case int:
		if neg {
			return any(-k).(E)
		}
		return any(k).(E)
	case uint8:
		return any(uint8(k)).(E)
	case uint16:
		return any(uint16(k)).(E)
	case uint32:
		return any(uint32(k)).(E)
	case uint64:
		return any(uint64(k)).(E)
	}
	return zero
}

func (v *T) IntIn(name string, lo, hi int) int {
	x := Sym[int](v, name)
	if _, ok := v.raw(name); !ok {
		x = lo
	}
	v.Assume(lo <= x && x <= hi)
	return x
}

// Choose is one of vals, selected by the integer symbol name in [0, len(vals)-1] (symbolically: one
// if-then-else term, not one path per alternative).
func Choose[E Scalar](v *T, name string, vals ...E) E {
	return vals[v.IntIn(name, 0, len(vals)-1)]
}

func (v *T) Int64In(name string, lo, hi int64) int64 {
	x := Sym[int64](v, name)
	if _, ok := v.raw(name); !ok {
		x = lo
	}
	v.Assume(lo <= x && x <= hi)
	return x
}

// FreshString is a string different from every string literal of the program.
func (v *T) FreshString(name string) string { return "\x00zzverif-fresh-" + name }

// ---- assumptions, assertions, regions

func (v *T) Assume(cond bool) {
	if !cond {
		panic(assumeFailed{})
	}
}

func (v *T) Assert(label string, cond bool) {
	v.Reach = append(v.Reach, label)
	if !cond {
		v.Fails = append(v.Fails, label)
	}
}

// Region names a condition under which a known finding lives.
func (v *T) Region(name string, cond bool) {
	if cond {
		v.Notes = append(v.Notes, "region:"+name)
	}
}

func (v *T) Note(s string) { v.Notes = append(v.Notes, s) }

// Try runs f and reports whether it panicked.
func (v *T) Try(f func()) (panicked bool) {
	defer func() {
		if r := recover(); r != nil {
			if _, ok := r.(assumeFailed); ok {
				panic(r)
			}
			panicked = true
			v.Panic = fmt.Sprint(r)
		}
	}()
	f()
	return false
}

// Is is errors.Is.
func (v *T) Is(err, target error) bool { return errors.Is(err, target) }

// ---- tensors

func logicalData(t tensor.Tensor) []interface{} {
	if t.Shape().TotalSize() == 0 && !t.IsScalar() {
		return nil
	}
	if t.IsScalar() {
		return []interface{}{t.ScalarValue()}
	}
	shape := t.Shape()
	n := shape.TotalSize()
	out := make([]interface{}, 0, n)
	co := make([]int, len(shape))
	for {
		x, err := t.At(co...)
		if err != nil {
			panic(err)
		}
		out = append(out, x)
		i := len(shape) - 1
		for ; i >= 0; i-- {
			co[i]++
			if co[i] < shape[i] {
				break
			}
			co[i] = 0
		}
		if i < 0 {
			break
		}
	}
	return out
}

func (v *T) sameScalar(a, b interface{}) bool {
	if reflect.TypeOf(a) != reflect.TypeOf(b) {
		return false
	}
	switch x := a.(type) {
	case float32:
		y := b.(float32)
		return v.sameFloat(float64(x), float64(y), 1e-4)
	case float64:
		y := b.(float64)
		return v.sameFloat(x, y, 1e-9)
	}
	return a == b
}

func (v *T) sameFloat(x, y, tol float64) bool {
	if math.IsNaN(x) || math.IsNaN(y) {
		return math.IsNaN(x) && math.IsNaN(y)
	}
	if v.ring {
		if x == y {
			return true // also equal infinities
		}
		d := math.Abs(x - y)
		m := math.Max(math.Abs(x), math.Abs(y))
		return d <= tol*math.Max(1, m)
	}
	return x == y && math.Signbit(x) == math.Signbit(y)
}

func sameShape(a tensor.Shape, b []int) bool {
	if len(a) != len(b) {
		return false
	}
	for i := range a {
		if a[i] != b[i] {
			return false
		}
	}
	return true
}

// AssertTensor: got is non-nil, has shape wantShape, the element type of the
// slice `want`, and its elements in row-major order equal want.
func (v *T) AssertTensor(label string, got tensor.Tensor, wantShape []int, want interface{}) {
	v.assertTensor(label, got, wantShape, want, false)
}

// AssertTensorNum is AssertTensor with numeric equality on floats: -0 equals +0
// (NaN still only equals NaN).
func (v *T) AssertTensorNum(label string, got tensor.Tensor, wantShape []int, want interface{}) {
	v.assertTensor(label, got, wantShape, want, true)
}

func (v *T) assertTensor(label string, got tensor.Tensor, wantShape []int, want interface{}, numeric bool) {
	v.Reach = append(v.Reach, label)
	if got == nil || reflect.ValueOf(got).IsNil() {
		v.Fails = append(v.Fails, label)
		return
	}
	wv := reflect.ValueOf(want)
	if !sameShape(got.Shape(), wantShape) || got.Dtype().Type != wv.Type().Elem() {
		v.Fails = append(v.Fails, label)
		return
	}
	data := logicalData(got)
	if len(data) != wv.Len() {
		v.Fails = append(v.Fails, label)
		return
	}
	for i, x := range data {
		w := wv.Index(i).Interface()
		if numeric {
			if fx, ok := x.(float32); ok {
				if fw, ok := w.(float32); ok && fx == fw {
					continue
				}
			}
			if fx, ok := x.(float64); ok {
				if fw, ok := w.(float64); ok && fx == fw {
					continue
				}
			}
		}
		if !v.sameScalar(x, w) {
			v.Fails = append(v.Fails, label)
			return
		}
	}
}

// AssertSameTensor: same shape, dtype and elements (logical order).
func (v *T) AssertSameTensor(label string, got, want tensor.Tensor) {
	v.Reach = append(v.Reach, label)
	gn := got == nil || reflect.ValueOf(got).IsNil()
	wn := want == nil || reflect.ValueOf(want).IsNil()
	if gn || wn {
		if gn != wn {
			v.Fails = append(v.Fails, label)
		}
		return
	}
	if !got.Shape().Eq(want.Shape()) || len(got.Shape()) != len(want.Shape()) || got.Dtype() != want.Dtype() {
		v.Fails = append(v.Fails, label)
		return
	}
	a, b := logicalData(got), logicalData(want)
	if len(a) != len(b) {
		v.Fails = append(v.Fails, label)
		return
	}
	for i := range a {
		if !v.sameScalar(a[i], b[i]) {
			v.Fails = append(v.Fails, label)
			return
		}
	}
}

// Snap is a snapshot of a tensor's metadata and contents.
type Snap struct {
	nilT    bool
	shape   []int
	strides []int
	dt      tensor.Dtype
	data    []interface{}
}

func (v *T) Snapshot(t tensor.Tensor) *Snap {
	if t == nil || reflect.ValueOf(t).IsNil() {
		return &Snap{nilT: true}
	}
	return &Snap{shape: append([]int{}, t.Shape()...), strides: append([]int{}, t.Strides()...), dt: t.Dtype(), data: logicalData(t)}
}

// AssertUnchanged: t has the shape, strides, dtype and contents of the snapshot.
func (v *T) AssertUnchanged(label string, t tensor.Tensor, s *Snap) {
	v.Reach = append(v.Reach, label)
	if s.nilT {
		return
	}
	if !sameShape(t.Shape(), s.shape) || !sameShape(tensor.Shape(t.Strides()), s.strides) || t.Dtype() != s.dt {
		v.Fails = append(v.Fails, label)
		return
	}
	d := logicalData(t)
	if len(d) != len(s.data) {
		v.Fails = append(v.Fails, label)
		return
	}
	for i := range d {
		a, b := d[i], s.data[i]
		same := a == b
		if fa, ok := a.(float32); ok {
			fb := b.(float32)
			same = math.Float32bits(fa) == math.Float32bits(fb) || (fa != fa && fb != fb)
		}
		if fa, ok := a.(float64); ok {
			fb := b.(float64)
			same = math.Float64bits(fa) == math.Float64bits(fb) || (fa != fa && fb != fb)
		}
		if !same {
			v.Fails = append(v.Fails, label)
			return
		}
	}
}

// Protect / ProtectAll / AssertNoWrites: the frame monitor. Under the interpreter every
// store into the protected objects is seen; natively the closest observable is a lasting
// change of the state reachable from the protected roots (fingerprints are compared).
type protectedRoot struct {
	name string
	root interface{}
	fp   string
}

func (v *T) Protect(name string, t tensor.Tensor) {
	if t == nil || reflect.ValueOf(t).IsNil() {
		return
	}
	v.roots = append(v.roots, protectedRoot{name, t, v.Fingerprint(t)})
}

func (v *T) ProtectAll(name string, root interface{}) {
	v.roots = append(v.roots, protectedRoot{name, root, v.Fingerprint(root)})
}

// ProtectPackageState arms the monitor on gonnx's package-level variables (interpreter only).
func (v *T) ProtectPackageState() {}

func (v *T) AssertNoWrites(label string) {
	v.Reach = append(v.Reach, label)
	for _, r := range v.roots {
		if v.Fingerprint(r.root) != r.fp {
			v.Fails = append(v.Fails, label)
			return
		}
	}
}

// ---- native replay driver

var registry = map[string]func(*T){}

func Register(name string, f func(*T)) { registry[name] = f }

type Job struct {
	ID      string                 `json:"id"`
	Harness string                 `json:"harness"`
	Case    map[string]interface{} `json:"case"`
	Asg     map[string]string      `json:"asg"`
}

type JobResult struct {
	ID         string   `json:"id"`
	Harness    string   `json:"harness"`
	Fails      []string `json:"fails"`
	Reach      []string `json:"reach"`
	Notes      []string `json:"notes"`
	Panic      string   `json:"panic,omitempty"`
	Uncaught   string   `json:"uncaught,omitempty"`
	AssumeFail bool     `json:"assume_fail,omitempty"`
	Missing    bool     `json:"missing,omitempty"`
}

func runJob(j Job) (res JobResult) {
	res.ID, res.Harness = j.ID, j.Harness
	f, ok := registry[j.Harness]
	if !ok {
		res.Missing = true
		return
	}
	v := New(j.Case, j.Asg)
	defer func() {
		if r := recover(); r != nil {
			if _, ok := r.(assumeFailed); ok {
				res.AssumeFail = true
			} else {
				res.Uncaught = fmt.Sprint(r)
			}
		}
		res.Fails, res.Reach, res.Notes, res.Panic = v.Fails, v.Reach, v.Notes, v.Panic
	}()
	f(v)
	return
}

// RunJobs executes the jobs of $ZZVERIF_IN that belong to this test binary
// and appends the results to $ZZVERIF_OUT (JSON lines).
func RunJobs(pkg string) {
	in := os.Getenv("ZZVERIF_IN")
	out := os.Getenv("ZZVERIF_OUT")
	if in == "" || out == "" {
		return
	}
	raw, err := os.ReadFile(in)
	if err != nil {
		panic(err)
	}
	var jobs []Job
	dec := json.NewDecoder(strings.NewReader(string(raw)))
	if err := dec.Decode(&jobs); err != nil {
		panic(err)
	}
	f, err := os.OpenFile(out, os.O_APPEND|os.O_CREATE|os.O_WRONLY, 0o644)
	if err != nil {
		panic(err)
	}
	defer f.Close()
	names := make([]string, 0, len(registry))
	for n := range registry {
		names = append(names, n)
	}
	sort.Strings(names)
	enc := json.NewEncoder(f)
	for _, j := range jobs {
		if !strings.HasPrefix(j.Harness, pkg+".") {
			continue
		}
		enc.Encode(runJob(j))
	}
}

// ShapeTensor is a tensor of which only the shape matters (symbolically it has
// no data at all: any access beyond Shape()/Dtype() ends the run as inconclusive).
func (v *T) ShapeTensor(name string, dims []int) tensor.Tensor {
	return tensor.New(tensor.WithShape(dims...), tensor.Of(tensor.Float32))
}

// DtypeUniverse is the element-type universe (the order of ops.AllTypes).
var DtypeUniverse = []tensor.Dtype{
	tensor.Uint8, tensor.Uint16, tensor.Uint32, tensor.Uint64,
	tensor.Int8, tensor.Int16, tensor.Int32, tensor.Int64,
	tensor.Float32, tensor.Float64,
	tensor.Complex64, tensor.Complex128,
	tensor.String, tensor.Bool,
}

// DtypeTensor is a one-element tensor whose element type is symbolic
// (symbol name+".dtype", an index into DtypeUniverse).
func (v *T) DtypeTensor(name string) tensor.Tensor {
	idx := v.IntIn(name+".dtype", 0, 13)
	return tensor.New(tensor.Of(DtypeUniverse[idx]), tensor.WithShape(1))
}

// Fingerprint renders all state reachable from x (pointers followed, unexported
// fields included) as a string; used to compare operator instances.
func (v *T) Fingerprint(x interface{}) string {
	return fingerprint(reflect.ValueOf(x), 0, map[uintptr]bool{})
}

func fingerprint(x reflect.Value, depth int, seen map[uintptr]bool) string {
	if depth > 12 {
		return "..."
	}
	if !x.IsValid() {
		return "nil"
	}
	switch x.Kind() {
	case reflect.Bool:
		return fmt.Sprint(x.Bool())
	case reflect.Int, reflect.Int8, reflect.Int16, reflect.Int32, reflect.Int64:
		return fmt.Sprint(x.Int())
	case reflect.Uint, reflect.Uint8, reflect.Uint16, reflect.Uint32, reflect.Uint64, reflect.Uintptr:
		return fmt.Sprint(int64(x.Uint()))
	case reflect.Float32, reflect.Float64:
		return fmt.Sprint(x.Float())
	case reflect.String:
		return strconv.Quote(x.String())
	case reflect.Struct:
		if x.Type() == reflect.TypeOf(tensor.Dtype{}) {
			for i, d := range DtypeUniverse {
				if !x.Field(0).IsNil() && reflect.ValueOf(d.Type).Pointer() == x.Field(0).Elem().Pointer() {
					return []string{"Uint8", "Uint16", "Uint32", "Uint64", "Int8", "Int16", "Int32", "Int64", "Float32", "Float64", "Complex64", "Complex128", "String", "Bool"}[i]
				}
			}
			return "dtype?"
		}
		var p []string
		for i := 0; i < x.NumField(); i++ {
			p = append(p, fingerprint(x.Field(i), depth+1, seen))
		}
		return "{" + strings.Join(p, " ") + "}"
	case reflect.Array:
		var p []string
		for i := 0; i < x.Len(); i++ {
			p = append(p, fingerprint(x.Index(i), depth+1, seen))
		}
		return "[" + strings.Join(p, " ") + "]"
	case reflect.Slice:
		if x.IsNil() {
			return "[]"
		}
		var p []string
		for i := 0; i < x.Len(); i++ {
			p = append(p, fingerprint(x.Index(i), depth+1, seen))
		}
		return "[" + strings.Join(p, " ") + "]"
	case reflect.Ptr:
		if x.IsNil() {
			return "nil"
		}
		if t, ok := tensorOf(x); ok {
			if os.Getenv("ZZVERIF_FP_SHAPE_ONLY") != "" {
				return "tensor" + fmt.Sprint([]int(t.Shape()))
			}
			return "tensor" + fmt.Sprint([]int(t.Shape())) + fmt.Sprint(t.Strides()) + t.Dtype().String() + fmt.Sprint(logicalData(t))
		}
		if seen[x.Pointer()] {
			return "&cycle"
		}
		seen[x.Pointer()] = true
		return "&" + fingerprint(x.Elem(), depth+1, seen)
	case reflect.Interface:
		if x.IsNil() {
			return "nil"
		}
		return fingerprint(x.Elem(), depth+1, seen)
	case reflect.Map:
		if x.IsNil() {
			return "map[]"
		}
		var p []string
		it := x.MapRange()
		for it.Next() {
			p = append(p, fingerprint(it.Key(), depth+1, seen)+":"+fingerprint(it.Value(), depth+1, seen))
		}
		sort.Strings(p)
		return "map[" + strings.Join(p, " ") + "]"
	case reflect.Func:
		if x.IsNil() {
			return "func:nil"
		}
		return "func"
	}
	return "<" + x.Kind().String() + ">"
}

func tensorOf(x reflect.Value) (tensor.Tensor, bool) {
	if x.Type() == reflect.TypeOf((*tensor.Dense)(nil)) && x.CanInterface() {
		return x.Interface().(*tensor.Dense), true
	}
	if x.Type() == reflect.TypeOf((*tensor.Dense)(nil)) {
		return reflect.NewAt(x.Type().Elem(), x.UnsafePointer()).Interface().(*tensor.Dense), true
	}
	return nil, false
}

// Concrete returns x; symbolically it forks over every feasible value of x so
// that the harness can go on computing with a concrete number.
func (v *T) Concrete(x int) int { return x }

// StopAtBoundary: when a symbolic value with a huge domain reaches the point
// where it must be concrete (a gorgonia call), end the path quietly instead of
// reporting an engine limit ("phase A": full-range attributes).
func (v *T) StopAtBoundary() {}
