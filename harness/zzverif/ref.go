//go:build verif

package zzverif

import "gorgonia.org/tensor"

// Reference helpers shared by the harnesses (plain Go; under the symbolic
// interpreter they are interpreted like any other code).

func Prod(xs []int) int {
	p := 1
	for _, x := range xs {
		p *= x
	}
	return p
}

func Unravel(flat int, shape []int) []int {
	idx := make([]int, len(shape))
	for i := len(shape) - 1; i >= 0; i-- {
		idx[i] = flat % shape[i]
		flat /= shape[i]
	}
	return idx
}

func Ravel(idx []int, shape []int) int {
	f := 0
	for i := range shape {
		f = f*shape[i] + idx[i]
	}
	return f
}

// BroadcastShape returns the ONNX multidirectional broadcast shape, ok=false when incompatible.
func BroadcastShape(a, b []int) ([]int, bool) {
	n := len(a)
	if len(b) > n {
		n = len(b)
	}
	out := make([]int, n)
	for i := 0; i < n; i++ {
		da, db := 1, 1
		if k := len(a) - n + i; k >= 0 {
			da = a[k]
		}
		if k := len(b) - n + i; k >= 0 {
			db = b[k]
		}
		switch {
		case da == db:
			out[i] = da
		case da == 1:
			out[i] = db
		case db == 1:
			out[i] = da
		default:
			return nil, false
		}
	}
	return out, true
}

// BroadcastData returns src (row-major, shape srcShape) broadcast to outShape.
func BroadcastData[E any](src []E, srcShape, outShape []int) []E {
	out := make([]E, Prod(outShape))
	off := len(outShape) - len(srcShape)
	for f := range out {
		idx := Unravel(f, outShape)
		sidx := make([]int, len(srcShape))
		for k := range srcShape {
			if srcShape[k] != 1 {
				sidx[k] = idx[off+k]
			}
		}
		out[f] = src[Ravel(sidx, srcShape)]
	}
	return out
}

// NewTensor builds a tensor over a private copy of data.
func NewTensor[E any](data []E, shape []int) tensor.Tensor {
	return tensor.New(tensor.WithShape(shape...), tensor.WithBacking(append([]E(nil), data...)))
}

func SameInts(a, b []int) bool {
	if len(a) != len(b) {
		return false
	}
	for i := range a {
		if a[i] != b[i] {
			return false
		}
	}
	return true
}
